"""Second reading from LLVM IR (thorough tier): per function, which (struct, field index) are
stored to, taken from `clang -O0 -emit-llvm` output, compared with the same set computed from the
AST facts.  A difference means the extractor (or a rule's effect analysis built on it) has a blind
spot - e.g. a write hidden behind a macro or a cast - and is reported as analysis-broken, never as a
verdict."""
import os, re, subprocess
from .facts import walk, strip, kids, BrokenAnalysis
from . import modref as MR

GEP = re.compile(r"^\s*(%[\w.]+) = getelementptr inbounds %struct\.([\w.]+), %struct\.[\w.]+\* (%[\w.]+), i32 0, i32 (\d+)\s*$")
GEPN = re.compile(r"^\s*(%[\w.]+) = getelementptr inbounds %struct\.([\w.]+), %struct\.[\w.]+\* (%[\w.]+), i32 0, i32 (\d+), i32 (\d+)")
CAST = re.compile(r"^\s*(%[\w.]+) = bitcast (?:%struct\.([\w.]+)\*|[^%]*) ?(%[\w.]+) to ")
CASTS = re.compile(r"^\s*(%[\w.]+) = bitcast %struct\.([\w.]+)\* (%[\w.]+) to i8\*")
STORE = re.compile(r"^\s*store .* (%[\w.]+)(?:, align \d+)?\s*$")
MEMW = re.compile(r"call void @llvm\.mem(?:cpy|set|move)[\w.]*\((?:i8\*|ptr) (?:noundef )?(?:nonnull )?(?:align \d+ )?(?:dereferenceable\(\d+\) )?(%[\w.]+)")
DEFINE = re.compile(r"^define .*? @([\w.]+)\(")


def ir_writes(repo, unit, flags):
    """{function: set((struct, index or '*'))} from the unit's LLVM IR."""
    cmd = ["clang", "-O0", "-Xclang", "-disable-O0-optnone", "-g0", "-S", "-emit-llvm", "-w", "-o", "-"] + list(flags) + [os.path.join(repo, unit)]
    p = subprocess.run(cmd, capture_output=True, text=True, cwd=repo)
    if p.returncode != 0:
        raise BrokenAnalysis("clang -emit-llvm failed on %s: %s" % (unit, p.stderr[-300:]))
    out = {}
    cur = None
    regs = {}
    structptr = {}
    for line in p.stdout.splitlines():
        m = DEFINE.match(line)
        if m:
            cur = m.group(1)
            out[cur] = set()
            regs = {}
            structptr = {}
            continue
        if cur is None:
            continue
        if line.startswith("}"):
            cur = None
            continue
        m = GEP.match(line)
        if m:
            regs[m.group(1)] = (m.group(2), int(m.group(4)))
            continue
        m = GEPN.match(line)
        if m:
            regs[m.group(1)] = (m.group(2), int(m.group(4)))
            continue
        m = CASTS.match(line)
        if m:
            if m.group(3) in regs:
                regs[m.group(1)] = regs[m.group(3)]
            else:
                structptr[m.group(1)] = m.group(2)
            continue
        m = re.match(r"^\s*(%[\w.]+) = bitcast [^%]*(%[\w.]+) to ", line)
        if m and m.group(2) in regs:
            regs[m.group(1)] = regs[m.group(2)]
            continue
        m = STORE.match(line)
        if m and m.group(1) in regs:
            out[cur].add(regs[m.group(1)])
            continue
        m = MEMW.search(line)
        if m:
            r = m.group(1)
            if r in regs:
                out[cur].add(regs[r])
            elif r in structptr:
                out[cur].add((structptr[r], "*"))
    return out


def ast_writes(prog, unit):
    """{function: set((record, field index or '*'))} from the extractor's facts."""
    out = {}
    for f in prog.unit_funcs(unit):
        s = set()
        for n in walk(f.body):
            if MR.is_store(n):
                l = strip(n["kids"][0])
                if l["k"] == "MemberExpr" and "fidx" in l:
                    s.add((l.get("rec"), l["fidx"]))
            elif n["k"] == "CallExpr" and n.get("callee") in ("memcpy", "memset", "memmove", "__builtin_memcpy", "__builtin_memset"):
                a = strip(n["kids"][1])
                if a["k"] == "UnaryOperator" and a.get("op") == "&":
                    t = strip(a["kids"][0])
                    if t["k"] == "MemberExpr" and "fidx" in t:
                        s.add((t.get("rec"), t["fidx"]))
                    elif t["k"] == "DeclRefExpr":
                        m = re.match(r"^(?:const )?struct (\w+)$", t.get("t", ""))
                        if m:
                            s.add((m.group(1), "*"))
                else:
                    m = re.match(r"^(?:const )?struct (\w+) \*$", a.get("t", ""))
                    if m:
                        s.add((m.group(1), "*"))
            elif n["k"] == "DeclStmt":
                for d in n["decls"]:
                    ini = d.get("init")
                    if ini is not None and strip(ini)["k"] == "InitListExpr":
                        m = re.match(r"^(?:const )?struct (\w+)$", d.get("t", "")) or re.match(r"^(\w+)$", d.get("t", ""))
                        rec = strip(ini).get("rec") or (m.group(1) if m else None)
                        if rec:
                            s.add((rec, "*"))
        out[f.name] = s
    return out


def compare(prog, units, records):
    """List of (unit, function, only_in_ir, only_in_ast) restricted to `records`."""
    diffs = []
    nfun = 0
    for u in units:
        irw = ir_writes(prog.repo, u, prog.flags)
        astw = ast_writes(prog, u)
        for fn, iw in irw.items():
            if fn not in astw:
                continue
            nfun += 1
            aw = astw[fn]
            iwr = set(x for x in iw if x[0] in records)
            awr = set(x for x in aw if x[0] in records)
            # whole-object writes (aggregate init / memset of the object) cover every field of that record
            whole_i = set(r for r, i in iwr if i == "*")
            whole_a = set(r for r, i in awr if i == "*")
            only_ir = set(x for x in iwr - awr if x[0] not in whole_a and not (x[1] == "*" and any(y[0] == x[0] for y in awr)))
            only_ast = set(x for x in awr - iwr if x[0] not in whole_i and not (x[1] == "*" and any(y[0] == x[0] for y in iwr)))
            if only_ir or only_ast:
                diffs.append((u, fn, sorted(only_ir, key=str), sorted(only_ast, key=str)))
    return diffs, nfun
