"""Order-domain abstract interpretation (used by the heap rule of C04/C05).

The heap touches its elements only through the comparison callback, so its behaviour on n elements is a
function of the *ordering* of those elements and nothing else.  The domain: elements are opaque symbols
E0..En-1; what is known about them is a constraint network R[i][j] subset of {LT,EQ,GT} closed under path
consistency (complete for the point algebra).  A call through the comparison pointer splits the trace into
the outcomes the network still allows and refines it.  Indices and sizes are concrete because n is fixed per
run (0..N), so loops run to completion.  The vector the heap is built on is modelled by its interface
(size / value / data[] / add / clip / reset), as T-own already trusts libmy/vector.h.

Built on mtblcheck/bits.py (statements, integers, calls); adds abstract records, element pointers, the
vector model and the comparison fork."""
from .facts import BrokenAnalysis
from . import bits as B

LT, EQ, GT = "LT", "EQ", "GT"
ALL = frozenset((LT, EQ, GT))
INV = {LT: GT, EQ: EQ, GT: LT}
COMP = {(LT, LT): {LT}, (LT, EQ): {LT}, (LT, GT): {LT, EQ, GT}, (EQ, LT): {LT}, (EQ, EQ): {EQ}, (EQ, GT): {GT},
        (GT, LT): {LT, EQ, GT}, (GT, EQ): {GT}, (GT, GT): {GT}}


class Net:
    """Point-algebra constraint network over element ids."""

    def __init__(self):
        self.r = {}

    def copy(self):
        n = Net()
        n.r = dict(self.r)
        return n

    def get(self, a, b):
        if a == b:
            return frozenset((EQ,))
        return self.r.get((a, b), ALL)

    def ids(self):
        s = set()
        for a, b in self.r:
            s.add(a)
            s.add(b)
        return s

    def refine(self, a, b, rel):
        """Intersect R[a][b] with rel and re-establish path consistency; False when inconsistent."""
        if a == b:
            return EQ in rel
        new = self.get(a, b) & frozenset(rel)
        if not new:
            return False
        self.r[(a, b)] = new
        self.r[(b, a)] = frozenset(INV[x] for x in new)
        ids = sorted(self.ids())
        changed = True
        while changed:
            changed = False
            for i in ids:
                for j in ids:
                    if i == j:
                        continue
                    cur = self.get(i, j)
                    for k in ids:
                        if k == i or k == j:
                            continue
                        comp = set()
                        for x in self.get(i, k):
                            for y in self.get(k, j):
                                comp |= COMP[(x, y)]
                        nw = cur & comp
                        if nw != cur:
                            if not nw:
                                return False
                            cur = nw
                            self.r[(i, j)] = cur
                            self.r[(j, i)] = frozenset(INV[x] for x in cur)
                            changed = True
        return True

    def le(self, a, b):
        return self.get(a, b) <= frozenset((LT, EQ))


class Vecs:
    def __init__(self):
        self.v = {}

    def copy(self):
        n = Vecs()
        n.v = {k: list(x) for k, x in self.v.items()}
        return n


class Fields:
    def __init__(self):
        self.f = {}

    def copy(self):
        n = Fields()
        n.f = dict(self.f)
        return n


def elem(i):
    return B.Ptr(("E", i), 0)


class OrderInterp(B.Interp):
    def __init__(self, prog, unit, vec_prefix, cmp_field):
        super().__init__(prog, unit)
        self.vp = vec_prefix
        self.cmp_field = cmp_field
        self.ncmp = 0

    # ---- abstract records -------------------------------------------------------------------------
    def lv_member(self, st, n, f, depth):
        kid = n["kids"][0]
        if n.get("arrow", True) or "*" in (kid.get("ct") or kid.get("t") or ""):
            for s, p in self.ev(st, kid, f, depth):
                if not isinstance(p, B.Ptr) or p.base is None:
                    raise BrokenAnalysis("%s: member of a null or non-pointer value (%s)" % (f.name, self.where(f, n)))
                yield s, ("field", (p.base, p.off), n["field"])
        else:
            for s, loc in self.lv(st, kid, f, depth):
                yield s, ("field", loc, n["field"])

    def load(self, s, loc, ti, f, n):
        if loc[0] == "field":
            v = s.ext["fields"].f.get((loc[1], loc[2]))
            if v is None:
                if ti is not None and ti[0] == "int":
                    raise BrokenAnalysis("%s: integer field %s read before it has a value (%s)" % (f.name, loc[2], self.where(f, n)))
                v = B.Ptr(("F", loc[1], loc[2]), 0)     # an opaque object reached through this field
                s.ext["fields"].f[(loc[1], loc[2])] = v
            return v
        if loc[0] == "mem" and isinstance(loc[1], tuple) and loc[1] and loc[1][0] == "VD":
            vec = s.ext["vecs"].v.get(loc[1][1])
            i = loc[2] // 8
            if vec is None or i < 0 or i >= len(vec):
                raise BrokenAnalysis("%s: vector element %s outside its %s elements (%s)" % (f.name, i, None if vec is None else len(vec), self.where(f, n)))
            return vec[i]
        return super().load(s, loc, ti, f, n)

    def store(self, s, loc, v, ti, f, n):
        if loc[0] == "field":
            s.ext["fields"].f[(loc[1], loc[2])] = v
            return
        if loc[0] == "mem" and isinstance(loc[1], tuple) and loc[1] and loc[1][0] == "VD":
            vec = s.ext["vecs"].v.get(loc[1][1])
            i = loc[2] // 8
            if vec is None or i < 0 or i >= len(vec):
                raise OutOfBounds("%s stores element %s of a vector of %s (%s)" % (f.name, i, None if vec is None else len(vec), self.where(f, n)))
            vec[i] = v
            return
        if loc[0] == "var" and not isinstance(v, B.BV):
            s.frames[loc[1]][loc[2]] = v
            return
        return super().store(s, loc, v, ti, f, n)

    def esize(self, n, f):
        ti = B.tinfo(n)
        if ti is not None and ti[0] == "ptr" and ti[1] is None:
            return 8
        return super().esize(n, f)

    def lv(self, st, n, f, depth):
        if n["k"] == "ArraySubscriptExpr":
            # arrays of pointers (the vector's data): element size 8
            for s, p in self.ev(st, n["kids"][0], f, depth):
                for s2, i in self.ev(s, n["kids"][1], f, depth):
                    i = s2.nbits(i)
                    if isinstance(p, B.Ptr) and isinstance(p.base, tuple) and p.base and p.base[0] == "VD":
                        if not i.is_const():
                            raise BrokenAnalysis("%s: vector index is not a constant on this trace (%s)" % (f.name, self.where(f, n)))
                        yield s2, ("mem", p.base, p.off + 8 * i.value())
                        continue
                    yield from super().lv(s2, n, f, depth)
                    return
            return
        yield from super().lv(st, n, f, depth)

    # ---- calls --------------------------------------------------------------------------------------
    def ev_call(self, st, n, ti, f, depth):
        name = n.get("callee")
        args = n["kids"][1:]
        if name is None:
            ce = B_strip(n["kids"][0])
            if ce["k"] == "MemberExpr" and ce.get("field") == self.cmp_field:
                for s, vals in self.ev_args(st, args, 0, [], f, depth):
                    a, b = vals[0], vals[1]
                    if not (isinstance(a, B.Ptr) and isinstance(b, B.Ptr) and isinstance(a.base, tuple) and isinstance(b.base, tuple)
                            and a.base[0] == "E" and b.base[0] == "E"):
                        raise BrokenAnalysis("%s: comparison of something that is not a heap element (%s)" % (f.name, self.where(f, n)))
                    self.ncmp += 1
                    net = s.ext["net"]
                    outs = sorted(net.get(a.base[1], b.base[1]))
                    forks = []
                    for r in outs:
                        s2 = s.copy() if len(outs) > 1 else s
                        if s2.ext["net"].refine(a.base[1], b.base[1], (r,)):
                            s2.branches.append("cmp(E%d,E%d)=%s" % (a.base[1], b.base[1], r))
                            forks.append((s2, r))
                    for s2, r in forks:
                        yield s2, B.const({LT: -1, EQ: 0, GT: 1}[r] & 0xffffffff, 32, True)
                return
            raise BrokenAnalysis("%s: indirect call that is not the comparison callback (%s)" % (f.name, self.where(f, n)))
        if name.startswith(self.vp + "_"):
            op = name[len(self.vp) + 1:]
            for s, vals in self.ev_args(st, args, 0, [], f, depth):
                v0 = vals[0]
                if not isinstance(v0, B.Ptr):
                    raise BrokenAnalysis("%s: %s on a non-pointer (%s)" % (f.name, name, self.where(f, n)))
                vec = s.ext["vecs"].v.setdefault(v0.base, [])
                if op in ("size", "bytes"):
                    yield s, B.const(len(vec) * (8 if op == "bytes" else 1), 64, False)
                elif op == "value":
                    i = s.nbits(vals[1])
                    if not i.is_const():
                        raise BrokenAnalysis("%s: vector index is not a constant on this trace (%s)" % (f.name, self.where(f, n)))
                    if i.value() >= len(vec):
                        raise OutOfBounds("%s reads element %d of a vector of %d (%s)" % (f.name, i.value(), len(vec), self.where(f, n)))
                    yield s, vec[i.value()]
                elif op == "data":
                    yield s, B.Ptr(("VD", v0.base), 0)
                elif op in ("add", "append"):
                    vec.append(vals[1])
                    yield s, None
                elif op == "clip":
                    k = s.nbits(vals[1])
                    if not k.is_const():
                        raise BrokenAnalysis("%s: clip to an unknown size (%s)" % (f.name, self.where(f, n)))
                    if k.value() < len(vec):
                        del vec[k.value():]
                    yield s, None
                elif op == "reset":
                    del vec[:]
                    yield s, None
                else:
                    raise BrokenAnalysis("%s: vector operation %s has no model (%s)" % (f.name, name, self.where(f, n)))
            return
        if name in ("__assert_fail",):
            raise OutOfBounds("%s: assertion fails on this trace (%s)" % (f.name, self.where(f, n)))
        yield from super().ev_call(st, n, ti, f, depth)

    def ev(self, st, n, f, depth):
        # pointer-valued expressions the integer domain does not cover
        k = n["k"]
        if k in ("ImplicitCastExpr", "CStyleCastExpr") and n.get("cast") == "LValueToRValue":
            ti = B.tinfo(n)
            if ti is None or ti[0] != "int":
                for s, loc in self.lv(st, n["kids"][0], f, depth):
                    yield s, self.load(s, loc, ti, f, n)
                return
        yield from super().ev(st, n, f, depth)

    # ---- driving --------------------------------------------------------------------------------------
    def run_heap(self, f, n_elems, heap_pre, extra_args=()):
        """Run f(h, *extra) on a heap of n_elems symbolic elements; heap_pre: assume the array already is a heap."""
        st = B.St()
        st.ext["net"] = Net()
        st.ext["vecs"] = Vecs()
        st.ext["fields"] = Fields()
        hbase = ("p", 0)
        vbase = ("F", (hbase, 0), "vec")
        st.ext["fields"].f[((hbase, 0), "vec")] = B.Ptr(vbase, 0)
        st.ext["vecs"].v[vbase] = [elem(i) for i in range(n_elems)]
        if heap_pre:
            for i in range(1, n_elems):
                st.ext["net"].refine((i - 1) // 2, i, (LT, EQ))
        frame = {}
        for i, prm in enumerate(f.params):
            if i == 0:
                frame[prm["name"]] = B.Ptr(hbase, 0)
            else:
                v = extra_args[i - 1]
                if isinstance(v, int):
                    ti = B.tparse(prm.get("ct") or prm["t"])
                    v = B.const(v, ti[1], ti[2])
                frame[prm["name"]] = v
        st.frames.append(frame)
        out = []
        try:
            for s, sig in self.exec_fn(st, f, 0):
                out.append((s, sig[1] if isinstance(sig, tuple) else None, None))
                if len(out) > 200000:
                    raise BrokenAnalysis("%s: trace budget exceeded" % f.name)
        except OutOfBounds as e:
            out.append((None, None, str(e)))
        return out, vbase


class OutOfBounds(Exception):
    pass


def B_strip(n):
    while n is not None and n.get("k") in ("ParenExpr", "ImplicitCastExpr", "CStyleCastExpr", "ConstantExpr") and n.get("kids"):
        n = n["kids"][0]
    return n
