"""Allocation-aware extension of the bit interpreter (used by the container-contract rule).

Adds to mtblcheck/bits.py:
  * abstract records: `p->f` on any pointer value is a cell named (object, f); integer cells hold bit vectors,
    pointer cells hold pointers;
  * a heap model: my_malloc/malloc, my_calloc/calloc, my_realloc/realloc, my_free/free create, resize and
    retire allocation objects with a byte size; every byte access through a pointer into an allocation is
    checked against its size and liveness (violations are collected, not raised as analysis errors);
  * pointer-sized cells inside allocations (vectors of pointers).
Sizes are concrete in the scenarios the rules run, element values stay symbolic."""
from .facts import BrokenAnalysis
from . import bits as B


class MemFault(Exception):
    """The analysed code itself does something the memory model forbids (out of bounds, use after free, double free,
    failed assertion).  A verdict about the code, not an analysis problem."""


class Heap:
    def __init__(self):
        self.allocs = {}     # id -> [size, live, zeroed]
        self.pcells = {}     # (base, off) -> Ptr
        self.fields = {}     # ((base, off), name) -> value
        self.next = 0
        self.log = []

    def copy(self):
        h = Heap()
        h.allocs = {k: list(v) for k, v in self.allocs.items()}
        h.pcells = dict(self.pcells)
        h.fields = dict(self.fields)
        h.next = self.next
        h.log = list(self.log)
        return h


# the C library's allocator is the model; the project's wrappers (my_malloc, ...) are interpreted from their bodies
ALLOC = {"malloc": "m", "calloc": "c"}
REALLOC = ("realloc",)
FREE = ("free",)


class MemInterp(B.Interp):
    def new_state(self):
        st = B.St()
        st.ext["heap"] = Heap()
        st.frames.append({})
        return st

    # ---- records ------------------------------------------------------------------------------------
    def lv_member(self, st, n, f, depth):
        kid = n["kids"][0]
        if n.get("arrow", True):
            for s, p in self.ev(st, kid, f, depth):
                if not isinstance(p, B.Ptr) or p.base is None:
                    raise MemFault("%s dereferences a null or invalid pointer for member %s (%s)" % (f.name, n.get("field"), self.where(f, n)))
                self.check_live(s, p.base, f, n)
                yield s, ("field", (p.base, p.off), n["field"])
        else:
            for s, loc in self.lv(st, kid, f, depth):
                if loc[0] == "var":
                    # a local struct object: the same cell as through a pointer to it (&h)->f
                    loc = (("L", loc[1], loc[2]), 0)
                elif loc[0] == "mem":
                    loc = (loc[1], loc[2])
                yield s, ("field", loc, n["field"])

    def check_live(self, s, base, f, n):
        if isinstance(base, tuple) and base and base[0] == "A":
            a = s.ext["heap"].allocs.get(base[1])
            if a is None or not a[1]:
                raise MemFault("%s uses freed memory (%s)" % (f.name, self.where(f, n)))

    def lv(self, st, n, f, depth):
        if n["k"] == "ArraySubscriptExpr":
            ti = B.tinfo(n)
            es = ti[1] // 8 if ti and ti[0] == "int" else 8
            for s, p in self.ev(st, n["kids"][0], f, depth):
                for s2, i in self.ev(s, n["kids"][1], f, depth):
                    i = s2.nbits(i)
                    if not isinstance(p, B.Ptr) or not i.is_const():
                        raise BrokenAnalysis("%s: array index is not a known constant on this trace (%s)" % (f.name, self.where(f, n)))
                    yield s2, ("mem", p.base, p.off + i.value() * es)
            return
        yield from super().lv(st, n, f, depth)

    def esize(self, n, f):
        ti = B.tinfo(n)
        if ti is not None and ti[0] == "ptr" and ti[1] is None:
            return 8
        return super().esize(n, f)

    # ---- memory ---------------------------------------------------------------------------------------
    def _bounds(self, s, base, off, nbytes, f, n, what):
        if isinstance(base, tuple) and base and base[0] == "A":
            a = s.ext["heap"].allocs.get(base[1])
            if a is None or not a[1]:
                raise MemFault("%s %s freed memory (%s)" % (f.name, what, self.where(f, n)))
            if off < 0 or off + nbytes > a[0]:
                raise MemFault("%s %s bytes [%d,%d) of an allocation of %d bytes (%s)" % (f.name, what, off, off + nbytes, a[0], self.where(f, n)))
            return a
        return None

    def load_byte(self, s, base, off, f, n):
        a = self._bounds(s, base, off, 1, f, n, "reads")
        if a is not None:
            b = s.mem.get((base, off))
            if b is None:
                b = (0,) * 8 if a[2] else (None,) * 8
            return b
        return super().load_byte(s, base, off, f, n)

    def store_byte(self, s, base, off, bits_, f, n):
        a = self._bounds(s, base, off, 1, f, n, "writes")
        if a is not None:
            s.mem[(base, off)] = tuple(bits_)
            s.ext["heap"].pcells.pop((base, off - off % 8), None)
            return
        return super().store_byte(s, base, off, bits_, f, n)

    def ev_unary(self, st, n, ti, f, depth):
        if n.get("op") == "&":
            # the address of a member: a pointer that designates that member cell
            for s, loc in self.lv(st, n["kids"][0], f, depth):
                if loc[0] == "field":
                    yield s, B.Ptr(("F", loc[1], loc[2]), 0)
                elif loc[0] == "var":
                    yield s, B.Ptr(("L", loc[1], loc[2]), 0)
                else:
                    yield s, B.Ptr(loc[1], loc[2])
            return
        yield from super().ev_unary(st, n, ti, f, depth)

    @staticmethod
    def _cell(loc):
        """A dereferenced pointer-to-member is the member."""
        if loc[0] == "mem" and isinstance(loc[1], tuple) and loc[1] and loc[1][0] == "F" and loc[2] == 0:
            return ("field", loc[1][1], loc[1][2])
        return loc

    # local struct objects keep their members in the heap model's member cells (so that `h.f`, `(&h)->f` and a callee's
    # `p->f` are one cell); a struct *value* (returned by value, assigned, used as an initialiser) is a Rec
    def _spill(self, s, frame_no, name, rec):
        cell = (("L", frame_no, name), 0)
        for fld, v in rec.fields.items():
            s.ext["heap"].fields[(cell, fld)] = v
        s.frames[frame_no][name] = B.Rec(rec.name, {})

    def _gather(self, s, frame_no, name, rec):
        cell = (("L", frame_no, name), 0)
        d = dict(rec.fields)
        for (c_, fld), v in s.ext["heap"].fields.items():
            if c_ == cell:
                d[fld] = v
        return B.Rec(rec.name, d)

    def exec_decls(self, st, decls, i, f, depth):
        for s, sig in super().exec_decls(st, decls, i, f, depth):
            fr = len(s.frames) - 1
            for d in decls[i:]:
                v = s.frames[fr].get(d["name"])
                if isinstance(v, B.Rec) and v.fields:
                    self._spill(s, fr, d["name"], v)
            yield s, sig

    def load(self, s, loc, ti, f, n):
        loc = self._cell(loc)
        if loc[0] == "var" and isinstance(s.frames[loc[1]].get(loc[2]), B.Rec):
            return self._gather(s, loc[1], loc[2], s.frames[loc[1]][loc[2]])
        if loc[0] == "field":
            v = s.ext["heap"].fields.get((loc[1], loc[2]))
            if v is None:
                base = loc[1][0] if isinstance(loc[1], tuple) else None
                if isinstance(base, tuple) and base and base[0] == "A" and s.ext["heap"].allocs.get(base[1], [0, False, False])[2]:
                    # a record obtained from calloc: untouched members read as zero / NULL
                    return B.const(0, ti[1], ti[2]) if (ti is not None and ti[0] == "int") else B.Ptr(None, 0)
                if ti is not None and ti[0] == "int":
                    return B.BV([None] * ti[1], ti[2])
                raise MemFault("%s reads pointer field %s before it was set (%s)" % (f.name, loc[2], self.where(f, n)))
            return v
        if loc[0] == "mem" and (ti is None or ti[0] != "int"):
            self._bounds(s, loc[1], loc[2], 8, f, n, "reads")
            v = s.ext["heap"].pcells.get((loc[1], loc[2]))
            if v is None:
                raise BrokenAnalysis("%s: pointer loaded from bytes that were not stored as a pointer (%s)" % (f.name, self.where(f, n)))
            return v
        return super().load(s, loc, ti, f, n)

    def store(self, s, loc, v, ti, f, n):
        loc = self._cell(loc)
        if loc[0] == "var" and isinstance(v, B.Rec):
            self._spill(s, loc[1], loc[2], v)
            return
        if loc[0] == "field":
            if isinstance(v, B.BV) and ti is not None and ti[0] == "int":
                v = self.convert(v, ti)
            s.ext["heap"].fields[(loc[1], loc[2])] = v
            return
        if loc[0] == "mem" and not isinstance(v, B.BV):
            self._bounds(s, loc[1], loc[2], 8, f, n, "writes")
            s.ext["heap"].pcells[(loc[1], loc[2])] = v
            for i in range(8):
                s.mem[(loc[1], loc[2] + i)] = (None,) * 8
            return
        return super().store(s, loc, v, ti, f, n)

    # ---- calls ----------------------------------------------------------------------------------------
    def ev_call(self, st, n, ti, f, depth):
        name = n.get("callee")
        args = n["kids"][1:]
        if name in ALLOC or name in REALLOC or name in FREE or name in B.MEMCPY:
            for s, vals in self.ev_args(st, args, 0, [], f, depth):
                h = s.ext["heap"]
                if name in ALLOC:
                    sz = [s.nbits(v) for v in vals]
                    if not all(isinstance(x, B.BV) and x.is_const() for x in sz):
                        raise BrokenAnalysis("%s: allocation size is not a constant on this trace (%s)" % (f.name, self.where(f, n)))
                    size = sz[0].value() if ALLOC[name] == "m" else sz[0].value() * sz[1].value()
                    # malloc(0)/calloc(0) return a unique pointer to no bytes (glibc); any access through it is out of bounds
                    k = h.next
                    h.next += 1
                    h.allocs[k] = [size, True, ALLOC[name] == "c"]
                    h.log.append(("alloc", k, size))
                    yield s, B.Ptr(("A", k), 0)
                elif name in REALLOC:
                    p, sz = vals[0], s.nbits(vals[1])
                    if not sz.is_const():
                        raise BrokenAnalysis("%s: realloc size is not a constant on this trace (%s)" % (f.name, self.where(f, n)))
                    size = sz.value()
                    if size == 0:
                        # realloc(p, 0) frees p and returns NULL (glibc): the wrapper's NULL check then fires
                        if isinstance(p, B.Ptr) and p.base is not None and isinstance(p.base, tuple) and p.base[0] == "A":
                            old = h.allocs.get(p.base[1])
                            if old is not None:
                                old[1] = False
                        yield s, B.Ptr(None, 0)
                        continue
                    k = h.next
                    h.next += 1
                    h.allocs[k] = [size, True, False]
                    if isinstance(p, B.Ptr) and p.base is not None:
                        if not (isinstance(p.base, tuple) and p.base[0] == "A") or p.off != 0:
                            raise MemFault("%s reallocates a pointer that is not the start of an allocation (%s)" % (f.name, self.where(f, n)))
                        old = h.allocs.get(p.base[1])
                        if old is None or not old[1]:
                            raise MemFault("%s reallocates freed memory (%s)" % (f.name, self.where(f, n)))
                        for off in range(min(old[0], size)):
                            b = s.mem.get((p.base, off))
                            if b is None and old[2]:
                                b = (0,) * 8
                            if b is not None:
                                s.mem[(("A", k), off)] = b
                            c = h.pcells.get((p.base, off))
                            if c is not None:
                                h.pcells[(("A", k), off)] = c
                        old[1] = False
                    h.log.append(("realloc", k, size))
                    yield s, B.Ptr(("A", k), 0)
                elif name in FREE:
                    p = vals[0]
                    if isinstance(p, B.Ptr) and p.base is not None:
                        if not (isinstance(p.base, tuple) and p.base[0] == "A") or p.off != 0:
                            raise MemFault("%s frees a pointer that is not the start of an allocation (%s)" % (f.name, self.where(f, n)))
                        a = h.allocs.get(p.base[1])
                        if a is None or not a[1]:
                            raise MemFault("%s frees memory twice (%s)" % (f.name, self.where(f, n)))
                        a[1] = False
                        h.log.append(("free", p.base[1]))
                    yield s, None
                else:   # memcpy family: bytes and pointer cells
                    d, src, cnt = vals[0], vals[1], s.nbits(vals[2])
                    if not (isinstance(d, B.Ptr) and isinstance(src, B.Ptr) and cnt.is_const()):
                        raise BrokenAnalysis("%s: %s with a size or pointer that is not known on this trace (%s)" % (f.name, name, self.where(f, n)))
                    c = cnt.value()
                    if c:
                        self._bounds(s, d.base, d.off, c, f, n, "writes")
                        self._bounds(s, src.base, src.off, c, f, n, "reads")
                    tmp = [self.load_byte(s, src.base, src.off + i, f, n) for i in range(c)]
                    cells = [(i, h.pcells.get((src.base, src.off + i))) for i in range(0, c, 8)]
                    for i in range(c):
                        self.store_byte(s, d.base, d.off + i, tmp[i], f, n)
                    for i, cell in cells:
                        if cell is not None:
                            h.pcells[(d.base, d.off + i)] = cell
                    yield s, d
            return
        if name in ("__assert_fail",):
            raise MemFault("%s: an assertion fails (%s)" % (f.name, self.where(f, n)))
        if name in ("memcmp", "__builtin_memcmp", "bcmp"):
            # on bytes that are known on this trace: the sign of the first difference (unsigned bytes)
            for s, vals in self.ev_args(st, args, 0, [], f, depth):
                a, b, cnt = vals[0], vals[1], s.nbits(vals[2])
                if not (isinstance(a, B.Ptr) and isinstance(b, B.Ptr) and cnt.is_const()):
                    raise BrokenAnalysis("%s: memcmp with a size or pointer that is not known on this trace (%s)" % (f.name, self.where(f, n)))
                c = cnt.value()
                if c:
                    self._bounds(s, a.base, a.off, c, f, n, "reads")
                    self._bounds(s, b.base, b.off, c, f, n, "reads")
                sign = 0
                for i in range(c):
                    x = [s.norm(t_) for t_ in self.load_byte(s, a.base, a.off + i, f, n)]
                    y = [s.norm(t_) for t_ in self.load_byte(s, b.base, b.off + i, f, n)]
                    if x == y:
                        continue
                    if any(t_ not in (0, 1) for t_ in x + y):
                        raise BrokenAnalysis("%s: memcmp over bytes whose order is not known on this trace (%s)" % (f.name, self.where(f, n)))
                    xv = sum(bit << k_ for k_, bit in enumerate(x))
                    yv = sum(bit << k_ for k_, bit in enumerate(y))
                    sign = -1 if xv < yv else 1
                    break
                yield s, B.const(sign & 0xffffffff, 32, True)
            return
        yield from super().ev_call(st, n, ti, f, depth)

    # ---- driving ----------------------------------------------------------------------------------------
    def call(self, st, f, args):
        """Run f(args) on state st (mutated copies are returned): list of (state, return value)."""
        frame = {}
        for i, prm in enumerate(f.params):
            v = args[i]
            pti = B.tparse(prm.get("ct") or prm["t"])
            if isinstance(v, int):
                v = B.const(v, pti[1], pti[2])
            elif isinstance(v, B.BV) and pti and pti[0] == "int":
                v = self.convert(v, pti)
            frame[prm["name"]] = v
        st.frames.append(frame)
        n0 = len(st.frames)
        out = []
        self.funcs_seen.add(f.name)
        for s, sig in self.exec_fn(st, f, 0):
            del s.frames[n0 - 1:]
            out.append((s, sig[1] if isinstance(sig, tuple) else None))
        return out
