"""Abstract path evaluator (APE).

Enumerates the paths of a function's CFG (each block at most `bound`+1 times per
path) while evaluating the program over a small abstract domain:

  value  ::= ('c', int) | ('s', str)           constant | opaque symbol
  atom   ::= (lhs_symbol, rhs_symbol)          a relation between two values
  constraint: atom -> subset of {LT, EQ, GT}

Branch conditions are decomposed into literals `lhs <op> rhs`; truthiness of a
value v is the literal `v != 0`.  A path carries the conjunction of the literals
taken; a path whose constraint on some atom becomes empty is infeasible and is
dropped.  Every store, call and return on the path is recorded as an event with
the symbolic values of its operands, so rules compare *decisions* (which
abstract cases lead to which events/returns), never text.
"""
from .facts import strip, kids, canon, eval_nodes, const_val, BrokenAnalysis
from . import modref as MR

# loop bound used by the rules (each block at most BOUND+1 visits per path); the thorough tier raises it
BOUND = 1

LT, EQ, GT = "LT", "EQ", "GT"
ALL = frozenset((LT, EQ, GT))
OPSETS = {
    "<": frozenset((LT,)), "<=": frozenset((LT, EQ)), ">": frozenset((GT,)),
    ">=": frozenset((GT, EQ)), "==": frozenset((EQ,)), "!=": frozenset((LT, GT)),
}
MIRROR = {LT: GT, GT: LT, EQ: EQ}


def mirror(s):
    return frozenset(MIRROR[x] for x in s)


import re as _re
_LOCALSTRUCT = _re.compile(r"^(\w+)[.\[]")
_OFF = _re.compile(r"^\((.*)\+#(\d+)\)$")
_NEVERNULL = {}
_STRUCTT = _re.compile(r"^(?:const\s+)?(?:struct|union)\s+\w+$")
_GENLINES = {}
_PTRCOPY = _re.compile(r"^((?:[A-Za-z_]\w*)(?:(?:->|\.)\w+)+)@\d+$")


def _lastfield(key):
    k = key.replace("->", ".")
    return k.rsplit(".", 1)[-1] if "." in k else key


def add_const(v, c):
    """v + c with constant offsets folded: (x+#3)+#5 -> (x+#8)."""
    if v[0] == "c":
        return ("c", v[1] + c)
    if c == 0:
        return v
    m = _OFF.match(v[1])
    if m and _balanced(m.group(1)):
        n = int(m.group(2)) + c
        if n == 0:
            return ("s", m.group(1))
        if n > 0:
            return ("s", "(%s+#%d)" % (m.group(1), n))
    if c > 0:
        return ("s", "(%s+#%d)" % (v[1], c))
    return ("s", "(%s-#%d)" % (v[1], -c))


def _balanced(t):
    d = 0
    for ch in t:
        if ch == "(":
            d += 1
        elif ch == ")":
            d -= 1
            if d < 0:
                return False
    return d == 0


def split_off(v):
    """(base string, constant offset) of a symbolic value."""
    if v[0] == "c":
        return ("", v[1])
    m = _OFF.match(v[1])
    if m and _balanced(m.group(1)):
        return (m.group(1), int(m.group(2)))
    return (v[1], 0)


class Event:
    __slots__ = ("kind", "node", "block", "a", "b", "c", "outs")

    def __init__(self, kind, node, block, a=None, b=None, c=None):
        self.kind, self.node, self.block, self.a, self.b, self.c = kind, node, block, a, b, c
        self.outs = {}

    def __repr__(self):
        if self.kind == "call":
            return "call %s(%s)" % (self.a, ", ".join(vstr(x) for x in self.b))
        if self.kind == "store":
            return "store %s := %s" % (self.a, vstr(self.b))
        if self.kind == "ret":
            return "return %s" % (vstr(self.a) if self.a is not None else "")
        if self.kind == "branch":
            return "branch %s in %s" % (self.a, sorted(self.b))
        if self.kind in ("enter", "leave"):
            return "%s helper %s" % (self.kind, self.a)
        if self.kind == "iret":
            return "helper returns %s" % (vstr(self.a) if self.a is not None else "")
        return self.kind


def vstr(v):
    if v is None:
        return "?"
    if v[0] == "c":
        return "#%d" % v[1]
    return v[1]


class Path:
    __slots__ = ("events", "cons", "end", "blocks", "atoms")

    def __init__(self):
        self.events = []
        self.cons = {}
        self.end = None       # 'exit' | 'noreturn' | 'cut'
        self.blocks = []
        self.atoms = {}       # atom key -> (lhs node, rhs node) of first occurrence

    def ret(self):
        for e in reversed(self.events):
            if e.kind == "ret":
                return e.a
        return None

    def calls(self, name=None):
        return [e for e in self.events if e.kind == "call" and (name is None or e.a == name or
                (isinstance(name, (set, frozenset, tuple, list)) and e.a in name))]

    def stores(self, key=None):
        return [e for e in self.events if e.kind == "store" and (key is None or e.a == key)]

    def describe(self, f):
        return {"blocks": self.blocks, "end": self.end,
                "constraints": {"%s ? %s" % k: sorted(v) for k, v in self.cons.items()},
                "events": [repr(e) + " @%s" % f.loc(e.node) for e in self.events if e.kind != "branch"][:60]}


class State:
    __slots__ = ("env", "epoch", "cons", "events", "visits", "blocks", "atoms", "nodeval", "fresh", "det", "lver", "fver", "frames", "nact", "prob")

    def copy(self):
        s = State()
        s.env = dict(self.env)
        s.epoch = self.epoch
        s.cons = dict(self.cons)
        s.events = list(self.events)
        s.visits = dict(self.visits)
        s.blocks = list(self.blocks)
        s.atoms = dict(self.atoms)
        s.nodeval = dict(self.nodeval)
        s.fresh = self.fresh
        s.det = False
        s.lver = dict(self.lver)
        s.fver = dict(self.fver)
        s.frames = [fr.clone() for fr in self.frames]
        s.nact = self.nact
        s.prob = self.prob
        return s


class Frame:
    """Activation of an unknown static helper that is evaluated as part of its caller."""
    __slots__ = ("func", "prefix", "subst", "cont", "retval", "act", "saved_nodeval")

    def clone(self):
        f = Frame()
        f.func, f.prefix, f.subst, f.cont, f.retval, f.act = self.func, self.prefix, self.subst, self.cont, self.retval, self.act
        f.saved_nodeval = self.saved_nodeval
        return f


class APE:
    def __init__(self, prog, cg, func, bound=1, max_paths=60000, opaque_calls=(), start_env=None, inline=(), call_returns=None):
        self.prog, self.cg, self.f = prog, cg, func
        self.bound = bound
        self._loopcache = {}
        self.max_paths = max_paths
        self.unit = func.unit
        self.paths = []
        self.opaque_calls = set(opaque_calls)
        self.inline = set(inline)     # known functions a rule wants evaluated as part of their caller
        self.call_returns = dict(call_returns or {})   # callee -> index of the argument its result equals (a contract decided elsewhere)
        self.start_env = start_env or {}
        from .facts import walk as _walk
        self.localnames = set(p["name"] for p in func.params)
        for n in _walk(func.body):
            if n["k"] == "DeclStmt":
                for d in n["decls"]:
                    if not d.get("static"):
                        self.localnames.add(d["name"])

    # ---- activations of unknown helpers ----------------------------------------------------------
    def cur(self, st):
        return st.frames[-1].func if st.frames else self.f

    def _name(self, st, name):
        """Environment key of a local / parameter name in the current activation."""
        if st.frames:
            fr = st.frames[-1]
            if name in fr.subst:
                return fr.subst[name]
            return fr.prefix + name
        return name

    def _inlinable(self, st, n):
        callee = n.get("callee")
        if not callee or callee in self.opaque_calls or len(st.frames) >= 3:
            return None
        g = self.prog.helper(callee, self.unit) if hasattr(self.prog, "helper") else None
        if g is None and (callee in self.inline or "*static" in self.inline):
            g = self.prog.func(callee, self.unit)
            if g is not None and callee not in self.inline and not (g.d.get("static") and g.file == self.f.file and not self._generated(g)):
                g = None        # "*static": internal functions written in the same source file only (not header inlines,
                                # not the container functions a macro generates: those stay calls, see rules/vecrule.py)
        if g is None or g.body is None:
            return None
        if g is self.f or any(fr.func is g for fr in st.frames):
            return None
        return g

    # ---- symbolic values ------------------------------------------------
    def lkey(self, n):
        """Key of an lvalue expression (canonical string, no versions)."""
        return canon(n)

    def is_local_key(self, n):
        s = strip(n)
        return s["k"] == "DeclRefExpr" and s.get("dk") in ("local", "param")

    def val(self, st, n):
        n0 = n
        n = strip(n)
        if n is None:
            return ("s", "?")
        if n["id"] in st.nodeval:
            v_ = st.nodeval[n["id"]]
            if v_[0] == "?":
                # a conditional expression whose branch was decided on this path: its value is the chosen operand's
                return self.val(st, n["kids"][1 + v_[1]])
            return v_
        k = n["k"]
        if "val" in n0 or ("val" in n and k != "DeclRefExpr"):
            return ("c", n0.get("val", n.get("val")))
        if k == "DeclRefExpr" and n.get("dk") == "enumconst":
            return ("c", n["val"]) if "val" in n else ("s", n["name"])
        if n.get("null") or n0.get("null"):
            return ("c", 0)
        if k == "DeclRefExpr" and n.get("dk") in ("local", "param") and _STRUCTT.match((n.get("ct") or n.get("t") or "").strip()):
            # the value of a local struct object: a snapshot of its members (copied member by member when it is assigned,
            # used to initialise another object, or returned from a helper evaluated in line)
            key = self._valkey(st, n)
            if self._is_var_key(key):
                st.fresh += 1
                tag = "$%s#%d" % (key, st.fresh)
                for kk in [kk for kk in st.env if kk.startswith(key + ".")]:
                    st.env[tag + kk[len(key):]] = st.env[kk]
                return ("s", tag)
        if k in ("DeclRefExpr", "MemberExpr", "ArraySubscriptExpr") or (k == "UnaryOperator" and n.get("op") == "*"):
            key = self._valkey(st, n)
            if key in st.env:
                return st.env[key]
            if k in ("MemberExpr", "ArraySubscriptExpr"):
                cg_ = self._const_global_read(st, n)
                if cg_ is None:
                    cg_ = self._const_global_key(st, key)
                if cg_ is not None:
                    return cg_
            if k == "DeclRefExpr" and n.get("dk") in ("local", "param", "func", "global", "slocal"):
                if n.get("dk") in ("func",):
                    return ("s", "&" + n["name"])
                if st.frames and n.get("dk") == "param" and n["name"] in st.frames[-1].subst and not self._is_var_key(key) and not key.startswith("&"):
                    # a helper's parameter bound to a memory path of the caller: its value is what that path holds
                    v_ = ("s", "%s@%d" % (key, st.epoch + st.fver.get(_lastfield(key), 0)))
                    st.env[key] = v_
                    return v_
                return ("s", key)
            lo = self._localobj(key, n)
            if lo:
                # member of a local struct object: changes only by stores to it or calls given its address
                v_ = ("s", "%s@L%d" % (key, st.lver.get(lo, 0)))
            else:
                v_ = ("s", "%s@%d" % (key, st.epoch + st.fver.get(_lastfield(key), 0)))
            # remember the value read: later reads see the same symbol until something that may write this key intervenes
            st.env[key] = v_
            return v_
        if k == "UnaryOperator":
            op = n["op"]
            a = self.val(st, n["kids"][0])
            if op == "!":
                if a[0] == "c":
                    return ("c", 0 if a[1] else 1)
                return ("s", "!" + a[1])
            if op == "-" and a[0] == "c":
                return ("c", -a[1])
            if op == "&":
                sub = strip(n["kids"][0])
                if sub is not None and sub["k"] == "ArraySubscriptExpr":
                    bs = strip(sub["kids"][0])
                    bt = (bs.get("ct") or bs.get("t") or "") if bs is not None else ""
                    bt = _re.sub(r"(\s*\b(const|volatile|restrict|__restrict)\b)+\s*$", "", bt)
                    if bs is not None and bt.rstrip().endswith("*") and "[" not in bt:
                        # &p[i] of a pointer p is p + i
                        pa, pb = self.val(st, sub["kids"][0]), self.val(st, sub["kids"][1])
                        if pa[0] == "s" and pb[0] == "c":
                            return add_const(pa, pb[1])
                        if pa[0] == "s":
                            return ("s", "(%s+%s)" % (vstr(pa), vstr(pb)))
                return ("s", "&" + self._valkey(st, n["kids"][0]))
            if op in ("+", "__extension__"):
                return a
            if op == "~" and a[0] == "c":
                return ("s", "~#%d" % a[1])
            return ("s", op + vstr(a))
        if k in ("BinaryOperator",):
            op = n["op"]
            if op == ",":
                return self.val(st, n["kids"][1])
            if op in ("&&", "||"):
                # value of a short-circuit operator materialised at a join: the CFG evaluated the left operand in its own
                # block; _step recorded the operator's value when the left operand decided it, otherwise it is the
                # truth of the right operand
                d_ = self._chain_decided(st, n)
                if d_ is not None:
                    return ("c", 1 if d_ else 0)
                r = strip(n["kids"][1])
                if r["k"] == "BinaryOperator" and (r.get("op") in OPSETS or r.get("op") in ("&&", "||")) or \
                        (r["k"] == "UnaryOperator" and r.get("op") == "!"):
                    return self.val(st, r)
                b = self.val(st, r)
                if b[0] == "c":
                    return ("c", 1 if b[1] else 0)
                return ("s", "(%s!=#0)" % vstr(b))
            a = self.val(st, n["kids"][0])
            b = self.val(st, n["kids"][1])
            if a[0] == "c" and b[0] == "c" and op in ("/", "%", "&", "|", "^", "<<", ">>") and a[1] >= 0 and b[1] >= 0:
                x, y = a[1], b[1]
                if not (op in ("/", "%") and y == 0) and not (op in ("<<", ">>") and y > 63):
                    return ("c", {"/": lambda: x // y, "%": lambda: x % y, "&": lambda: x & y, "|": lambda: x | y, "^": lambda: x ^ y,
                                  "<<": lambda: (x << y) & ((1 << 64) - 1), ">>": lambda: x >> y}[op]())
            if a[0] == "c" and b[0] == "c":
                try:
                    x, y = a[1], b[1]
                    r = {"+": x + y, "-": x - y, "*": x * y}.get(op)
                    if r is not None and 0 <= r < (1 << 63) or (r is not None and op == "-" and -(1 << 31) < r):
                        if r is not None and (r >= 0 or "unsigned" not in n.get("ct", n.get("t", ""))):
                            return ("c", r)
                    if op in OPSETS:
                        rel = LT if x < y else (EQ if x == y else GT)
                        return ("c", 1 if rel in OPSETS[op] else 0)
                except Exception:
                    pass
            if op == "+" and b[0] == "c" and a[0] == "s":
                return add_const(a, b[1])
            if op == "+" and a[0] == "c" and b[0] == "s":
                return add_const(b, a[1])
            if op == "-" and b[0] == "c" and a[0] == "s" and b[1] >= 0:
                return add_const(a, -b[1])
            if op == "-" and a[0] == "s" and b[0] == "s":
                ba, oa = split_off(a)
                bb, ob = split_off(b)
                if ba == bb and oa >= ob:
                    return ("c", oa - ob)
            return ("s", "(%s%s%s)" % (vstr(a), op, vstr(b)))
        if k == "CallExpr":
            # evaluated on demand (pure position); normally pre-evaluated by step()
            return ("s", canon(n))
        if k == "ConditionalOperator":
            return ("s", "(%s?%s:%s)" % tuple(vstr(self.val(st, c)) for c in n["kids"]))
        if k == "StringLiteral":
            return ("s", canon(n))
        if k == "UnaryExprOrTypeTraitExpr":
            return ("s", canon(n))
        return ("s", canon(n))

    def _const_global_read(self, st, n):
        """Value of an element of a const global aggregate with a constant initialiser (a name table, a dispatch table),
        when every index on the way is a known constant on this path; else None."""
        steps = []
        b = strip(n)
        while b is not None and b["k"] in ("MemberExpr", "ArraySubscriptExpr"):
            if b["k"] == "MemberExpr":
                if b.get("arrow") or "fidx" not in b:
                    return None
                steps.append(("f", b["fidx"]))
                b = strip(b["kids"][0])
            else:
                iv = self.val(st, b["kids"][1])
                if iv[0] != "c":
                    return None
                steps.append(("i", iv[1]))
                b = strip(b["kids"][0])
        if b is None or b["k"] != "DeclRefExpr" or b.get("dk") not in ("global", "slocal"):
            return None
        g = self.prog.globals.get((self.cur(st).unit, b["name"])) if hasattr(self.prog, "globals") else None
        if g is None or not g.get("const") or g.get("init") is None:
            return None
        x = strip(g["init"])
        for kind, i in reversed(steps):
            if x is None or x["k"] != "InitListExpr":
                return None
            ks = kids(x)
            if not (0 <= i < len(ks)):
                return None
            x = strip(ks[i])
        if x is None:
            return None
        raw = x
        if "val" in raw:
            return ("c", raw["val"])
        if raw["k"] == "StringLiteral":
            return ("s", canon(raw))
        if raw["k"] == "DeclRefExpr" and raw.get("dk") == "func":
            return ("s", "&" + raw["name"])
        if raw["k"] == "ImplicitValueInitExpr" or raw.get("null"):
            return ("c", 0)
        return None

    def _chain_decided(self, st, n):
        """a && b && c is ((a && b) && c): when an inner operator of the chain was decided on the way here (its recorded value
        short-circuits this one as well), the value of n; else None."""
        op = n.get("op")
        l = strip(n["kids"][0])
        while l is not None and l.get("k") == "BinaryOperator" and l.get("op") in ("&&", "||"):
            v = st.nodeval.get(l["id"])
            if v is not None and v[0] == "c":
                if op == "&&" and l.get("op") == "&&" and v[1] == 0:
                    return False
                if op == "||" and l.get("op") == "||" and v[1] != 0:
                    return True
                if op == "&&" and v[1] == 0:
                    return False
                if op == "||" and v[1] != 0:
                    return True
                return None
            if l.get("op") != op:
                return None
            l = strip(l["kids"][0])
        return None

    def _const_global_key(self, st, key):
        """Same as _const_global_read for a place named through a pointer that holds the address of a table element
        (`info = &table[2]; info->name` is the place table[#2].name)."""
        m = _re.match(r"^([A-Za-z_]\w*)((?:\[#\d+\]|\.\w+)+)$", key)
        if not m or not hasattr(self.prog, "globals"):
            return None
        g = self.prog.globals.get((self.cur(st).unit, m.group(1)))
        if g is None or not g.get("const") or g.get("init") is None:
            return None
        x = strip(g["init"])
        for step in _re.findall(r"\[#\d+\]|\.\w+", m.group(2)):
            if x is None or x["k"] != "InitListExpr":
                return None
            ks = kids(x)
            if step.startswith("["):
                i = int(step[2:-1])
            else:
                rec = self.prog.record(x.get("rec"), self.cur(st).unit) if x.get("rec") else None
                names = [f_["name"] for f_ in rec["fields"]] if rec else []
                if step[1:] not in names:
                    return None
                i = names.index(step[1:])
            if not (0 <= i < len(ks)):
                return None
            x = strip(ks[i])
        if x is None:
            return None
        if "val" in x:
            return ("c", x["val"])
        if x["k"] == "StringLiteral":
            return ("s", canon(x))
        if x["k"] == "DeclRefExpr" and x.get("dk") == "func":
            return ("s", "&" + x["name"])
        if x["k"] == "ImplicitValueInitExpr" or x.get("null"):
            return ("c", 0)
        return None

    def _localobj(self, key, n):
        """Name of the local object (struct, or array declared in the function) that lvalue n / key lies in, else None."""
        m = _LOCALSTRUCT.match(key)
        if not m:
            return None
        if key[m.end() - 1] == "[":
            b = strip(n)
            while b is not None and b["k"] in ("ArraySubscriptExpr", "MemberExpr") and not b.get("arrow"):
                b = strip(b["kids"][0])
            t = (b.get("ct") or b.get("t") or "") if b is not None else ""
            if not (b is not None and b["k"] == "DeclRefExpr" and b.get("dk") in ("local", "slocal") and "[" in t):
                return None     # p[i] of a local *pointer* is shared memory
        return m.group(1)

    def _valkey(self, st, n):
        """Key of an lvalue with the *values* of local pointers substituted for
        nothing (kept syntactic): canonical string."""
        n = strip(n)
        k = n["k"]
        if k == "DeclRefExpr":
            if st.frames and n.get("dk") in ("local", "param", "slocal"):
                return self._name(st, n["name"])
            return n["name"]
        if k == "MemberExpr":
            b = strip(n["kids"][0])
            bk = self._valkey(st, b)
            if n.get("arrow") and b["k"] == "DeclRefExpr" and b.get("dk") in ("local", "param") and self._is_var_key(bk):
                # a local pointer that holds the address of a place (`opt = &it->m->opt`): name the place itself
                hv = st.env.get(bk)
                if hv is not None and hv[0] == "s" and hv[1].startswith("&") and "(" not in hv[1] and "@" not in hv[1]:
                    bk = hv[1]
                elif hv is not None and hv[0] == "s":
                    # a local copy of a pointer field (`sfs = f->shared_fs`): name what it points to through the field, as
                    # long as the field still holds the value that was copied
                    m_ = _PTRCOPY.match(hv[1])
                    if m_:
                        path = m_.group(1)
                        cur_ = st.env.get(path)
                        if cur_ is None:
                            cur_ = ("s", "%s@%d" % (path, st.epoch + st.fver.get(_lastfield(path), 0)))
                        if cur_ == hv:
                            bk = path
            if n.get("arrow") and bk.startswith("&"):
                return bk[1:] + "." + n["field"]       # (&x)->f is x.f
            return bk + ("->" if n.get("arrow") else ".") + n["field"]
        if k == "UnaryOperator" and n.get("op") == "*":
            bk = self._valkey(st, n["kids"][0])
            if bk.startswith("&") and st.frames:
                return bk[1:]
            # a local pointer (or an element of a local table of pointers) that holds the address of a place: *p is the place
            hv = st.env.get(bk)
            if hv is not None and hv[0] == "s" and hv[1].startswith("&") and "(" not in hv[1] and "@" not in hv[1] \
                    and (self._is_var_key(bk) or self._localobj(bk, n["kids"][0])):
                return hv[1][1:]
            return "*" + bk
        if k == "UnaryOperator" and n.get("op") == "&":
            return "&" + self._valkey(st, n["kids"][0])
        if k == "ArraySubscriptExpr":
            return self._valkey(st, n["kids"][0]) + "[" + vstr(self.val(st, n["kids"][1])) + "]"
        if k == "CallExpr":
            v = st.nodeval.get(n["id"])
            return vstr(v) if v else canon(n)
        return vstr(self.val(st, n))

    # ---- literals ------------------------------------------------------------
    def literal(self, st, n):
        """Decompose a condition into (atom key, accept-if-true) or a constant bool."""
        n = strip(n)
        if n["k"] == "UnaryOperator" and n.get("op") == "!":
            r = self.literal(st, n["kids"][0])
            if isinstance(r, bool):
                return not r
            a, acc, nodes = r
            return (a, ALL - acc, nodes)
        if n["k"] == "UnaryOperator" and n.get("op") == "__extension__":
            return self.literal(st, n["kids"][0])
        if n["k"] == "CallExpr" and n.get("callee") == "__builtin_expect":
            return self.literal(st, n["kids"][1])
        if n["k"] == "BinaryOperator" and n.get("op") in ("&&", "||"):
            # value of a short-circuit operator materialised at a join (e.g. under `!`):
            # decided by the left operand's edge if it short-circuited, else it is the right operand
            if n["id"] in st.nodeval:
                return bool(st.nodeval[n["id"]][1])
            d_ = self._chain_decided(st, n)
            if d_ is not None:
                return d_
            return self.literal(st, n["kids"][1])
        if n["k"] == "BinaryOperator" and n.get("op") in OPSETS:
            l, r = n["kids"]
            a, b = self.val(st, l), self.val(st, r)
            acc = OPSETS[n["op"]]
            # comparison of a 0/1 literal value with a constant: x == false etc.
            if a[0] == "c" and b[0] == "c":
                rel = LT if a[1] < b[1] else (EQ if a[1] == b[1] else GT)
                return rel in acc
            if a[0] == "c" and b[0] != "c":
                a, b, acc, l, r = b, a, mirror(acc), r, l
            if a[0] == "s" and a[1].startswith("&") and "(" not in a[1] and b == ("c", 0):
                # the address of an object is not NULL
                if acc == frozenset((EQ,)):
                    return False
                if acc == frozenset((LT, GT)):
                    return True
            if a[0] == "s" and a[1].startswith("!") and b == ("c", 0):
                # (!x) ? 0
                return self._truth_atom(("s", a[1][1:]), ALL - acc if acc in (frozenset((EQ,)), frozenset((LT, GT))) else None, (l, r))
            # integer normal forms: x < 1 == x <= 0, x >= 1 == x > 0, x > -1 == x >= 0, x <= -1 == x < 0
            lt = strip(l).get("ct", strip(l).get("t", ""))
            if b[0] == "c" and "*" not in lt and "float" not in lt and "double" not in lt:
                if b[1] == 1 and acc == OPSETS["<"]:
                    b, acc = ("c", 0), OPSETS["<="]
                elif b[1] == 1 and acc == OPSETS[">="]:
                    b, acc = ("c", 0), OPSETS[">"]
                elif b[1] == -1 and acc == OPSETS[">"]:
                    b, acc = ("c", 0), OPSETS[">="]
                elif b[1] == -1 and acc == OPSETS["<="]:
                    b, acc = ("c", 0), OPSETS["<"]
            key = (vstr(a), vstr(b))
            return (key, acc, (l, r))
        v = self.val(st, n)
        if v[0] == "c":
            return bool(v[1])
        if v[0] == "s" and v[1].startswith("!"):
            r = self._truth_atom(("s", v[1][1:]), frozenset((EQ,)), (n, None))
            return r
        return self._truth_atom(v, frozenset((LT, GT)), (n, None))

    def _truth_atom(self, v, acc, nodes):
        if acc is None:
            raise BrokenAnalysis("unsupported boolean comparison in %s" % self.f.name)
        # a stored comparison result:  ret = (a < b) ; if (ret)
        s = v[1]
        for op in ("<=", ">=", "==", "!=", "<", ">"):
            # only top-level "(x op y)" strings produced by val()
            if s.startswith("(") and s.endswith(")"):
                depth = 0
                inner = s[1:-1]
                for i, ch in enumerate(inner):
                    if ch == "(":
                        depth += 1
                    elif ch == ")":
                        depth -= 1
                    elif depth == 0 and inner.startswith(op, i) and not inner.startswith("->", i - 1 if op == ">" else i) \
                            and not (op in ("<", ">") and inner[i + 1:i + 2] == "=") \
                            and not (op == "<" and inner[i + 1:i + 2] == "<") and not (op == ">" and inner[i - 1:i] in (">", "-")) \
                            and not (op == ">" and inner[i + 1:i + 2] == ">") and not (op == "<" and inner[i - 1:i] == "<"):
                        lhs, rhs = inner[:i], inner[i + len(op):]
                        a = OPSETS[op]
                        if acc == frozenset((EQ,)):
                            a = ALL - a
                        return ((lhs, rhs), a, nodes)
        return ((s, "#0"), acc, nodes)

    # ---- effects ---------------------------------------------------------
    def _invalidate_memory(self, st):
        st.epoch += 1
        for k in [k for k in st.env if not self._is_var_key(k)]:
            del st.env[k]

    def _is_var_key(self, k):
        return k.isidentifier()

    def _store(self, st, lhs, v, node, B):
        key = self._valkey(st, lhs)
        lo = self._localobj(key, lhs)
        if lo:
            st.lver[lo] = st.lver.get(lo, 0) + 1
        if not self._is_var_key(key):
            # memory store: drop everything that has this key as a prefix, or that may alias
            # the same field through another base
            for k in [k for k in st.env if (k.startswith(key) and k != key and k[len(key):len(key) + 1] in ("-", ".", "["))]:
                del st.env[k]
            fld = key.rsplit("->", 1)[-1] if "->" in key else None
            if fld:
                for k in [k for k in st.env if k != key and k.endswith("->" + fld)]:
                    del st.env[k]
            # a precise store only ages reads of the same field name (through any base), not all memory
            lf = _lastfield(key)
            st.fver[lf] = st.fver.get(lf, 0) + 1
        else:
            for k in [k for k in st.env if k != key and (k.startswith(key + "->") or k.startswith(key + ".") or
                                                         k.startswith("*" + key) or k.startswith(key + "["))]:
                del st.env[k]
        st.env[key] = v
        self._copy_struct(st, key, v)
        st.events.append(Event("store", node, B.id, key, v))

    def _call(self, st, n, B):
        args = n["kids"][1:]
        argv = [self.val(st, a) for a in args]
        callee = n.get("callee")
        name = callee or ("(*%s)" % self._valkey(st, n["kids"][0]))
        widx, other = self.cg.written_args(self.unit, n, self.cur(st))
        pure = not widx and not other
        nondet = callee in self.opaque_calls or (callee in MR.EXTERNAL_NONDET and
                                                   self.cg.resolve(self.unit, callee) is None and callee != "__errno_location")
        # result symbol
        if pure and nondet:
            st.fresh += 1
            rv = ("s", "%s(%s)#%d" % (name, ",".join(vstr(a) for a in argv), st.fresh))
        elif pure:
            rv = ("s", "%s(%s)" % (name, ",".join(vstr(a) for a in argv)))
            if not all(a[0] == "c" or self._is_var_key(a[1]) or "@" not in a[1] for a in argv):
                pass
            # reads memory: depends on the epoch when arguments are pointers
            if any("*" in strip(a).get("ct", strip(a).get("t", "")) for a in args):
                rv = ("s", rv[1] + "@%d" % st.epoch)
        else:
            st.fresh += 1
            rv = ("s", "%s(%s)#%d" % (name, ",".join(vstr(a) for a in argv), st.fresh))
        cr = self.cg.const_return(self.unit, callee) if callee else None
        if cr is not None:
            rv = ("c", cr)
        if callee in self.call_returns and self.call_returns[callee] < len(argv):
            rv = argv[self.call_returns[callee]]
        cev = Event("call", n, B.id, name, argv, rv)
        st.events.append(cev)
        if not pure:
            only_locals = not other
            for i in sorted(widx):
                if i >= len(args):
                    continue
                a = strip(args[i])
                if a["k"] == "UnaryOperator" and a.get("op") == "&":
                    t = strip(a["kids"][0])
                    if t["k"] == "DeclRefExpr" and t.get("dk") in ("local", "param"):
                        st.fresh += 1
                        key = self._name(st, t["name"])
                        if not self._is_var_key(key):
                            # a helper's parameter that stands for a place of the caller: the callee writes that place
                            for k in [k for k in st.env if k == key or k.startswith((key + ".", key + "->", key + "["))]:
                                del st.env[k]
                            st.env[key] = ("s", "%s.out%d#%d" % (name, i, st.fresh))
                            cev.outs[i] = st.env[key]
                            continue
                        st.lver[key] = st.lver.get(key, 0) + 1
                        for k in [k for k in st.env if k.startswith(key + ".")]:
                            del st.env[k]
                        for k in [k for k in st.env if k.startswith(key + "->") or k.startswith("*" + key)]:
                            del st.env[k]
                        st.env[key] = ("s", "%s.out%d#%d" % (name, i, st.fresh))
                        cev.outs[i] = st.env[key]
                        continue
                av = argv[i] if i < len(argv) else None
                if av is not None and av[0] == "s" and av[1].startswith("&") and self._is_var_key(av[1][1:]):
                    # a pointer whose value is the address of a local of this path (a helper's out-parameter handed on)
                    st.fresh += 1
                    key = av[1][1:]
                    st.lver[key] = st.lver.get(key, 0) + 1
                    for k in [k for k in st.env if k.startswith((key + ".", key + "->", "*" + key))]:
                        del st.env[k]
                    st.env[key] = ("s", "%s.out%d#%d" % (name, i, st.fresh))
                    cev.outs[i] = st.env[key]
                    continue
                if av is not None and av[0] == "s" and av[1].startswith("&") and "(" not in av[1] and "@" not in av[1] \
                        and a["k"] == "DeclRefExpr" and a.get("dk") == "param" and st.frames:
                    # a helper's pointer parameter bound to the address of a place of the caller (`&it->block_offset`): the callee
                    # writes that place; what it wrote is this call's out-value
                    st.fresh += 1
                    key = av[1][1:]
                    for k in [k for k in st.env if k.startswith((key + ".", key + "->", "*" + key))]:
                        del st.env[k]
                    lf = _lastfield(key)
                    st.fver[lf] = st.fver.get(lf, 0) + 1
                    st.env[key] = ("s", "%s.out%d#%d" % (name, i, st.fresh))
                    cev.outs[i] = st.env[key]
                    st.events.append(Event("store", n, B.id, key, st.env[key]))
                    only_locals = False
                    continue
                only_locals = False
            if not only_locals:
                wf = self.cg.call_wfields(self.unit, n, self.cur(st))
                if wf is None:
                    # library / user code: writes only through the pointers it is handed (one level)
                    st.epoch += 1
                    for i in sorted(widx):
                        if i >= len(args):
                            continue
                        a = strip(args[i])
                        if a["k"] == "UnaryOperator" and a.get("op") == "&":
                            t0 = strip(a["kids"][0])
                            if t0["k"] == "DeclRefExpr" and t0.get("dk") in ("local", "param"):
                                continue   # already given a fresh out-value above
                            root = self._valkey(st, a["kids"][0])
                            r0 = _re.match(r"^\w+", root)
                            if r0:
                                st.lver[r0.group(0)] = st.lver.get(r0.group(0), 0) + 1
                            pref = (root + ".", root + "->", root + "[")
                            for k in [k for k in st.env if k == root or k.startswith(pref)]:
                                del st.env[k]
                        elif a["k"] in ("DeclRefExpr", "MemberExpr"):
                            root = self._valkey(st, a)
                            pref = ("*" + root, root + "->", root + "[")
                            for k in [k for k in st.env if k.startswith(pref)]:
                                del st.env[k]
                else:
                    # type-based refinement: only keys ending in a field the callee may store to, and only
                    # objects the callee can reach from what it is given (roots mentioned in its arguments)
                    st.epoch += 1
                    roots = set()
                    for a, av in zip(args, argv):
                        for x in _re.findall(r"[A-Za-z_]\w*", canon(a)):
                            roots.add(x)
                            if st.frames:
                                roots.add(self._name(st, x).split("->")[0].split(".")[0].lstrip("&*"))
                        # a local that merely holds a copy of a pointer field or the address of a place: keys are named
                        # through that field / place (see _valkey), so its root is reachable from this argument too
                        if av[0] == "s":
                            m_ = _PTRCOPY.match(av[1])
                            if m_:
                                roots.add(_re.match(r"^[A-Za-z_]\w*", m_.group(1)).group(0))
                            elif av[1].startswith("&") and "(" not in av[1]:
                                m2 = _re.match(r"^&\*?([A-Za-z_]\w*)", av[1])
                                if m2:
                                    roots.add(m2.group(1))
                    for k in [k for k in st.env if not self._is_var_key(k)]:
                        m0 = _re.match(r"^[*&(]*([A-Za-z_]\w*)", k)
                        if m0 and m0.group(1) not in roots and m0.group(1) in self.localnames:
                            continue
                        last = k.replace("->", ".").rsplit(".", 1)[-1] if ("->" in k or "." in k) else None
                        if last is None or "[" in last:
                            # plain dereference / element: written only through a pointer handed over for writing
                            wroots = set()
                            exact = []
                            for wi in widx:
                                if wi < len(args):
                                    wroots.update(_re.findall(r"[A-Za-z_]\w*", canon(args[wi])))
                                    exact.append(self._valkey(st, args[wi]) if strip(args[wi])["k"] in ("DeclRefExpr", "MemberExpr", "UnaryOperator", "ArraySubscriptExpr") else None)
                            if m0 and m0.group(1) in wroots:
                                # handed the *value* of this very place (f(*out)): the callee can write what it points to, not the place
                                if last is None and k in exact and not any(x is not None and x != k and (x == "&" + k or k.startswith("*" + x)) for x in exact):
                                    continue
                                del st.env[k]
                        elif last in wf:
                            del st.env[k]
            # out-parameters that are members of an object (`&rb->size`, `&h.shared`): what the callee wrote there is this
            # call's out-value (assigned after the invalidation above, which forgets what the place held before)
            for i in sorted(widx):
                if i >= len(args) or i in cev.outs:
                    continue
                a = strip(args[i])
                if a["k"] == "UnaryOperator" and a.get("op") == "&" and strip(a["kids"][0])["k"] == "MemberExpr":
                    t0 = strip(a["kids"][0])
                    tt = (t0.get("ct") or t0.get("t") or "")
                    if "[" in tt or _STRUCTT.match(tt.strip()):
                        continue
                    key = self._valkey(st, t0)
                    st.fresh += 1
                    st.env[key] = ("s", "%s.out%d#%d" % (name, i, st.fresh))
                    cev.outs[i] = st.env[key]
                    st.events.append(Event("store", n, B.id, key, st.env[key]))
        st.nodeval[strip(n)["id"]] = rv
        return rv

    def _exec_root(self, st, root, B, start=0):
        """Execute the effect nodes of one CFG root element from position `start`.  Returns None when the root is done,
        or (index, helper Func, call node, argument values) when an unknown helper has to be entered at that position."""
        nodes = eval_nodes(root)
        for idx in range(start, len(nodes)):
            n = nodes[idx]
            k = n["k"]
            if k == "CallExpr":
                g = self._inlinable(st, n)
                if g is not None:
                    argv = [self.val(st, a) for a in n["kids"][1:]]
                    return (idx, g, n, argv)
                self._call(st, n, B)
            elif k in ("BinaryOperator", "CompoundAssignOperator") and n.get("op") in MR.STORE_OPS:
                lhs, rhs = n["kids"]
                if n["op"] == "=":
                    v = self.val(st, rhs)
                else:
                    old = self.val(st, lhs)
                    r = self.val(st, rhs)
                    v = ("s", "(%s%s%s)" % (vstr(old), n["op"][:-1], vstr(r)))
                    if old[0] == "c" and r[0] == "c" and n["op"] in ("+=", "-="):
                        v = ("c", old[1] + r[1] if n["op"] == "+=" else old[1] - r[1])
                    elif old[0] == "c" and r[0] == "c" and n["op"] in ("&=", "|=", "/=", "%=", ">>=", "<<=") and old[1] >= 0 and r[1] >= 0 \
                            and not (n["op"] in ("/=", "%=") and r[1] == 0):
                        x, y = old[1], r[1]
                        v = ("c", {"&=": x & y, "|=": x | y, "/=": x // y if y else 0, "%=": x % y if y else 0, ">>=": x >> min(y, 63),
                                   "<<=": (x << min(y, 63)) & ((1 << 64) - 1)}[n["op"]])
                    elif r[0] == "c" and n["op"] == "+=":
                        v = add_const(old, r[1])
                self._store(st, lhs, v, n, B)
                st.nodeval[n["id"]] = v      # the value of an assignment expression is the value stored
            elif k == "UnaryOperator" and n.get("op") in ("++", "--"):
                old = self.val(st, n["kids"][0])
                if old[0] == "c":
                    v = ("c", old[1] + (1 if n["op"] == "++" else -1))
                elif n["op"] == "++":
                    v = add_const(old, 1)
                else:
                    v = ("s", "(%s-#1)" % vstr(old))
                st.nodeval[n["id"]] = old if not n.get("prefix", True) else v
                self._store(st, n["kids"][0], v, n, B)
            elif k == "DeclStmt":
                for d in n["decls"]:
                    key = self._name(st, d["name"])
                    if d.get("init") is not None:
                        ini = strip(d["init"])
                        if ini["k"] == "InitListExpr":
                            # aggregate initialiser of a local: each element / member gets its initialiser's value
                            self._init_list(st, key, ini, n, B)
                            continue
                        v = self.val(st, d["init"])
                        for kk in [kk for kk in st.env if kk.startswith(key + "->") or kk.startswith("*" + key)
                                   or kk.startswith(key + ".") or kk.startswith(key + "[")]:
                            del st.env[kk]
                        st.env[key] = v
                        self._copy_struct(st, key, v)
                        st.events.append(Event("store", n, B.id, key, v))
                    else:
                        st.env.pop(key, None)
            elif k == "ReturnStmt":
                ks = kids(n)
                v = self.val(st, ks[0]) if ks else None
                if st.frames:
                    st.frames[-1].retval = v
                    st.events.append(Event("iret", n, B.id, v))
                else:
                    st.events.append(Event("ret", n, B.id, v))
            elif k in ("ConditionalOperator",):
                # the value was chosen in an earlier block; keep it opaque but stable
                pass
        return None

    def _copy_struct(self, st, key, v):
        """key := a struct snapshot (see val): its members become key's members."""
        if v is None or v[0] != "s" or not v[1].startswith("$"):
            return
        tag = v[1]
        for kk in [kk for kk in st.env if kk.startswith(tag + ".")]:
            st.env[key + kk[len(tag):]] = st.env[kk]
        m = _LOCALSTRUCT.match(key + ".")
        if m and self._is_var_key(key):
            st.lver[key] = st.lver.get(key, 0) + 1

    def _init_list(self, st, key, ini, node, B, depth=0):
        if depth > 3:
            return
        rec = ini.get("rec")
        fields = None
        if rec:
            r = self.prog.record(rec, self.unit)
            fields = [f_["name"] for f_ in r["fields"]] if r else None
        if fields is None and (ini.get("ct") or ini.get("t") or "").startswith(("struct", "const struct", "union")):
            # an unnamed local struct type: member names from the accesses to objects of that type in this function
            from .facts import walk as _w
            want = (ini.get("ct") or ini.get("t") or "").replace("const ", "")
            byidx = {}
            for x in _w(self.cur(st).body):
                if x.get("k") == "MemberExpr" and "fidx" in x:
                    bt = (strip(x["kids"][0]).get("ct") or strip(x["kids"][0]).get("t") or "").replace("const ", "").rstrip(" *")
                    if bt == want:
                        byidx[x["fidx"]] = x["field"]
            if byidx:
                fields = [byidx.get(i, "#%d" % i) for i in range(max(byidx) + 1)]
        for i, k in enumerate(kids(ini)):
            sub = (key + "." + fields[i]) if fields and i < len(fields) else "%s[#%d]" % (key, i)
            ks = strip(k)
            if ks is not None and ks["k"] == "InitListExpr":
                self._init_list(st, sub, ks, node, B, depth + 1)
            elif ks is not None and ks["k"] not in ("ImplicitValueInitExpr",):
                v = self.val(st, k)
                st.env[sub] = v
                st.events.append(Event("store", node, B.id, sub, v))

    def _enter(self, st, g, call, argv, cont):
        """Start evaluating helper g as part of the current path."""
        fr = Frame()
        st.nact += 1
        fr.func, fr.act, fr.retval, fr.cont = g, st.nact, None, cont
        fr.prefix = "%s__%d__" % (g.name, st.nact)
        fr.saved_nodeval = st.nodeval
        fr.subst = {}
        stored = getattr(g, "_stored_params", None)
        if stored is None:
            stored = set()
            from .facts import walk as _walk
            for x in _walk(g.body):
                if MR.is_store(x):
                    l = strip(x["kids"][0])
                    if l is not None and l["k"] == "DeclRefExpr" and l.get("dk") == "param":
                        stored.add(l["name"])
                if x["k"] == "UnaryOperator" and x.get("op") == "&":
                    l = strip(x["kids"][0])
                    if l is not None and l["k"] == "DeclRefExpr" and l.get("dk") == "param":
                        stored.add(l["name"])
            g._stored_params = stored
            from .facts import walk as _walk2
            names = set(p["name"] for p in g.params)
            for x in _walk2(g.body):
                if x["k"] == "DeclStmt":
                    for d in x["decls"]:
                        names.add(d["name"])
            g._local_names = names
        args = call["kids"][1:]
        binds = []
        for i, prm in enumerate(g.params):
            pn = prm["name"]
            if i >= len(args):
                continue
            a = strip(args[i])
            path = None
            if pn not in stored and a is not None and (a["k"] in ("DeclRefExpr", "MemberExpr", "ArraySubscriptExpr") or
                                                       (a["k"] == "UnaryOperator" and a.get("op") in ("&", "*"))) \
                    and not (a["k"] == "DeclRefExpr" and a.get("dk") not in ("local", "param", "slocal")):
                # the argument is a place of the caller: the helper's parameter stands for it (evaluated in the caller's frame)
                path = self._valkey(st, a)
            binds.append((pn, path, argv[i]))
        st.frames.append(fr)
        st.nodeval = {}
        for pn, path, av in binds:
            if path is not None:
                fr.subst[pn] = path
            else:
                st.env[fr.prefix + pn] = av
                st.events.append(Event("bind", call, None, fr.prefix + pn, av))      # a by-value parameter gets its argument's value
        for nm in g._local_names:
            self.localnames.add(fr.prefix + nm)
        st.events.append(Event("enter", call, None, g.name, argv))

    # ---- path enumeration ------------------------------------------------------
    def run(self, start=None, stop=()):
        f = self.f
        st = State()
        st.env = dict(self.start_env)
        st.epoch = 0
        st.cons = {}
        st.events = []
        st.visits = {}
        st.prob = None
        st.blocks = []
        st.atoms = {}
        st.nodeval = {}
        st.fresh = 0
        st.det = False
        st.lver = {}
        st.fver = {}
        st.frames = []
        st.nact = 0
        self.paths = []
        self.stop = set(stop)
        stack = [(start if start is not None else f.entry, st, 0, 0)]
        while stack:
            item = stack.pop()
            self._step(item, stack)
            if len(self.paths) + len(stack) > self.max_paths:
                raise BrokenAnalysis("path budget exceeded in %s" % f.name)
        return self.paths

    def _finish(self, st, end):
        p = Path()
        p.events, p.cons, p.end, p.blocks, p.atoms = st.events, st.cons, end, st.blocks, st.atoms
        self.paths.append(p)

    def _never_null(self, sym):
        """Is `sym` the result symbol of a library function all of whose returning paths establish result != 0
        (my_malloc and friends assert it)?  Decided from the callee's own paths, cached per program."""
        m = _re.match(r"^([A-Za-z_]\w*)\(", sym)
        if not m or not (sym.endswith(")") or _re.search(r"\)[#@]\d+$", sym)):
            return False
        name = m.group(1)
        cache = _NEVERNULL.setdefault(id(self.prog), {})
        key = (name, self.unit)
        if key in cache:
            return cache[key]
        cache[key] = False           # while being computed (recursion), and the default
        g = self.prog.func(name, self.unit) if hasattr(self.prog, "func") else None
        if g is None and hasattr(self.prog, "helper"):
            g = self.prog.helper(name, self.unit)
        if g is None or g.body is None or not (g.d.get("cret") or g.d.get("ret") or "").rstrip().endswith("*"):
            return False
        try:
            sub = APE(self.prog, self.cg, g, bound=1, max_paths=200)
            sub.run()
        except BrokenAnalysis:
            return False
        rets = [p for p in sub.paths if p.end == "exit"]
        ok = bool(rets)
        for p in rets:
            r = p.ret()
            if r is None or r[0] == "c" and r[1] == 0:
                ok = False
                break
            if r[0] == "c":
                continue
            c = p.cons.get((vstr(r), "#0"))
            if c is None or EQ in c:
                ok = False
                break
        cache[key] = ok
        return ok

    def _generated(self, g):
        """Is g one of several functions defined on the same source line (the expansion of a generator macro)?"""
        cache = _GENLINES.get(id(self.prog))
        if cache is None:
            cache = {}
            for (u, nm), h in self.prog.funcs.items():
                cache.setdefault((u, h.file, h.line), set()).add(nm)
            for key_, h in getattr(self.prog, "helpers", {}).items():
                cache.setdefault((h.unit, h.file, h.line), set()).add(h.name)
            _GENLINES[id(self.prog)] = cache
        return len(cache.get((g.unit, g.file, g.line), ())) > 1

    def _callfree(self, B):
        c = B.rawcond if B.rawcond is not None else B.cond
        if c is None:
            return True
        r = getattr(B, "_callfree", None)
        if r is None:
            from .facts import walk as _w
            r = not any(x.get("k") == "CallExpr" for x in _w(c))
            try:
                B._callfree = r
            except AttributeError:
                pass
        return r

    def _loops(self, f):
        c = self._loopcache.get(id(f))
        if c is None:
            from . import cfg as _cfg
            c = _cfg.natural_loops(f)
            self._loopcache[id(f)] = c
        return c

    def _step(self, item, stack):
        bid, st, ri, ni = item
        f = self.cur(st)
        B = f.blocks[bid]
        act = st.frames[-1].act if st.frames else 0
        if ri == 0 and ni == 0:
            vk = (act, bid)
            v = st.visits.get(vk, 0)
            if v > self.bound and not (getattr(st, "det", False) and v < 4096):
                # over the bound at a loop header: go on only if the loop condition turns out to be decided by constants
                # (a constant-trip loop over a table, whatever its body forks on); otherwise the path is cut here
                if v < 4096 and st.prob is None and B.cond is not None and len(B.succs) == 2 and bid in self._loops(f):
                    st.prob = (act, bid)
                else:
                    self._finish(st, "cut")
                    return
            st.visits[vk] = v + 1
            st.blocks.append(bid)
            if not st.frames and bid in self.stop:
                self._finish(st, "stop")
                return
        for r_i in range(ri, len(B.roots)):
            sig = self._exec_root(st, B.roots[r_i], B, ni if r_i == ri else 0)
            if sig is not None:
                idx, g, call, argv = sig
                self._enter(st, g, call, argv, (bid, r_i, idx + 1, call["id"]))
                stack.append((g.entry, st, 0, 0))
                return
        if B.noreturn:
            self._finish(st, "noreturn")
            return
        if bid == f.exit:
            if st.frames:
                fr = st.frames.pop()
                rv = fr.retval if fr.retval is not None else ("s", "%s()#void" % fr.func.name)
                st.nodeval = dict(fr.saved_nodeval)
                cbid, cri, cni, cid = fr.cont
                st.nodeval[cid] = rv
                st.events.append(Event("leave", fr.func.body, None, fr.func.name, rv))
                stack.append((cbid, st, cri, cni))
                return
            self._finish(st, "exit")
            return
        succs = B.succs
        if B.termk == "SwitchStmt":
            self._switch(B, st, stack)
            return
        if B.cond is not None and len(succs) == 2:
            cnode = B.cond
            rc = strip(B.rawcond) if B.rawcond is not None else None
            if rc is not None and rc["k"] == "BinaryOperator" and rc.get("op") in ("&&", "||") and rc["id"] in st.nodeval:
                # the short-circuit operator was decided by its left operand on the way here (a do-while condition joins
                # both ways of reaching it): its recorded value is the condition, not its right operand
                cnode = rc
            lit = self.literal(st, cnode)
            lop = None
            if B.termk == "BinaryOperator" and B.term is not None and B.term.get("op") in ("&&", "||"):
                lop = B.term
            if st.prob is not None and st.prob == (act, bid):
                st.prob = None
                if not isinstance(lit, bool) or not self._callfree(B):
                    self._finish(st, "cut")
                    return
                for b_ in self._loops(f)[bid]:
                    if b_ != bid:
                        st.visits[(act, b_)] = 0
            if isinstance(lit, bool):
                if lop is not None:
                    st.nodeval.pop(lop["id"], None)
                    if lop["op"] == "&&" and not lit:
                        st.nodeval[lop["id"]] = ("c", 0)
                    elif lop["op"] == "||" and lit:
                        st.nodeval[lop["id"]] = ("c", 1)
                tgt = succs[0] if lit else succs[1]
                if B.termk == "ConditionalOperator" and B.term is not None:
                    st.nodeval[B.term["id"]] = ("?", 0 if lit else 1)
                if tgt is None:
                    self._finish(st, "cut")
                else:
                    # deterministic continuation: constant-trip loops unroll fully - but only when the condition is arithmetic on
                    # variables (a call evaluated in line yields a constant on each of its paths without the trip being constant)
                    st.det = self._callfree(B)
                    stack.append((tgt, st, 0, 0))
                return
            atom, acc, nodes = lit
            cur = st.cons.get(atom, ALL)
            if atom not in st.cons and _re.match(r"^#-?\d+$", atom[1]):
                # the path already knows the value equals another constant
                for (a2, b2), v2 in st.cons.items():
                    if a2 == atom[0] and v2 == frozenset((EQ,)) and b2 != atom[1] and _re.match(r"^#-?\d+$", b2):
                        cur = cur & frozenset((LT,) if int(b2[1:]) < int(atom[1][1:]) else (GT,))
            if atom not in st.cons and atom[1] == "#0" and self._never_null(atom[0]):
                # the result of an allocation wrapper that stops the process instead of returning NULL
                cur = cur & frozenset((LT, GT))
            outs = []
            for i, a in ((0, acc), (1, ALL - acc)):
                new = cur & a
                if not new or succs[i] is None:
                    continue
                outs.append((succs[i], new, i))
            first = True
            for tgt, new, ei in outs:
                s2 = st if (first and len(outs) == 1) else st.copy()
                first = False
                if lop is not None:
                    s2.nodeval.pop(lop["id"], None)
                    if lop["op"] == "&&" and ei == 1:
                        s2.nodeval[lop["id"]] = ("c", 0)
                    elif lop["op"] == "||" and ei == 0:
                        s2.nodeval[lop["id"]] = ("c", 1)
                if B.termk == "ConditionalOperator" and B.term is not None:
                    s2.nodeval[B.term["id"]] = ("?", ei)
                s2.cons[atom] = frozenset(new)
                s2.det = False
                s2.atoms.setdefault(atom, nodes)
                s2.events.append(Event("branch", B.cond, B.id, atom, frozenset(new)))
                stack.append((tgt, s2, 0, 0))
            return
        nxt = [s_ for s_ in succs if s_ is not None]
        if not nxt:
            self._finish(st, "exit" if (bid == f.exit and not st.frames) else "cut")
            return
        if len(nxt) == 1:
            stack.append((nxt[0], st, 0, 0))
            return
        # unknown multi-way terminator (goto/indirect): explore all
        for s_ in nxt:
            stack.append((s_, st.copy(), 0, 0))

    def _switch(self, B, st, stack):
        f = self.cur(st)
        v = self.val(st, B.cond) if B.cond is not None else ("s", "?")
        key = (vstr(v), "switch")
        default = None
        cases = []
        for s, ps in zip(B.succs, B.psuccs):
            if s is None:
                # clang prunes the default edge of a switch that covers every enumerator; a value
                # outside the enumeration (e.g. read from a file) still takes it
                if ps is not None and f.blocks[ps].labelk == "DefaultStmt":
                    s = ps
                else:
                    continue
            lab = f.blocks[s].label
            if lab is not None and lab["k"] == "CaseStmt":
                cases.append((s, lab.get("caseval"), lab.get("casename")))
            else:
                default = s
        seen = st.cons.get(key)
        vs = vstr(v)

        def rel_to(cv):
            """What the path already knows about  value ? cv  from comparisons with constants."""
            if cv is None:
                return ALL
            c = st.cons.get((vs, "#%d" % cv), ALL)
            for (a2, b2), v2 in st.cons.items():
                if a2 == vs and v2 == frozenset((EQ,)) and _re.match(r"^#-?\d+$", b2) and int(b2[1:]) != cv:
                    c = c & frozenset((LT,) if int(b2[1:]) < cv else (GT,))
            return c
        for s, cv, cn in cases:
            tag = cn or ("#%s" % cv)
            if v[0] == "c" and v[1] != cv:
                continue
            if seen is not None and tag not in seen:
                continue
            if v[0] != "c" and EQ not in rel_to(cv):
                continue      # an earlier comparison on this path excludes this case
            s2 = st.copy()
            s2.cons[key] = frozenset((tag,))
            if v[0] != "c" and cv is not None:
                s2.cons[(vs, "#%d" % cv)] = frozenset((EQ,))
            s2.events.append(Event("branch", B.cond, B.id, key, frozenset((tag,))))
            stack.append((s, s2, 0, 0))
        if default is not None:
            if v[0] == "c" and any(cv == v[1] for _, cv, _ in cases):
                return
            if v[0] != "c" and any(cv is not None and rel_to(cv) == frozenset((EQ,)) for _, cv, _ in cases):
                return        # the path has established that the value equals one of the case constants
            s2 = st.copy()
            s2.cons[key] = frozenset(("default",))
            if v[0] != "c":
                for _, cv, _ in cases:
                    if cv is not None:
                        k2 = (vs, "#%d" % cv)
                        s2.cons[k2] = s2.cons.get(k2, ALL) & frozenset((LT, GT))
            s2.events.append(Event("branch", B.cond, B.id, key, frozenset(("default",))))
            stack.append((default, s2, 0, 0))


def run(prog, cg, func, **kw):
    start = kw.pop("start", None)
    stop = kw.pop("stop", ())
    a = APE(prog, cg, func, **kw)
    a.run(start=start, stop=stop)
    return a
