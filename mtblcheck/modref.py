"""Whole-program call graph over resolved callees and mod/ref summaries.

Summary of a function:
  wparams  - parameter indices through which caller-visible memory may be written
  wderef   - subset written by a direct `*p = ..` / `p[i] = ..` (out-parameter use)
  wglobal  - may write file-scope state or memory of unknown origin
  wfields  - (record, field) pairs that may be stored to, transitively
  rfields  - (record, field) pairs that may be loaded, transitively
  callees  - resolved direct callees; indirect calls resolve through the registry of
             function values ever stored into the called struct member / passed in the
             called parameter position; unresolved -> 'USER'
"""
from .facts import walk, strip, kids, base_decl, is_call, canon

# external functions: which argument positions may be written through
EXTERNAL_WRITES = {
    "memcpy": [0], "memmove": [0], "memset": [0], "strcpy": [0], "sprintf": [0], "snprintf": [0],
    "vsnprintf": [0], "free": [0], "realloc": [0], "munmap": [0], "getline": [0, 1],
    "pthread_mutex_lock": [0], "pthread_mutex_unlock": [0], "pthread_mutex_init": [0],
    "pthread_mutex_destroy": [0], "pthread_cond_init": [0], "pthread_cond_destroy": [0],
    "pthread_cond_wait": [0, 1], "pthread_cond_signal": [0], "pthread_cond_broadcast": [0],
    "pthread_create": [0], "fstat": [1], "stat": [1], "clock_gettime": [1], "gettimeofday": [0],
    "qsort": [0], "mkstemp": [0], "deflateInit_": [0], "deflate": [0], "deflateEnd": [0],
    "inflateInit_": [0], "inflate": [0], "inflateEnd": [0], "deflateBound": [],
    "snappy_compress": [2, 3], "snappy_uncompress": [2, 3], "snappy_uncompressed_length": [2],
    "LZ4_compress_default": [1], "LZ4_compress_HC": [1], "LZ4_decompress_safe": [1],
    "ZSTD_compress": [0], "ZSTD_decompress": [0],
}
EXTERNAL_PURE = {
    "memcmp", "bcmp", "strcmp", "strcasecmp", "strncmp", "strlen", "getenv", "__errno_location",
    "strerror", "LZ4_compressBound", "ZSTD_compressBound", "ZSTD_maxCLevel", "ZSTD_minCLevel",
    "ZSTD_isError", "ZSTD_getFrameContentSize", "snappy_max_compressed_length", "isatty",
    "__uint32_identity", "__uint64_identity", "__uint16_identity", "__bswap_32", "__bswap_64",
    "__bswap_16", "getpid", "pthread_self", "lseek", "dup", "open", "close", "write", "read",
    "mmap", "posix_madvise", "madvise", "unlink", "fprintf", "printf", "puts", "fputs", "fputc",
    "putchar", "fflush", "perror", "exit", "abort", "__assert_fail", "malloc", "calloc", "strdup",
    "fopen", "fclose", "dirname", "bsearch", "pthread_join", "atoi", "setlocale", "getopt",
    "__builtin_expect", "__builtin_bswap32", "__builtin_bswap64", "__builtin_bswap16",
    "__builtin_va_start", "__builtin_va_end", "__builtin_va_copy", "deflateBound", "compressBound",
    "tolower", "toupper", "isprint",
}

# external calls whose result differs from call to call (no memory effects, fresh result)
EXTERNAL_NONDET = {
    "write", "read", "open", "close", "dup", "mmap", "lseek", "malloc", "calloc", "strdup", "fopen",
    "getenv", "unlink", "getpid", "isatty", "pthread_join", "fprintf", "printf", "fflush", "fclose",
    "posix_madvise", "madvise", "__errno_location", "strerror", "puts", "fputs", "fputc", "putchar",
}

STORE_OPS = ("=", "+=", "-=", "*=", "/=", "%=", "<<=", ">>=", "&=", "|=", "^=")


def is_store(n):
    k = n["k"]
    if k in ("BinaryOperator", "CompoundAssignOperator") and n.get("op") in STORE_OPS:
        return True
    if k == "UnaryOperator" and n.get("op") in ("++", "--"):
        return True
    return False


def store_target(n):
    return n["kids"][0]


def through_pointer(lhs):
    """True if the lvalue designates memory other than a named variable itself
    (a dereference, an arrow member, or an index of a pointer)."""
    n = strip(lhs)
    while n is not None:
        k = n["k"]
        if k == "DeclRefExpr":
            return False
        if k == "MemberExpr":
            if n.get("arrow"):
                return True
            n = strip(n["kids"][0])
            continue
        if k == "UnaryOperator" and n.get("op") == "*":
            return True
        if k == "ArraySubscriptExpr":
            b = strip(n["kids"][0])
            t = b.get("ct", b.get("t", ""))
            if "[" in t and "*" not in t.split("[")[0][-2:]:
                # indexing a true array object: continue to its base
                n = b
                continue
            return True
        return True
    return True


class Summary:
    __slots__ = ("wparams", "wderef", "wglobal", "wfields", "rfields", "callees", "user")

    def __init__(self):
        self.wparams = set()
        self.wderef = set()
        self.wglobal = False
        self.wfields = set()
        self.rfields = set()
        self.callees = set()
        self.user = False

    def key(self):
        return (frozenset(self.wparams), frozenset(self.wderef), self.wglobal,
                len(self.wfields), len(self.rfields), len(self.callees), self.user)


class CallGraph:
    def __init__(self, prog, units=None):
        self.prog = prog
        self.units = units or (prog.lib_units + prog.tool_units)
        self.funcs = {}
        for u in self.units:
            for f in prog.unit_funcs(u, helpers=True):
                self.funcs[(u, f.name)] = f
        self._registry()
        self.alias = {}
        self.sum = {k: Summary() for k in self.funcs}
        self._solve()

    # ---- resolution ---------------------------------------------------
    def resolve(self, unit, name):
        """Key of the definition a direct call to `name` from `unit` reaches."""
        if (unit, name) in self.funcs:
            return (unit, name)
        for u in self.units:
            f = self.funcs.get((u, name))
            if f is not None and not f.static:
                return (u, name)
        return None

    def _registry(self):
        """Function values stored into struct members or passed as arguments."""
        self.member_funcs = {}   # (rec, field) -> set of function names
        self.param_funcs = {}    # (callee, argidx) -> set of function names
        self.global_funcs = {}   # global var -> set of function names
        prog = self.prog
        for (u, name), f in self.funcs.items():
            for n in walk(f.body):
                if n["k"] == "CallExpr" and n.get("callee"):
                    for i, a in enumerate(n["kids"][1:]):
                        s = strip(a)
                        if s and s["k"] == "DeclRefExpr" and s.get("dk") == "func":
                            self.param_funcs.setdefault((n["callee"], i), set()).add(s["name"])
                if n["k"] == "BinaryOperator" and n.get("op") == "=":
                    r = strip(n["kids"][1])
                    l = strip(n["kids"][0])
                    if r and r["k"] == "DeclRefExpr" and r.get("dk") == "func":
                        if l["k"] == "MemberExpr":
                            self.member_funcs.setdefault((l.get("rec"), l["field"]), set()).add(r["name"])
                        elif l["k"] == "DeclRefExpr" and l.get("dk") == "global":
                            self.global_funcs.setdefault(l["name"], set()).add(r["name"])
        for (u, gname), g in prog.globals.items():
            init = g.get("init")
            if init:
                s = strip(init)
                if s and s["k"] == "DeclRefExpr" and s.get("dk") == "func":
                    self.global_funcs.setdefault(gname, set()).add(s["name"])
        # function values that travel through a local (`impl = a; if (..) impl = b; global = impl;`) or a conditional
        # expression: flow-insensitive, every function the local may hold
        self.local_funcs = {}    # (function, local) -> set of function names
        self.ret_funcs = {}      # function -> set of function names it may return

        def fvals(name, e):
            e = strip(e)
            if e is None:
                return set()
            if e["k"] == "DeclRefExpr":
                if e.get("dk") == "func":
                    return {e["name"]}
                if e.get("dk") in ("local", "slocal"):
                    return set(self.local_funcs.get((name, e["name"]), ()))
                return set()
            if e["k"] == "ConditionalOperator":
                return fvals(name, e["kids"][1]) | fvals(name, e["kids"][2])
            if e["k"] == "CallExpr" and e.get("callee"):
                return set(self.ret_funcs.get(e["callee"], ()))      # a selector function that returns the function to install
            return set()

        changed = True
        while changed:
            changed = False
            for (u, name), f in self.funcs.items():
                for n in walk(f.body):
                    if n["k"] == "ReturnStmt":
                        ks_ = kids(n)
                        if ks_:
                            src = fvals(name, ks_[0])
                            dst = self.ret_funcs.setdefault(name, set())
                            if src and not src <= dst:
                                dst |= src
                                changed = True
                    if n["k"] == "DeclStmt":
                        for d in n["decls"]:
                            if d.get("init") is not None:
                                src = fvals(name, d["init"])
                                dst = self.local_funcs.setdefault((name, d["name"]), set())
                                if src and not src <= dst:
                                    dst |= src
                                    changed = True
                    if n["k"] == "BinaryOperator" and n.get("op") == "=":
                        r = strip(n["kids"][1])
                        l = strip(n["kids"][0])
                        if r is None or l is None:
                            continue
                        src = fvals(name, r)
                        if not src:
                            continue
                        if l["k"] == "MemberExpr":
                            dst = self.member_funcs.setdefault((l.get("rec"), l["field"]), set())
                        elif l["k"] == "DeclRefExpr" and l.get("dk") == "global":
                            dst = self.global_funcs.setdefault(l["name"], set())
                        elif l["k"] == "DeclRefExpr" and l.get("dk") in ("local", "slocal"):
                            dst = self.local_funcs.setdefault((name, l["name"]), set())
                        else:
                            continue
                        if not src <= dst:
                            dst |= src
                            changed = True
                    if n["k"] == "CallExpr" and n.get("callee"):
                        for i, a in enumerate(n["kids"][1:]):
                            sa = strip(a)
                            if sa is None or (sa["k"] == "DeclRefExpr" and sa.get("dk") == "func"):
                                continue
                            src = fvals(name, sa)
                            if src:
                                dst = self.param_funcs.setdefault((n["callee"], i), set())
                                if not src <= dst:
                                    dst |= src
                                    changed = True
        # a member that receives a parameter which receives functions: x->cb = cb
        changed = True
        while changed:
            changed = False
            for (u, name), f in self.funcs.items():
                for n in walk(f.body):
                    if n["k"] == "BinaryOperator" and n.get("op") == "=":
                        r = strip(n["kids"][1])
                        l = strip(n["kids"][0])
                        if r and r["k"] == "DeclRefExpr" and r.get("dk") == "param" and l["k"] == "MemberExpr":
                            src = self.param_funcs.get((name, r["idx"]), set())
                            dst = self.member_funcs.setdefault((l.get("rec"), l["field"]), set())
                            if not src <= dst:
                                dst |= src
                                changed = True
                    if n["k"] == "CallExpr" and n.get("callee"):
                        for i, a in enumerate(n["kids"][1:]):
                            s = strip(a)
                            if s and s["k"] == "DeclRefExpr" and s.get("dk") == "param":
                                src = self.param_funcs.get((name, s["idx"]), set())
                                if src:
                                    dst = self.param_funcs.setdefault((n["callee"], i), set())
                                    if not src <= dst:
                                        dst |= src
                                        changed = True

    def indirect_targets(self, f, call):
        """Names of functions an indirect call may reach, or None (user code)."""
        c = strip(call["kids"][0])
        if c["k"] == "UnaryOperator" and c.get("op") == "*":
            c = strip(c["kids"][0])
        if c["k"] == "MemberExpr":
            t = self.member_funcs.get((c.get("rec"), c["field"]))
            return t
        if c["k"] == "DeclRefExpr":
            if c.get("dk") == "global":
                return self.global_funcs.get(c["name"])
            if c.get("dk") == "param":
                return self.param_funcs.get((f.name, c["idx"]))
        return None

    def call_targets(self, fkey, call):
        """Resolved keys of the callees of one call expression; 'USER' for unknown;
        ('ext', name) for library functions without a body."""
        f = self.funcs[fkey]
        if call.get("callee"):
            k = self.resolve(fkey[0], call["callee"])
            return [k] if k else [("ext", call["callee"])]
        names = self.indirect_targets(f, call)
        if not names:
            return ["USER"]
        out = []
        for nm in sorted(names):
            k = self.resolve(fkey[0], nm)
            if k is None:
                # a function value may name a static function of another unit
                for u in self.units:
                    if (u, nm) in self.funcs:
                        k = (u, nm)
                        break
            out.append(k if k else ("ext", nm))
        return out

    # ---- aliasing of locals to parameters -----------------------------------
    def _aliases(self, f):
        """local lid -> set of ('param', i) / ('global', name) it may point into."""
        al = {}
        changed = True

        def origin(e):
            e = strip(e)
            if e is None:
                return set()
            if e["k"] == "CallExpr":
                out = set()
                # a returned pointer may point into anything reachable from pointer arguments
                for a in e["kids"][1:]:
                    t = strip(a).get("ct", strip(a).get("t", ""))
                    if "*" in t:
                        out |= origin(a)
                return out
            if e["k"] == "ConditionalOperator":
                return origin(e["kids"][1]) | origin(e["kids"][2])
            b = base_decl(e)
            if b is None:
                return set()
            if b[0] == "param":
                return {("param", b[1])}
            if b[0] == "global":
                return {("global", b[1])}
            if b[0] == "local":
                return set(al.get(b[1], ()))
            if b[0] == "call":
                return origin_call(e)
            return set()

        def origin_call(e):
            # base is a call somewhere below: find it
            for x in walk(e):
                if x["k"] == "CallExpr":
                    return origin(x)
            return set()

        while changed:
            changed = False
            for n in walk(f.body):
                if n["k"] == "DeclStmt":
                    for d in n["decls"]:
                        if d.get("init") is not None and "*" in d.get("ct", d.get("t", "")):
                            o = origin(d["init"])
                            if not o <= al.setdefault(d["lid"], set()):
                                al[d["lid"]] |= o
                                changed = True
                elif n["k"] == "BinaryOperator" and n.get("op") == "=":
                    l = strip(n["kids"][0])
                    if l["k"] == "DeclRefExpr" and l.get("dk") == "local" and "*" in l.get("ct", l.get("t", "")):
                        o = origin(n["kids"][1])
                        if not o <= al.setdefault(l["lid"], set()):
                            al[l["lid"]] |= o
                            changed = True
                elif n["k"] == "CallExpr":
                    # out-parameters: f(&local) where callee derives *arg from other pointer args
                    for a in n["kids"][1:]:
                        s = strip(a)
                        if s["k"] == "UnaryOperator" and s.get("op") == "&":
                            t = strip(s["kids"][0])
                            if t["k"] == "DeclRefExpr" and t.get("dk") == "local" and "*" in t.get("ct", t.get("t", "")):
                                o = set()
                                for a2 in n["kids"][1:]:
                                    if a2 is not a:
                                        s2 = strip(a2)
                                        if "*" in s2.get("ct", s2.get("t", "")) and not (
                                                s2["k"] == "UnaryOperator" and s2.get("op") == "&"):
                                            o |= origin(a2)
                                if not o <= al.setdefault(t["lid"], set()):
                                    al[t["lid"]] |= o
                                    changed = True
        self._origin = origin
        return al, origin

    # ---- fix point ------------------------------------------------------
    def _solve(self):
        origins = {}
        for k, f in self.funcs.items():
            al, origin = self._aliases(f)
            self.alias[k] = al
            origins[k] = origin
        self.origin = origins
        changed = True
        rounds = 0
        while changed and rounds < 50:
            changed = False
            rounds += 1
            for k, f in self.funcs.items():
                s = self.sum[k]
                before = s.key()
                self._scan(k, f, s, origins[k])
                if s.key() != before:
                    changed = True

    def _mark_write(self, s, origin_set, deref=False):
        for o in origin_set:
            if o[0] == "param":
                s.wparams.add(o[1])
                if deref:
                    s.wderef.add(o[1])
            elif o[0] == "global":
                s.wglobal = True

    def _scan(self, k, f, s, origin):
        for n in walk(f.body):
            kd = n["k"]
            if kd == "MemberExpr":
                s.rfields.add((n.get("rec"), n["field"]))
            if is_store(n):
                lhs = strip(store_target(n))
                if lhs["k"] == "MemberExpr":
                    s.wfields.add((lhs.get("rec"), lhs["field"]))
                if lhs["k"] == "DeclRefExpr" and lhs.get("dk") in ("global", "slocal"):
                    s.wglobal = True
                elif through_pointer(lhs):
                    direct = lhs["k"] in ("UnaryOperator", "ArraySubscriptExpr")
                    o = origin(lhs)
                    self._mark_write(s, o, deref=direct)
                    if not o:
                        b = base_decl(lhs)
                        if b and b[0] == "global":
                            s.wglobal = True
            elif kd == "CallExpr":
                targets = self.call_targets(k, n)
                args = n["kids"][1:]
                for t in targets:
                    s.callees.add(t)
                    if t == "USER":
                        s.user = True
                        for a in args:
                            sa = strip(a)
                            if "*" in sa.get("ct", sa.get("t", "")) and "const" not in sa.get("t", ""):
                                self._mark_write(s, origin(a))
                        continue
                    if t[0] == "ext":
                        nm = t[1]
                        if nm in EXTERNAL_WRITES:
                            widx = EXTERNAL_WRITES[nm]
                        elif nm in EXTERNAL_PURE:
                            widx = []
                        else:
                            widx = [i for i, a in enumerate(args)
                                    if "*" in strip(a).get("ct", strip(a).get("t", ""))
                                    and "const" not in strip(a).get("t", "")]
                        for i in widx:
                            if i < len(args):
                                self._arg_written(s, args[i], origin, deref=True)
                        continue
                    cs = self.sum[t]
                    if cs.wglobal:
                        s.wglobal = True
                    if cs.user:
                        s.user = True
                    s.wfields |= cs.wfields
                    s.rfields |= cs.rfields
                    for i in cs.wparams:
                        if i < len(args):
                            self._arg_written(s, args[i], origin, deref=(i in cs.wderef))

    def _arg_written(self, s, arg, origin, deref):
        a = strip(arg)
        if a["k"] == "UnaryOperator" and a.get("op") == "&":
            t = strip(a["kids"][0])
            if t["k"] == "DeclRefExpr" and t.get("dk") in ("local", "param"):
                return  # a local variable of the caller
            if t["k"] == "MemberExpr" and deref:
                s.wfields.add((t.get("rec"), t["field"]))
            if t["k"] == "DeclRefExpr" and t.get("dk") in ("global", "slocal"):
                s.wglobal = True
                return
            if not through_pointer(t):
                # member of a local struct object
                b = base_decl(t)
                if b and b[0] in ("local",):
                    return
            self._mark_write(s, origin(t), deref=False)
            return
        self._mark_write(s, origin(a), deref=deref and a["k"] == "DeclRefExpr")

    # ---- queries ------------------------------------------------------------
    def const_return(self, unit, name):
        """The constant every return statement of a defined function yields, else None."""
        k = self.resolve(unit, name)
        if k is None:
            return None
        cache = self.__dict__.setdefault("_cr", {})
        if k in cache:
            return cache[k]
        f = self.funcs[k]

        def ret_vals(body):
            """Constants returned by the return statements of `body` itself; a `return helper(...)` whose helper body is
            grafted onto the call (arguments substituted) yields what the grafted body returns."""
            inner = set()
            for c in walk(body):
                if c.get("k") == "CallExpr" and "inl" in c:
                    inner.update(id(x) for x in walk(c["inl"]))
            out = set()
            for n in walk(body):
                if n["k"] != "ReturnStmt" or id(n) in inner:
                    continue
                ks = kids(n)
                if not ks:
                    out.add(None)
                    continue
                v = ks[0].get("val", strip(ks[0]).get("val"))
                e = strip(ks[0])
                if v is None and e is not None and e.get("k") == "CallExpr" and "inl" in e:
                    out |= ret_vals(e["inl"])
                else:
                    out.add(v)
            return out
        vals = ret_vals(f.body)
        r = vals.pop() if len(vals) == 1 else None
        cache[k] = r
        return r

    def is_pure(self, fkey_unit, name):
        """No caller-visible memory written (out-parameters excepted by the caller)."""
        k = self.resolve(fkey_unit, name)
        if k is None:
            return name in EXTERNAL_PURE
        s = self.sum[k]
        return not s.wparams and not s.wglobal and not s.user

    def written_args(self, fkey_unit, call, f=None):
        """Indices of arguments through which the call may write, and whether it may
        write anything else (global/unknown)."""
        if call.get("callee"):
            k = self.resolve(fkey_unit, call["callee"])
            if k is None:
                nm = call["callee"]
                if nm in EXTERNAL_WRITES:
                    return set(EXTERNAL_WRITES[nm]), False
                if nm in EXTERNAL_PURE:
                    return set(), False
                args = call["kids"][1:]
                return set(i for i, a in enumerate(args)
                           if "*" in strip(a).get("ct", strip(a).get("t", ""))
                           and "const" not in strip(a).get("t", "")), True
            s = self.sum[k]
            return set(s.wparams), (s.wglobal or s.user)
        return set(range(len(call["kids"]) - 1)), True

    def call_wfields(self, unit, call, f=None):
        """Field names a call may store to (transitively), or None when unknown
        (external writer, user callback)."""
        if not call.get("callee"):
            if f is None:
                return None
            names = self.indirect_targets(f, call)
            if not names:
                return None
            out = set()
            for nm in names:
                k = self.resolve(unit, nm)
                if k is None:
                    for u in self.units:
                        if (u, nm) in self.funcs:
                            k = (u, nm)
                            break
                if k is None:
                    return None
                out |= {fld for (_r, fld) in self.sum[k].wfields}
                if self.sum[k].wderef:
                    out.add("*")
            return out
        k = self.resolve(unit, call["callee"])
        if k is None:
            return None
        s = self.sum[k]
        # user callbacks (merge, dupsort, filters) cannot name the library's private records:
        # they write only what is handed to them through arguments
        out = {fld for (_r, fld) in s.wfields}
        if s.wglobal:
            out.add("*")
        if s.wderef:
            out.add("*")
        return out

    def writes_global(self, unit, call):
        if not call.get("callee"):
            return False
        k = self.resolve(unit, call["callee"])
        return bool(k and self.sum[k].wglobal)

    def reachable(self, roots):
        """Transitive closure of resolved callees from a set of function keys."""
        seen = set()
        stack = list(roots)
        while stack:
            k = stack.pop()
            if k in seen or k == "USER" or k[0] == "ext":
                continue
            seen.add(k)
            stack.extend(self.sum[k].callees)
        return seen
