"""Field effects of a function on an object of a given record type, and must-lockset dataflow."""
import re
from .facts import walk, strip, kids, canon, base_decl, is_call, call_args
from . import modref as MR
from . import cfg as CFG


def _is_obj_ptr(t, rec):
    t = t.replace("const ", "").strip()
    return t == "struct %s *" % rec


def _is_obj_pp(t, rec):
    t = t.replace("const ", "").strip()
    return t == "struct %s **" % rec


def object_bases(f, rec):
    """Names of params/locals that point to an object of record `rec` (or to a pointer to one)."""
    names = {}
    for i, p in enumerate(f.params):
        if _is_obj_ptr(p["t"], rec):
            names[p["name"]] = "p"
        elif _is_obj_pp(p["t"], rec):
            names[p["name"]] = "pp"
    for n in walk(f.body):
        if n["k"] == "DeclStmt":
            for d in n["decls"]:
                if _is_obj_ptr(d["t"], rec):
                    names[d["name"]] = "p"
                elif _is_obj_pp(d["t"], rec):
                    names[d["name"]] = "pp"
    return names


def accesses(f, rec, cg):
    """[(node, chain, mode)] for every access to a field of an object of record `rec` in f.
    chain: tuple of field names from the object up to (not across) the next pointer hop.
    mode: 'R' load, 'W' store to the field itself, 'D' write to what the field points to
    (passed to a writing parameter, freed, or by-address to a writer)."""
    bases = object_bases(f, rec)
    out = []
    if not bases:
        return out
    parent = f.parent
    nodes = f.nodes

    def is_base(e):
        e = strip(e)
        if e["k"] == "DeclRefExpr" and bases.get(e["name"]) == "p":
            return True
        if e["k"] == "UnaryOperator" and e.get("op") == "*":
            x = strip(e["kids"][0])
            return x["k"] == "DeclRefExpr" and bases.get(x["name"]) == "pp"
        return False

    for n in walk(f.body):
        if n["k"] != "MemberExpr" or not n.get("arrow") or not is_base(n["kids"][0]):
            continue
        # extend through dot-members
        chain = [n["field"]]
        top = n
        while True:
            pid = parent.get(top["id"])
            if pid is None:
                break
            pn = nodes[pid]
            if pn["k"] in ("ParenExpr",) or (pn["k"] == "ImplicitCastExpr" and pn.get("cast") not in ("LValueToRValue",)):
                top = pn
                continue
            if pn["k"] == "MemberExpr" and not pn.get("arrow"):
                chain.append(pn["field"])
                top = pn
                continue
            break
        mode = "R"
        # climb transparent nodes to see how the value is used
        cur = top
        byaddr = False
        while True:
            pid = parent.get(cur["id"])
            if pid is None:
                break
            pn = nodes[pid]
            if pn["k"] in ("ParenExpr", "ImplicitCastExpr", "CStyleCastExpr"):
                cur = pn
                continue
            if pn["k"] == "UnaryOperator" and pn.get("op") == "&":
                byaddr = True
                cur = pn
                continue
            if MR.is_store(pn) and strip(pn["kids"][0])["id"] == strip(top)["id"] and not byaddr:
                mode = "W"
            elif pn["k"] == "CallExpr":
                args = pn["kids"][1:]
                idx = None
                for i, a in enumerate(args):
                    if a["id"] == cur["id"] or strip(a)["id"] == strip(cur)["id"]:
                        idx = i
                user_cb = not pn.get("callee") and not cg.indirect_targets(f, pn)
                if idx is not None and not user_cb:
                    widx, other = cg.written_args(f.unit, pn, f)
                    if idx in widx or pn.get("callee") in ("free",):
                        mode = "D" if not byaddr else "W"
                    if pn.get("callee") in ("free",):
                        mode = "D"
            elif pn["k"] == "MemberExpr" and pn.get("arrow"):
                # p->field->x : look whether x is written
                pp = parent.get(pn["id"])
                q = pn
                while pp is not None and nodes[pp]["k"] in ("ParenExpr", "ImplicitCastExpr", "MemberExpr"):
                    if nodes[pp]["k"] == "MemberExpr" and nodes[pp].get("arrow"):
                        break
                    q = nodes[pp]
                    pp = parent.get(pp)
                if pp is not None and MR.is_store(nodes[pp]) and strip(nodes[pp]["kids"][0])["id"] == strip(q)["id"]:
                    mode = "D"
            elif pn["k"] == "ArraySubscriptExpr":
                pp = parent.get(pn["id"])
                if pp is not None and MR.is_store(nodes[pp]) and strip(nodes[pp]["kids"][0])["id"] == pn["id"]:
                    mode = "D"
            break
        out.append((n, tuple(chain), mode))
    return out


def passes_object(f, rec, call):
    """Indices of arguments of `call` that are the object (p or *pp)."""
    bases = object_bases(f, rec)
    idx = []
    for i, a in enumerate(call["kids"][1:]):
        s = strip(a)
        if s["k"] == "DeclRefExpr" and bases.get(s["name"]) == "p":
            idx.append(i)
        elif s["k"] == "UnaryOperator" and s.get("op") == "*" and strip(s["kids"][0])["k"] == "DeclRefExpr" and \
                bases.get(strip(s["kids"][0])["name"]) == "pp":
            idx.append(i)
    return idx


def role_effects(cg, prog, fkey, rec, seen=None):
    """Transitive field effects {chain: set(modes)} of function fkey (and callees that receive the object)."""
    seen = seen if seen is not None else set()
    if fkey in seen or fkey not in cg.funcs:
        return {}
    seen.add(fkey)
    f = cg.funcs[fkey]
    eff = {}
    for n, chain, mode in accesses(f, rec, cg):
        eff.setdefault(chain, set()).add(mode)
    for c in f.calls():
        if passes_object(f, rec, c):
            for t in cg.call_targets(fkey, c):
                if t != "USER" and t[0] != "ext":
                    for k, v in role_effects(cg, prog, t, rec, seen).items():
                        eff.setdefault(k, set()).update(v)
    return eff


# ---------------------------------------------------------------------------------------
LOCK, UNLOCK, WAIT = "pthread_mutex_lock", "pthread_mutex_unlock", "pthread_cond_wait"


def lock_class(arg):
    """(record, field) of a mutex/condvar argument such as &thr->m"""
    s = strip(arg)
    if s["k"] == "UnaryOperator" and s.get("op") == "&":
        s = strip(s["kids"][0])
    if s["k"] == "MemberExpr":
        return (s.get("rec"), s["field"])
    return None


def lock_obj(arg):
    s = strip(arg)
    if s["k"] == "UnaryOperator" and s.get("op") == "&":
        s = strip(s["kids"][0])
    if s["k"] == "MemberExpr":
        return canon(s["kids"][0])
    return canon(s)


def must_locksets(f):
    """node id of every root element -> frozenset of (class, object) held before it (must analysis)."""
    def apply(root, state):
        s = set(state)
        for n in walk(root):
            if n["k"] == "CallExpr":
                if n.get("callee") == LOCK:
                    a = call_args(n)[0]
                    s.add((lock_class(a), lock_obj(a)))
                elif n.get("callee") == UNLOCK:
                    a = call_args(n)[0]
                    s.discard((lock_class(a), lock_obj(a)))
        return frozenset(s)

    def transfer(B, state):
        for r in B.roots:
            state = apply(r, state)
        return state

    IN, OUT = CFG.forward(f, frozenset(), transfer, lambda a, b: a & b)
    at = {}

    def inside(n, cur):
        """Nodes of a grafted helper body (an unknown static helper analysed as part of its caller) see the lock state as
        it evolves through the helper's statements, in order."""
        for x in walk(n):
            at.setdefault(x["id"], frozenset(cur))
            if x["k"] == "CallExpr" and x.get("callee") == LOCK:
                a = call_args(x)[0]
                cur.add((lock_class(a), lock_obj(a)))
            elif x["k"] == "CallExpr" and x.get("callee") == UNLOCK:
                a = call_args(x)[0]
                cur.discard((lock_class(a), lock_obj(a)))
        return cur

    for bid, st in IN.items():
        B = f.blocks[bid]
        for r in B.roots:
            grafts = [n for n in walk(r) if n.get("inl") is not None]
            if grafts:
                cur = set(st)
                # the root's own nodes first (state before the root), then each grafted body in evaluation order
                done = set()
                for g_ in grafts:
                    if g_["id"] in done:
                        continue
                    for x in walk(g_["inl"]):
                        done.add(x["id"])
                    cur = inside(g_["inl"], cur)
            for n in walk(r):
                at.setdefault(n["id"], st)
            st = apply(r, st)
    return at, OUT
