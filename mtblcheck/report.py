"""Obligations, verdicts, known findings, evidence."""
import json, os, time, sys
from .facts import BrokenAnalysis, VERIF

KNOWN = os.path.join(VERIF, "known_findings.json")
# selftest runs against scratch copies must not touch the real evidence / reports
OUT = os.path.join(VERIF, ".scratch") if os.environ.get("VERIF_SELFTEST") else VERIF


class Result:
    def __init__(self, prop, tier):
        self.prop = prop
        self.tier = tier
        self.obs = []          # (rule, site, ok, how)
        self.viol = []         # dicts
        self.floors = {}       # rule -> minimum number of obligations
        self.notes = []
        self.analysed = {"functions": set(), "units": set()}
        self.tables = {}
        self.assumptions = []
        self.trusted = []
        self.undecided_ = []   # (rule, message): a rule that could not decide; fatal only when nothing else reports a violation

    def undecided(self, rule, msg):
        self.undecided_.append((rule, msg))

    def floor(self, rule, n):
        self.floors[rule] = max(n, self.floors.get(rule, 0))

    def saw(self, f):
        self.analysed["functions"].add("%s:%s" % (f.unit, f.name))
        self.analysed["units"].add(f.unit)

    def ok(self, rule, site, how):
        self.obs.append((rule, site, True, how))

    def bad(self, rule, site, what, loc=None, detail=None):
        """site: stable signature (function + construct, no line numbers)."""
        self.obs.append((rule, site, False, what))
        self.viol.append({"property": self.prop, "rule": rule, "site": site, "what": what,
                          "loc": loc, "detail": detail})

    def check(self, cond, rule, site, how, what=None, loc=None, detail=None):
        if cond:
            self.ok(rule, site, how)
        else:
            self.bad(rule, site, what or ("not: " + how), loc, detail)
        return cond


def load_known():
    if not os.path.exists(KNOWN):
        return []
    return json.load(open(KNOWN)).get("findings", [])


def finish(res, t0, explanation, design_ref, complete_clauses=()):
    """Apply floors and known findings, write evidence and reports, return exit code."""
    prop = res.prop
    counts = {}
    for rule, site, ok, how in res.obs:
        counts[rule] = counts.get(rule, 0) + 1
    short = ["rule %s matched %d instance(s), floor is %d (anchor vanished or rule blind)" % (rule, counts.get(rule, 0), n)
             for rule, n in res.floors.items() if counts.get(rule, 0) < n]
    if short and not res.viol:
        # a floor guards *passes* against vacuity; a reported violation stands on its own
        raise BrokenAnalysis("; ".join(short))
    res.notes += short
    if res.undecided_ and not res.viol:
        # some rule could not decide and no other rule reports anything: the check as a whole has no verdict
        raise BrokenAnalysis("; ".join("%s: %s" % u for u in res.undecided_[:3]))
    for rule_, msg_ in res.undecided_:
        print("UNDECIDED rule %s: %s" % (rule_, msg_[:300]))
        res.notes.append("undecided %s: %s" % (rule_, msg_))
    known = [k for k in load_known() if k.get("property") == prop]
    real = []
    printed = set()
    for v in res.viol:
        hit = None
        for k in known:
            if k.get("status") == "known" and k.get("rule") == v["rule"] and k.get("site") == v["site"]:
                hit = k
                break
        if hit:
            key = (v["rule"], v["site"])
            if key not in printed:
                printed.add(key)
                print("KNOWN-FINDING: property=%s rule=%s site=%s %s" % (prop, v["rule"], v["site"], hit.get("what", v["what"])))
        else:
            real.append(v)
    rdir = os.path.join(OUT, "reports", prop)
    os.makedirs(rdir, exist_ok=True)
    for fn in os.listdir(rdir):
        try:
            os.unlink(os.path.join(rdir, fn))
        except OSError:
            pass
    # one report per (rule, site): further paths through the same construct are counted, not repeated
    grouped = {}
    for v in real:
        k = (v["rule"], v["site"])
        if k in grouped:
            grouped[k]["paths"] += 1
        else:
            v["paths"] = 1
            grouped[k] = v
    real = list(grouped.values())
    for i, v in enumerate(real):
        p = os.path.join(rdir, "%d.json" % i)
        json.dump(v, open(p, "w"), indent=1, default=str)
        print("VIOLATION property=%s replay=%s" % (prop, p))
        print("  rule %s at %s (%s)%s: %s" % (v["rule"], v.get("loc"), v["site"],
                                            " on %d paths" % v["paths"] if v["paths"] > 1 else "", v["what"]))
    nobs = len(res.obs)
    ndis = sum(1 for o in res.obs if o[2])
    samples = []
    seen_rules = set()
    for rule, site, ok, how in res.obs:
        if rule not in seen_rules or not ok:
            seen_rules.add(rule)
            samples.append({"rule": rule, "site": site, "discharged": ok, "how": how})
    per_rule = {}
    for rule, site, ok, how in res.obs:
        d = per_rule.setdefault(rule, {"obligations": 0, "discharged": 0, "floor": res.floors.get(rule, 0)})
        d["obligations"] += 1
        d["discharged"] += 1 if ok else 0
    ev = {
        "property_id": prop,
        "tier": res.tier,
        "seed": int(os.environ.get("VERIF_SEED", "0") or 0),
        "level": "other",
        "coverage": {
            "explanation": explanation,
            "design_ref": design_ref,
            "obligations": nobs,
            "discharged": ndis,
            "evaluations": nobs,
            "distinct_nontrivial": len(set((o[0], o[1]) for o in res.obs)),
            "rule": "one obligation per (rule, resolved site); a site is a function/construct signature, "
                    "distinct = different (rule, site) pairs; floors = hand-confirmed minimum instances per rule",
            "per_rule": per_rule,
            "samples": samples[:60],
            "functions_analysed": sorted(res.analysed["functions"]),
            "units_analysed": sorted(res.analysed["units"]),
            "tables": res.tables,
            "complete_clauses": list(complete_clauses),
            "known_findings_suppressed": sorted("%s %s" % k for k in printed),
            "checker_cmd": "./check %s --tier %s" % (prop, res.tier),
            "trusted_base": ["clang 14 front end (AST, CFG, constant evaluation)", "tool/mtblx.cc",
                             "mtblcheck/*.py", "spec/*.json oracle tables"] + res.trusted,
            "notes": res.notes,
            "exhaustive": False,
        },
        "assumptions": res.assumptions,
        "wall_s": round(time.time() - t0, 3),
        "violations": len(real),
    }
    os.makedirs(os.path.join(OUT, "evidence"), exist_ok=True)
    json.dump(ev, open(os.path.join(OUT, "evidence", prop + ".json"), "w"), indent=1, default=str)
    print("%s: %d obligations, %d discharged, %d violation(s), %d known finding(s) [%s tier, %.1fs]"
          % (prop, nobs, ndis, len(real), len(printed), res.tier, time.time() - t0))
    return 1 if real else 0
