"""Facts loader: runs the extractor over the compilation database and wraps the
per-unit JSON into Program / Func / Block objects with tree helpers."""
import json, os, subprocess, sys, shutil, time
from concurrent.futures import ThreadPoolExecutor

HERE = os.path.dirname(os.path.abspath(__file__))
VERIF = os.path.dirname(HERE)
sys.path.insert(0, os.path.join(VERIF, "tool"))
import compdb  # noqa: E402
from compdb import BrokenAnalysis  # noqa: E402


class BudgetExceeded(BaseException):
    """The whole check ran out of its time budget: never caught by a rule (a rule that catches BrokenAnalysis to go on with its
    next scenario must not swallow this)."""


MTBLX = os.path.join(VERIF, "tool", "mtblx")
FACTS_ROOT = os.path.join(VERIF, ".facts")

TRANSPARENT = ("ParenExpr", "ImplicitCastExpr", "CStyleCastExpr", "ConstantExpr")
LOGICAL = ("&&", "||")


# --------------------------------------------------------------------------
# tree helpers (nodes are plain dicts)

def same_node(event_node, n):
    """Does a path event's node denote AST node n?  n may be a node of a helper body grafted into its caller."""
    return event_node is not None and (event_node["id"] == n["id"] or ("oid" in n and event_node["id"] == n["oid"] and
                                                                   event_node.get("line") == n.get("line")))


def real_site(prog, f, node):
    """(function, node) in whose own tree and flow graph `node` lives: f itself, or - when node belongs to a helper body
    grafted onto a call in f - the helper and the node of its own tree."""
    if "oid" not in node:
        return f, node
    host = None
    for c in walk(f.body):
        if c.get("k") == "CallExpr" and "inl" in c and any(x is node or x.get("id") == node["id"] for x in walk(c["inl"])):
            host = c          # keeps the innermost: walk visits outer calls first
    if host is None:
        return f, node
    g = prog.helper(host.get("callee"), f.unit)
    if g is None:
        return f, node
    for x in walk(g.body):
        if x.get("id") == node["oid"] and x.get("k") == node.get("k") and x.get("line") == node.get("line"):
            return g, x
    return f, node


def kids(n):
    """All syntactic children of a node, in source order."""
    out = []
    k = n.get("k")
    if k == "DeclStmt":
        for d in n.get("decls", []):
            if d.get("init") is not None:
                out.append(d["init"])
        return out
    for key in ("init", "cond", "inc", "then", "else", "body"):
        v = n.get(key)
        if isinstance(v, dict):
            out.append(v)
    if k == "DoStmt":
        out = [n["body"], n["cond"]] if n.get("cond") else [n["body"]]
    out += [c for c in n.get("kids", []) if c is not None]
    return out


def walk(n):
    """Preorder over the whole subtree."""
    if n is None:
        return
    stack = [n]
    while stack:
        x = stack.pop()
        yield x
        ks = kids(x)
        if x.get("inl") is not None:
            ks = ks + [x["inl"]]      # body of an unknown static helper grafted at its call (see graft_helpers)
        stack.extend(reversed(ks))


def strip(n):
    while n is not None and n.get("k") in TRANSPARENT and n.get("kids"):
        n = n["kids"][0]
    return n


def is_call(n, name=None):
    n = strip(n)
    if n is None or n.get("k") != "CallExpr":
        return False
    if name is None:
        return True
    if isinstance(name, (set, frozenset, list, tuple)):
        return n.get("callee") in name
    return n.get("callee") == name


def call_args(n):
    n = strip(n)
    return n["kids"][1:]


def call_target(n):
    """Direct callee name, or ('indirect', canon of callee expression)."""
    n = strip(n)
    if n.get("callee"):
        return n["callee"]
    return None


def const_val(n):
    n0 = n
    if n0 is None:
        return None
    if "val" in n0:
        return n0["val"]
    n = strip(n0)
    if n is not None and "val" in n:
        return n["val"]
    return None


def is_null(n):
    s = strip(n)
    if n.get("null") or (s is not None and s.get("null")):
        return True
    v = const_val(n)
    return v == 0 and (s.get("k") in ("IntegerLiteral",) or (s.get("t", "").endswith("*")))


def canon(n, ver=None):
    """Canonical string of an expression: casts/parens removed, constants folded.
    `ver` optionally maps a variable key to a version suffix."""
    n = strip(n)
    if n is None:
        return "?"
    k = n["k"]
    if "val" in n and k not in ("DeclRefExpr",):
        return "#%d" % n["val"]
    if k == "DeclRefExpr":
        dk = n.get("dk")
        if dk == "enumconst":
            return n["name"]
        if dk == "local" or dk == "slocal":
            s = "%s" % n["name"]
        elif dk == "param":
            s = n["name"]
        else:
            s = n["name"]
        if ver is not None:
            v = ver.get(s)
            if v:
                s += "@%d" % v
        return s
    if k == "MemberExpr":
        return canon(n["kids"][0], ver) + ("->" if n.get("arrow") else ".") + n["field"]
    if k == "CallExpr":
        ks = n["kids"]
        cal = n.get("callee") or ("(*" + canon(ks[0], ver) + ")")
        return cal + "(" + ",".join(canon(a, ver) for a in ks[1:]) + ")"
    if k == "BinaryOperator" or k == "CompoundAssignOperator":
        return "(" + canon(n["kids"][0], ver) + n.get("op", "?") + canon(n["kids"][1], ver) + ")"
    if k == "UnaryOperator":
        if n["op"] == "__extension__":
            return canon(n["kids"][0], ver)
        if n["op"] in ("++", "--") and not n.get("prefix", True):
            return canon(n["kids"][0], ver) + n["op"]
        return n["op"] + canon(n["kids"][0], ver)
    if k == "ArraySubscriptExpr":
        return canon(n["kids"][0], ver) + "[" + canon(n["kids"][1], ver) + "]"
    if k == "ConditionalOperator":
        return "(" + canon(n["kids"][0], ver) + "?" + canon(n["kids"][1], ver) + ":" + canon(n["kids"][2], ver) + ")"
    if k == "StringLiteral":
        return json.dumps(n.get("str", ""))
    if k == "IntegerLiteral":
        return "#%d" % n.get("val", 0)
    if k == "UnaryExprOrTypeTraitExpr":
        return "sizeof(%s)" % n.get("argt", n.get("t"))
    if k == "StmtExpr":
        return "({...})"
    return k + "(" + ",".join(canon(c, ver) for c in kids(n)) + ")"


def base_decl(n):
    """The declaration at the root of an lvalue/pointer expression:
    ('param', idx, name) | ('local', lid, name) | ('global', name) | ('call', callee) | None"""
    n = strip(n)
    while n is not None:
        k = n["k"]
        if k == "DeclRefExpr":
            dk = n.get("dk")
            if dk == "param":
                return ("param", n["idx"], n["name"])
            if dk in ("local", "slocal"):
                return ("local", n["lid"], n["name"])
            if dk == "global":
                return ("global", n["name"])
            if dk == "func":
                return ("func", n["name"])
            return None
        if k in ("MemberExpr", "ArraySubscriptExpr"):
            n = strip(n["kids"][0])
            continue
        if k == "UnaryOperator" and n.get("op") in ("*", "&", "++", "--"):
            n = strip(n["kids"][0])
            continue
        if k == "BinaryOperator" and n.get("op") in ("+", "-"):
            # pointer arithmetic: follow the pointer operand
            a, b = n["kids"]
            if strip(a).get("t", "").endswith("*") or "*" in strip(a).get("t", ""):
                n = strip(a)
            else:
                n = strip(b)
            continue
        if k == "CallExpr":
            return ("call", n.get("callee"))
        return None
    return None


def fields_in(n):
    """All (rec, field) member accesses in a subtree."""
    return [(x.get("rec"), x["field"]) for x in walk(n) if x["k"] == "MemberExpr"]


def member_chain(n):
    """For an lvalue expression return the list of field names from the base
    outwards, e.g. w->m.count_entries -> ['m', 'count_entries']; (*w)->closed -> ['closed']"""
    out = []
    n = strip(n)
    while n is not None:
        k = n["k"]
        if k == "MemberExpr":
            out.append(n["field"])
            n = strip(n["kids"][0])
        elif k == "UnaryOperator" and n.get("op") in ("*", "&"):
            n = strip(n["kids"][0])
        elif k == "ArraySubscriptExpr":
            out.append("[]")
            n = strip(n["kids"][0])
        else:
            break
    return list(reversed(out))


# --------------------------------------------------------------------------

def var_roles(fd):
    """{'params': [names by index], 'locals': {'<ctype>#<ordinal>': name}} of a function record."""
    params = [p["name"] for p in fd["params"]]
    decls = {}
    for n in walk(fd["body"]):
        if n["k"] == "DeclStmt":
            for d in n["decls"]:
                decls.setdefault(d["lid"], (d.get("ct", d["t"]), d["name"]))
    count = {}
    locs = {}
    for lid in sorted(decls):
        ct, nm = decls[lid]
        k = count.get(ct, 0)
        count[ct] = k + 1
        locs["%s#%d" % (ct, k)] = nm
    return {"params": params, "locals": locs}


def _load_names():
    p = os.path.join(VERIF, "spec", "t_names.json")
    if os.path.exists(p):
        return json.load(open(p))
    return {}


NAMES = None


def normalise_names(fd, unit):
    """Rename parameters/locals of a function back to the reference names of spec/t_names.json (by role)."""
    global NAMES
    if NAMES is None:
        NAMES = _load_names()
    ref = NAMES.get("%s:%s" % (unit, fd["name"]))
    if not ref:
        return
    cur = var_roles(fd)
    ren_p = {}
    if len(cur["params"]) == len(ref["params"]):
        for i, (a, b) in enumerate(zip(cur["params"], ref["params"])):
            if a != b:
                ren_p[i] = b
    # locals by role; only when the multiset of roles is unchanged (otherwise declarations were added/removed)
    ren_l = {}
    if set(cur["locals"]) == set(ref["locals"]):
        decls = {}
        for n in walk(fd["body"]):
            if n["k"] == "DeclStmt":
                for d in n["decls"]:
                    decls.setdefault(d["lid"], d)
        count = {}
        for lid in sorted(decls):
            d = decls[lid]
            ct = d.get("ct", d["t"])
            k = count.get(ct, 0)
            count[ct] = k + 1
            want = ref["locals"]["%s#%d" % (ct, k)]
            if d["name"] != want:
                ren_l[lid] = want
    if not ren_p and not ren_l:
        return
    # a renaming must not collide with another variable's name
    taken = set(cur["params"]) | set(cur["locals"].values())
    for i, b in ren_p.items():
        fd["params"][i]["name"] = b
    for n in walk(fd["body"]):
        if n["k"] == "DeclRefExpr":
            if n.get("dk") == "param" and n.get("idx") in ren_p:
                n["name"] = ren_p[n["idx"]]
            elif n.get("dk") in ("local", "slocal") and n.get("lid") in ren_l:
                n["name"] = ren_l[n["lid"]]
        elif n["k"] == "DeclStmt":
            for d in n["decls"]:
                if d["lid"] in ren_l:
                    d["name"] = ren_l[d["lid"]]
    fd["renamed"] = True


class Block:
    __slots__ = ("_callfree", "id", "elems", "roots", "term", "termk", "rawcond", "cond", "succs", "psuccs",
                 "noreturn", "label", "labelk", "preds")

    def __repr__(self):
        return "B%d" % self.id


class Func:
    def __init__(self, d, unit):
        self.d = d
        self.unit = unit
        self.name = d["name"]
        self.file = d["file"]
        self.line = d["line"]
        self.static = d["static"]
        self.attrs = d.get("attrs", [])
        self.params = d["params"]
        self.body = d["body"]
        self.nodes = {}
        self.parent = {}
        for n in walk(self.body):
            self.nodes[n["id"]] = n
            for c in kids(n):
                self.parent[c["id"]] = n["id"]
            if n.get("inl") is not None:
                self.parent[n["inl"]["id"]] = n["id"]
        self.helper = bool(d.get("helper"))
        self.blocks = {}
        cfg = d.get("cfg")
        self.entry = cfg["entry"]
        self.exit = cfg["exit"]
        for b in cfg["blocks"]:
            B = Block()
            B.id = b["id"]
            B.elems = [self.nodes[i] for i in b["elems"] if i in self.nodes]
            B.term = self.nodes.get(b.get("term")) if b.get("term") is not None else None
            B.termk = b.get("termk")
            B.rawcond = self.nodes.get(b.get("cond")) if b.get("cond") is not None else None
            B.cond = self._effective_cond(B.rawcond)
            B.noreturn = b.get("noreturn", False)
            B.succs = [] if B.noreturn else list(b["succs"])
            B.psuccs = b["psuccs"]
            B.label = self.nodes.get(b.get("label")) if b.get("label") is not None else None
            B.labelk = b.get("labelk")
            B.preds = []
            # root elements: not contained in another element of the same block
            ids = set(e["id"] for e in B.elems)
            roots = []
            for e in B.elems:
                p = self.parent.get(e["id"])
                inside = False
                while p is not None:
                    if p in ids:
                        inside = True
                        break
                    p = self.parent.get(p)
                if not inside:
                    roots.append(e)
            B.roots = roots
            self.blocks[B.id] = B
        for B in self.blocks.values():
            for s in B.succs:
                if s is not None:
                    self.blocks[s].preds.append(B.id)

    @staticmethod
    def _effective_cond(c):
        while c is not None:
            s = strip(c)
            if s["k"] == "BinaryOperator" and s.get("op") in LOGICAL:
                c = s["kids"][1]
                continue
            return c
        return None

    def loc(self, n):
        return "%s:%d" % (self.file, (n or {}).get("line", self.line))

    def calls(self, name=None):
        return [n for n in walk(self.body) if n["k"] == "CallExpr" and (name is None or n.get("callee") == name
                or (isinstance(name, (set, frozenset, tuple, list)) and n.get("callee") in name))]

    def block_of(self, node):
        """Block whose element list contains node (or its closest enclosing element)."""
        nid = node["id"]
        cache = getattr(self, "_elem_block", None)
        if cache is None:
            cache = {}
            for B in self.blocks.values():
                for e in B.elems:
                    cache.setdefault(e["id"], B.id)
            self._elem_block = cache
        while nid is not None:
            if nid in cache:
                return self.blocks[cache[nid]]
            nid = self.parent.get(nid)
        return None

    def macros(self, n):
        """Macro expansion stack at the start of a node (innermost first)."""
        if "macro" in n:
            return n["macro"]
        for a in self.ancestors(n):
            if "macro" in a:
                return a["macro"]
        return []

    def ancestors(self, n):
        p = self.parent.get(n["id"])
        while p is not None:
            yield self.nodes[p]
            p = self.parent.get(p)


def eval_nodes(root):
    """Nodes evaluated as part of one CFG root element, post-order (operands
    before operators).  Operands of && || ?: and the body of a statement
    expression live in other blocks and are not entered."""
    out = []

    def rec(n):
        k = n["k"]
        if k in ("BinaryOperator",) and n.get("op") in LOGICAL:
            out.append(n)
            return
        if k in ("ConditionalOperator", "BinaryConditionalOperator", "StmtExpr"):
            out.append(n)
            return
        for c in kids(n):
            rec(c)
        out.append(n)

    rec(root)
    return out


_KNOWN = None


def known_functions():
    global _KNOWN
    if _KNOWN is None:
        p = os.path.join(VERIF, "spec", "t_known_funcs.json")
        _KNOWN = set(json.load(open(p))["functions"]) if os.path.exists(p) else None
    return _KNOWN


def _simple_arg(n):
    """An argument expression that may be substituted for a parameter: no calls, no side effects."""
    for x in walk(n):
        k = x.get("k")
        if k in ("CallExpr", "CompoundAssignOperator", "StmtExpr", "ConditionalOperator"):
            return False
        if k == "BinaryOperator" and x.get("op") in ("=", ","):
            return False
        if k == "UnaryOperator" and x.get("op") in ("++", "--"):
            return False
    return True


def _clone(n, off, subst, suffix, lidoff):
    if n is None:
        return None
    if isinstance(n, list):
        return [_clone(x, off, subst, suffix, lidoff) for x in n]
    if not isinstance(n, dict):
        return n
    if n.get("k") == "DeclRefExpr" and n.get("dk") == "param" and n.get("name") in subst:
        rep = subst[n["name"]]
        if rep is not None:
            c = json.loads(json.dumps(rep))
            # fresh ids for the copied argument expression
            for x in walk(c):
                x["id"] = x["id"] + off + 500000
            return {"k": "ParenExpr", "id": n["id"] + off, "line": n.get("line"), "col": n.get("col"), "t": n.get("t"), "ct": n.get("ct"), "kids": [c]} \
                if "ct" in n else {"k": "ParenExpr", "id": n["id"] + off, "line": n.get("line"), "col": n.get("col"), "t": n.get("t"), "kids": [c]}
    out = {}
    for k, v in n.items():
        if k == "id":
            out[k] = v + off
            out["oid"] = n.get("oid", v)      # id of the node in the helper's own tree (path events refer to that one)
        elif k in ("kids", "decls"):
            out[k] = [_clone(x, off, subst, suffix, lidoff) for x in v]
        elif k in ("init", "cond", "inc", "then", "else", "body", "inl") and isinstance(v, dict):
            out[k] = _clone(v, off, subst, suffix, lidoff)
        else:
            out[k] = v
    if out.get("k") == "DeclRefExpr" and out.get("dk") in ("local", "slocal", "param"):
        out["name"] = out["name"] + suffix
        if out.get("dk") == "param":
            out["dk"] = "local"
            out["lid"] = lidoff + 900 + out.get("idx", 0)
        elif "lid" in out:
            out["lid"] = out["lid"] + lidoff
    if "name" in out and "k" not in out and "lid" in out:      # a declaration inside a DeclStmt
        out["name"] = out["name"] + suffix
        out["lid"] = out["lid"] + lidoff
    return out


def graft_helpers(fds, depth=3):
    """Unknown static helpers are transparent.  A static function defined in a .c file whose name is not in
    spec/t_known_funcs.json was extracted by a refactoring after the rules were written.  Its body is grafted (key
    "inl") onto every call of it, with simple arguments substituted for its parameters and its locals renamed, so that
    every rule that walks a function's tree sees the helper's stores and calls as the caller's own.  The helper itself is
    marked and no longer listed as a function of its unit."""
    known = known_functions()
    if known is None:
        return
    byname = {fd["name"]: fd for fd in fds}
    helpers = set(fd["name"] for fd in fds if fd.get("static") and fd.get("file", "").endswith(".c") and fd["name"] not in known
                  and fd.get("body") is not None)
    if not helpers:
        return
    for fd in fds:
        if fd["name"] in helpers:
            fd["helper"] = True
    counter = [0]

    def graft(body, stack):
        maxid = max((x["id"] for x in walk(body)), default=0)
        for n in list(walk(body)):
            if n.get("k") == "CallExpr" and n.get("callee") in helpers and n.get("inl") is None and n["callee"] not in stack and len(stack) < depth:
                g = byname[n["callee"]]
                counter[0] += 1
                off = (maxid + 1) + counter[0] * 1000000
                args = n["kids"][1:]
                stored = set()
                for x in walk(g["body"]):
                    if x.get("k") in ("BinaryOperator", "CompoundAssignOperator") and x.get("op", "").endswith("=") and x.get("op") not in ("==", "!=", "<=", ">="):
                        l = strip(x["kids"][0])
                        if l is not None and l.get("k") == "DeclRefExpr" and l.get("dk") == "param":
                            stored.add(l["name"])
                    if x.get("k") == "UnaryOperator" and x.get("op") in ("++", "--"):
                        l = strip(x["kids"][0])
                        if l is not None and l.get("k") == "DeclRefExpr" and l.get("dk") == "param":
                            stored.add(l["name"])
                subst = {}
                for i, prm in enumerate(g["params"]):
                    if i < len(args) and prm["name"] not in stored and _simple_arg(args[i]):
                        subst[prm["name"]] = args[i]
                    else:
                        subst[prm["name"]] = None
                inl = _clone(g["body"], off, subst, "__" + g["name"], counter[0] * 1000)
                graft(inl, stack + [n["callee"]])
                n["inl"] = inl
                n["inl_params"] = [p["name"] for p in g["params"]]

    for fd in fds:
        if fd.get("body") is not None:
            graft(fd["body"], [fd["name"]])


class Program:
    def __init__(self, repo, lib_units, tool_units, facts_dir, flags):
        self.repo = repo
        self.lib_units = lib_units
        self.tool_units = tool_units
        self.flags = flags
        self.units = {}
        self.funcs = {}      # (unit, name) -> Func
        self.by_name = {}    # name -> [Func] (distinct definitions by file:line)
        self.records = {}    # (unit, name) -> record dict
        self.enums = {}      # name -> {const: val}
        self.globals = {}    # (unit, name) -> dict
        self.decls = {}      # name -> decl dict
        for u in lib_units + tool_units:
            p = os.path.join(facts_dir, u.replace("/", "__") + ".json")
            d = json.load(open(p))
            self.units[u] = d
            for r in d["records"]:
                self.records[(u, r["name"])] = r
            for e in d["enums"]:
                self.enums.setdefault(e["name"], {c["name"]: c["val"] for c in e["consts"]})
            for g in d["globals"]:
                self.globals[(u, g["name"])] = g
            for dc in d["decls"]:
                self.decls.setdefault(dc["name"], dc)
            graft_helpers(d["functions"])
            for fd in d["functions"]:
                normalise_names(fd, u)
                f = Func(fd, u)
                self.funcs[(u, f.name)] = f
                lst = self.by_name.setdefault(f.name, [])
                if not any(g.file == f.file and g.line == f.line for g in lst):
                    lst.append(f)

    def func(self, name, unit=None):
        if unit is not None:
            f = self.funcs.get((unit, name))
            if f is not None:
                return f
        lst = self.by_name.get(name, [])
        if unit is None and len(lst) > 1:
            # prefer a non-static definition
            ns = [f for f in lst if not f.static]
            if len(ns) == 1:
                return ns[0]
        return lst[0] if lst else None

    def need(self, name, unit=None):
        f = self.func(name, unit)
        if f is None:
            raise BrokenAnalysis("anchor function %s%s not found" % (name, " in " + unit if unit else ""))
        return f

    def record(self, name, unit=None):
        if unit is not None and (unit, name) in self.records:
            return self.records[(unit, name)]
        for (u, n), r in self.records.items():
            if n == name:
                return r
        return None

    def unit_funcs(self, unit, helpers=False):
        """Functions of a unit.  Unknown static helpers (see graft_helpers) are analysed as part of their callers and
        are listed only on request."""
        return [f for (u, n), f in self.funcs.items() if u == unit and (helpers or not f.helper)]

    def helper(self, name, unit):
        f = self.funcs.get((unit, name))
        return f if f is not None and f.helper else None

    def lib_funcs(self):
        """Distinct function definitions of the library (one per file:line)."""
        seen = set()
        out = []
        for u in self.lib_units:
            for f in self.unit_funcs(u):
                key = (f.file, f.line, f.name)
                if u in ("mtbl/merger.c", "mtbl/sorter.c", "libmy/my_fileset.c", "libmy/heap.c",
                         "mtbl/block_builder.c") or True:
                    # VECTOR_GENERATE instances differ per unit although they share a macro line
                    key = (f.file, f.line, f.name)
                if key in seen:
                    continue
                seen.add(key)
                out.append(f)
        return out


def extract(repo=None, with_tools=True, extra_flags=(), tag=""):
    """Run the extractor on every unit of the build (cached by content hash)."""
    repo = repo or compdb.REPO
    compdb.REPO = repo
    lib, tools = compdb.units()
    flags = compdb.flags() + list(extra_flags)
    if not os.path.exists(MTBLX):
        raise BrokenAnalysis("extractor not built: run `make -C /verif`")
    h = compdb.source_hash(extra=flags + [os.path.getmtime(MTBLX), repo])
    d = os.path.join(FACTS_ROOT, h + tag)
    units = lib + (tools if with_tools else [])
    os.makedirs(FACTS_ROOT, exist_ok=True)
    lock = None
    if not os.path.exists(os.path.join(d, "OK")):
        # one extraction at a time: concurrent checks of the same tree wait here and then find the finished set
        import fcntl
        lock = open(os.path.join(FACTS_ROOT, ".lock"), "w")
        fcntl.flock(lock, fcntl.LOCK_EX)
    try:
        return _extract_locked(repo, lib, tools, with_tools, flags, d)
    finally:
        if lock is not None:
            lock.close()


def _mtime(p):
    try:
        return os.path.getmtime(p)
    except OSError:
        return 0.0


def _extract_locked(repo, lib, tools, with_tools, flags, d):
    if os.path.exists(os.path.join(d, "OK")):
        try:
            os.utime(d, None)       # mark as in use: pruning only removes sets untouched for a long time
        except OSError:
            pass
    if not os.path.exists(os.path.join(d, "OK")):
        if os.path.isdir(FACTS_ROOT):
            # keep the cache small: drop fact sets nobody touched for 30 minutes, beyond the newest six
            olds = sorted((os.path.join(FACTS_ROOT, x) for x in os.listdir(FACTS_ROOT) if x not in ("pos", ".lock")), key=_mtime)
            now = time.time()
            olds = [o for o in olds if now - _mtime(o) > 1800]
            for o in olds[:-6]:
                shutil.rmtree(o, ignore_errors=True)
        final = d
        d = final + ".tmp.%d" % os.getpid()
        shutil.rmtree(d, ignore_errors=True)
        os.makedirs(d, exist_ok=True)

        def one(u):
            out = os.path.join(d, u.replace("/", "__") + ".json")
            p = subprocess.run([MTBLX, os.path.join(repo, u), "-o", out, "--"] + flags,
                               capture_output=True, text=True, cwd=repo)
            return u, p.returncode, p.stderr

        with ThreadPoolExecutor(max_workers=16) as ex:
            res = list(ex.map(one, lib + tools))
        bad = [(u, e) for u, rc, e in res if rc != 0]
        if bad:
            shutil.rmtree(d, ignore_errors=True)
            raise BrokenAnalysis("units do not parse: " + "; ".join("%s: %s" % (u, e.strip()[-300:]) for u, e in bad))
        open(os.path.join(d, "OK"), "w").write(time.ctime())
        # publish atomically: concurrent checks either see the complete directory or build their own
        try:
            os.rename(d, final)
        except OSError:
            shutil.rmtree(d, ignore_errors=True)
        d = final
    return Program(repo, lib, tools if with_tools else [], d, flags)


def extract_file(path, flags=("-std=gnu17",)):
    """Run the extractor on one stand-alone file (positive examples); returns its Funcs."""
    d = os.path.join(FACTS_ROOT, "pos")
    os.makedirs(d, exist_ok=True)
    out = os.path.join(d, os.path.basename(path) + ".json")
    if not os.path.exists(out) or os.path.getmtime(out) < max(os.path.getmtime(path), os.path.getmtime(MTBLX)):
        p = subprocess.run([MTBLX, path, "-o", out, "--"] + list(flags), capture_output=True, text=True)
        if p.returncode != 0:
            raise BrokenAnalysis("positive example %s does not parse: %s" % (path, p.stderr[-300:]))
    dd = json.load(open(out))
    return [Func(fd, "pos/" + os.path.basename(path)) for fd in dd["functions"]]
