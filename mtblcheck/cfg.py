"""CFG utilities: dominators, post-dominators, reachability, generic dataflow."""
from .facts import walk, strip, kids


def succs(f, bid):
    return [s for s in f.blocks[bid].succs if s is not None]


def rpo(f):
    seen, order = set(), []

    def dfs(b):
        stack = [(b, iter(succs(f, b)))]
        seen.add(b)
        while stack:
            x, it = stack[-1]
            adv = False
            for s in it:
                if s not in seen:
                    seen.add(s)
                    stack.append((s, iter(succs(f, s))))
                    adv = True
                    break
            if not adv:
                order.append(x)
                stack.pop()

    dfs(f.entry)
    order.reverse()
    return order


def dominators(f):
    """dom[b] = set of blocks dominating b (including b); only reachable blocks."""
    order = rpo(f)
    allb = set(order)
    dom = {b: set(allb) for b in order}
    dom[f.entry] = {f.entry}
    changed = True
    preds = {b: [p for p in f.blocks[b].preds if p in allb] for b in order}
    while changed:
        changed = False
        for b in order:
            if b == f.entry:
                continue
            ps = preds[b]
            new = set(allb)
            for p in ps:
                new &= dom[p]
            new = new | {b}
            if new != dom[b]:
                dom[b] = new
                changed = True
    return dom


def reachable_from(f, start, avoid=()):
    """Blocks reachable from start (inclusive) without passing through `avoid`."""
    avoid = set(avoid)
    seen = set()
    stack = [start]
    while stack:
        b = stack.pop()
        if b in seen or b in avoid:
            continue
        seen.add(b)
        stack.extend(succs(f, b))
    return seen


def normal_exit_reachable(f, start, avoid=()):
    return f.exit in reachable_from(f, start, avoid)


def back_edges(f):
    dom = dominators(f)
    out = set()
    for b in dom:
        for s in succs(f, b):
            if s in dom.get(b, ()):
                out.add((b, s))
    return out


def natural_loops(f):
    """header -> set of blocks of the natural loop(s) with that header (header included)."""
    out = {}
    for t, h in back_edges(f):
        body = out.setdefault(h, {h})
        stack = [t]
        while stack:
            b = stack.pop()
            if b in body:
                continue
            body.add(b)
            stack.extend(p for p in f.blocks[b].preds)
    return out


def forward(f, init, transfer, join, bottom=None, edge_transfer=None):
    """Generic forward dataflow.  transfer(block, state) -> state;
    edge_transfer(block, succ_index, state) -> state or None (edge infeasible);
    join(a, b) -> state.  Returns (IN, OUT) dicts."""
    order = rpo(f)
    IN = {f.entry: init}
    OUT = {}
    work = list(order)
    inwork = set(work)
    pos = {b: i for i, b in enumerate(order)}
    while work:
        work.sort(key=lambda b: pos.get(b, 0), reverse=True)
        b = work.pop()
        inwork.discard(b)
        if b not in IN:
            continue
        out = transfer(f.blocks[b], IN[b])
        OUT[b] = out
        B = f.blocks[b]
        for i, s in enumerate(B.succs):
            if s is None:
                continue
            st = out
            if edge_transfer is not None:
                st = edge_transfer(B, i, out)
                if st is None:
                    continue
            if s not in IN:
                IN[s] = st
                new = True
            else:
                j = join(IN[s], st)
                new = j != IN[s]
                IN[s] = j
            if new and s not in inwork:
                work.append(s)
                inwork.add(s)
    return IN, OUT


def block_index(f):
    """node id -> (block id, position of the enclosing root element)"""
    idx = {}
    for B in f.blocks.values():
        for i, r in enumerate(B.roots):
            for n in walk(r):
                idx.setdefault(n["id"], (B.id, i))
    return idx
