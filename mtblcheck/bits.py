"""Bit-provenance abstract interpretation (used by C16).

Abstract domain.  Every integer value is a vector of bits, least significant first, each of
which is one of

    0 / 1                  a known constant,
    ('v', p, i)            bit i of the integer parameter number p of the analysed entry point,
    ('d', b, o, j)         bit j of the byte at offset o of the buffer named b (a pointer parameter),
    ('!', s)               the negation of symbol s,
    None                   unknown (top).

Pointers are (base, constant offset).  No concrete input value is ever chosen and nothing is
handed to a solver: the operators below are the transfer functions of the domain (shifts and
casts move provenance, & | ^ ~ combine it bitwise, + - * / % are exact only where no carry can
occur or an operand is a power of two, otherwise they produce top).

Trace partitioning.  A comparison whose outcome the known bits do not decide splits the trace;
each side is refined by what the comparison implies about the bits: `x < 2^k` means "bits >= k
are 0", its negation "some bit >= k is 1" (kept as a disjunctive fact), `x == 0` / `x != 0`
likewise; a comparison against a constant that is not a power of two is split exactly into its
per-bit cases.  Every input value therefore lies on exactly one trace, and what is proved for a
trace holds for every value of its class.

The interpreter walks the structured AST of the facts (if / while / do / for / return / break /
continue), inlines calls to functions whose body is in the program, and knows a small table of C
library primitives (memcpy family with a constant size, the glibc endian helpers).  Anything it
cannot model raises BrokenAnalysis: the verdict is "analysis broken", never a violation.
"""
import re, sys
from .facts import BrokenAnalysis, kids

sys.setrecursionlimit(20000)

INT_TYPES = {
    "_Bool": (8, False), "char": (8, True), "signed char": (8, True), "unsigned char": (8, False),
    "short": (16, True), "unsigned short": (16, False), "int": (32, True), "unsigned int": (32, False),
    "long": (64, True), "unsigned long": (64, False), "long long": (64, True), "unsigned long long": (64, False),
}
IDENTITY = re.compile(r"^__uint(16|32|64)_identity$")
BSWAP = re.compile(r"^(?:__bswap_|__builtin_bswap)(16|32|64)$")
MEMCPY = ("memcpy", "memmove", "__builtin_memcpy", "__builtin_memmove", "__memcpy_chk", "__builtin___memcpy_chk")
MEMSET = ("memset", "__builtin_memset")


def tinfo(n):
    """('int', width, signed) | ('ptr', element size) | ('void',) | None for the type of a node / decl."""
    t = n.get("ct") or n.get("t") or ""
    return tparse(t)


def tparse(t):
    t = t.strip()
    if t.endswith("*") or t.endswith("]"):
        if t.endswith("]"):
            el = t[:t.rindex("[")].strip()
        else:
            el = t[:-1].strip()
        el = re.sub(r"\b(const|volatile|restrict)\b", "", el).strip()
        el = re.sub(r"\s+", " ", el)
        if el in INT_TYPES:
            return ("ptr", INT_TYPES[el][0] // 8)
        if el == "void" or el == "":
            return ("ptr", 1)
        if el.endswith("*"):
            return ("ptr", 8)
        return ("ptr", None)
    t2 = re.sub(r"\b(const|volatile|restrict)\b", "", t).strip()
    t2 = re.sub(r"\s+", " ", t2)
    if t2 in INT_TYPES:
        w, s = INT_TYPES[t2]
        return ("int", w, s)
    if t2.startswith("enum "):
        return ("int", 32, False)
    if t2 == "void":
        return ("void",)
    return None


class BV:
    __slots__ = ("bits", "signed")

    def __init__(self, bits, signed=False):
        self.bits = tuple(bits)
        self.signed = signed

    @property
    def width(self):
        return len(self.bits)

    def is_const(self):
        return all(b in (0, 1) for b in self.bits)

    def value(self):
        v = 0
        for i, b in enumerate(self.bits):
            if b == 1:
                v |= 1 << i
        if self.signed and self.bits and self.bits[-1] == 1:
            v -= 1 << len(self.bits)
        return v

    def __repr__(self):
        if self.is_const():
            return "#%d" % self.value()
        return "<" + " ".join(bitstr(b) for b in reversed(self.bits)) + ">"


def bitstr(b):
    if b in (0, 1):
        return str(b)
    if b is None:
        return "?"
    if b[0] == "v":
        return "v%d.%d" % (b[1], b[2])
    if b[0] == "d":
        return "%s[%d].%d" % (b[1], b[2], b[3])
    if b[0] == "!":
        return "~" + bitstr(b[1])
    if b[0] == "x":
        return "xor(%d terms)%s" % (len(b[1]), "^1" if b[2] else "")
    return str(b)


class Ptr:
    __slots__ = ("base", "off")

    def __init__(self, base, off):
        self.base = base
        self.off = off

    def __repr__(self):
        return "&%s+%d" % (self.base, self.off)


def const(v, width, signed=False):
    return BV([(v >> i) & 1 for i in range(width)], signed)


def _lin(b):
    """A non-constant bit as a GF(2) affine form (frozenset of symbols, constant), or None for top."""
    if b in (0, 1):
        return (frozenset(), b)
    if b is None:
        return None
    if b[0] == "!":
        x = _lin(b[1])
        return None if x is None else (x[0], 1 - x[1])
    if b[0] == "x":
        return (b[1], b[2])
    return (frozenset((b,)), 0)


def _unlin(f):
    syms, c = f
    if not syms:
        return c
    if len(syms) == 1:
        (s,) = syms
        return s if c == 0 else ("!", s)
    return ("x", syms, c)


def bnot(b):
    if b in (0, 1):
        return 1 - b
    if b is None:
        return None
    if b[0] == "!":
        return b[1]
    if b[0] == "x":
        return ("x", b[1], 1 - b[2])
    return ("!", b)


def band(a, b):
    if a == 0 or b == 0:
        return 0
    if a == 1:
        return b
    if b == 1:
        return a
    if a is not None and a == b:
        return a
    if a is not None and b is not None and a == bnot(b):
        return 0
    return None


def bor(a, b):
    if a == 1 or b == 1:
        return 1
    if a == 0:
        return b
    if b == 0:
        return a
    if a is not None and a == b:
        return a
    if a is not None and b is not None and a == bnot(b):
        return 1
    return None


def bxor(a, b):
    """Exclusive or stays exact: bits are affine forms over GF(2) (an XOR of named input bits and a constant)."""
    if a == 0:
        return b
    if b == 0:
        return a
    if a is None or b is None:
        return None
    if a == 1:
        return bnot(b)
    if b == 1:
        return bnot(a)
    fa, fb = _lin(a), _lin(b)
    if fa is None or fb is None:
        return None
    return _unlin((fa[0] ^ fb[0], fa[1] ^ fb[1]))


class Rec:
    """Value of a local struct object: immutable map field -> value (a store makes a new one, so traces can share it)."""
    __slots__ = ("name", "fields")

    def __init__(self, name, fields):
        self.name = name
        self.fields = dict(fields)

    def set(self, fld, v):
        d = dict(self.fields)
        d[fld] = v
        return Rec(self.name, d)


class Infeasible(Exception):
    pass


class St:
    """One trace: frames of locals, byte memory, bit assumptions, disjunctive facts, effects."""

    def __init__(self):
        self.frames = []
        self.mem = {}
        self.assume = {}
        self.nz = []          # list of frozenset of literals (sym, wanted): at least one holds
        self.reads = []       # (base, off) of bytes read from parameter buffers (not written before)
        self.writes = []      # (base, off) of bytes written through parameter pointers, in order
        self.wide = []        # (kind, base, off, width, line): typed multi-byte accesses through parameter pointers
        self.imprecise = []   # notes: a branch taken without being able to refine
        self.branches = []    # human-readable decisions
        self.ext = {}         # extension state of derived interpreters: name -> object with .copy()
        self.alias = {}       # symbol -> symbol it was found equal to (equality between two unknown bits)

    def copy(self):
        s = St()
        s.frames = [dict(f) for f in self.frames]
        s.mem = dict(self.mem)
        s.assume = dict(self.assume)
        s.nz = list(self.nz)
        s.reads = list(self.reads)
        s.writes = list(self.writes)
        s.wide = list(self.wide)
        s.imprecise = list(self.imprecise)
        s.branches = list(self.branches)
        s.ext = {k: v.copy() for k, v in self.ext.items()}
        s.alias = dict(self.alias)
        return s

    # --- facts -------------------------------------------------------------
    def norm(self, b):
        if b in (0, 1) or b is None:
            return b
        if b[0] == "!":
            x = self.norm(b[1])
            return bnot(x)
        if b[0] == "x":
            if not self.assume and not self.alias:
                return b
            acc = b[2]
            for sym in b[1]:
                acc = bxor(acc, self.norm(sym))
            return acc
        seen = 0
        while b in self.alias and seen < 64:
            b = self.alias[b]
            seen += 1
            if b in (0, 1) or b is None:
                return b
            if b[0] == "!":
                return bnot(self.norm(b[1]))
        v = self.assume.get(b)
        return b if v is None else v

    def nbits(self, bv):
        return BV([self.norm(b) for b in bv.bits], bv.signed)

    def learn(self, b, want):
        """Assume bit b == want; raises Infeasible when that contradicts the trace."""
        b = self.norm(b)
        if b in (0, 1):
            if b != want:
                raise Infeasible()
            return
        if b is None:
            return
        if b[0] == "!":
            return self.learn(b[1], 1 - want)
        if b[0] == "x":
            return          # an affine combination: not representable as a fact about one bit (sound to forget)
        self.assume[b] = want
        self._propagate()

    def learn_some(self, lits):
        """At least one literal (bit, wanted) holds."""
        out = set()
        for b, want in lits:
            b = self.norm(b)
            if b is None:
                return          # cannot be expressed: no fact (sound, less precise)
            if b in (0, 1):
                if b == want:
                    return      # trivially satisfied
                continue
            if b[0] == "!":
                b, want = b[1], 1 - want
                # b[1] is a plain symbol after norm()
            out.add((b, want))
        if not out:
            raise Infeasible()
        if len(out) == 1:
            (b, want), = out
            self.assume[b] = want
            self._propagate()
            return
        self.nz.append(frozenset(out))

    def _propagate(self):
        changed = True
        while changed:
            changed = False
            new = []
            for fact in self.nz:
                rem = set()
                sat = False
                for (b, want) in fact:
                    v = self.assume.get(b)
                    if v is None:
                        rem.add((b, want))
                    elif v == want:
                        sat = True
                        break
                if sat:
                    continue
                if not rem:
                    raise Infeasible()
                if len(rem) == 1:
                    (b, want), = rem
                    self.assume[b] = want
                    changed = True
                    continue
                new.append(frozenset(rem))
            self.nz = new

    def implies_some(self, lits):
        """True when the trace's facts imply that at least one of the literals holds."""
        want = set()
        for b, w in lits:
            b = self.norm(b)
            if b in (0, 1):
                if b == w:
                    return True
                continue
            if b is None:
                continue
            if b[0] == "!":
                b, w = b[1], 1 - w
            want.add((b, w))
        for fact in self.nz:
            if fact <= want:
                return True
        return False


class PathResult:
    def __init__(self, st, ret, end):
        self.st = st
        self.ret = ret
        self.end = end

    def byte(self, base, off):
        b = self.st.mem.get((base, off))
        return None if b is None else tuple(self.st.norm(x) for x in b)


class Interp:
    def __init__(self, prog, unit, little_endian=True, max_paths=5000, fuel=130, max_depth=6):
        self.prog = prog
        self.unit = unit
        self.le = little_endian
        self.max_paths = max_paths
        self.fuel = fuel
        self.max_depth = max_depth
        self.funcs_seen = set()
        self.npaths = 0

    # ------------------------------------------------------------------ entry
    def run(self, f, args=None):
        """Analyse function f.  args[i] may fix parameter i to an int constant.  Integer parameters are
        symbolic bits ('v', i, *); pointer parameters are buffers named ('p', i)."""
        st = St()
        frame = {}
        for i, p in enumerate(f.params):
            ti = tparse(p.get("ct") or p["t"])
            if ti is None:
                raise BrokenAnalysis("%s: parameter %s has a type outside the bit domain" % (f.name, p["name"]))
            fixed = args[i] if args and i < len(args) else None
            if ti[0] == "int":
                if fixed is not None:
                    frame[p["name"]] = const(fixed, ti[1], ti[2])
                else:
                    frame[p["name"]] = BV([("v", i, j) for j in range(ti[1])], ti[2])
            else:
                frame[p["name"]] = Ptr(("p", i), 0)
        st.frames.append(frame)
        self.funcs_seen.add(f.name)
        out = []
        for s, sig in self.exec_fn(st, f, 0):
            out.append(PathResult(s, sig[1] if isinstance(sig, tuple) else None, "return" if isinstance(sig, tuple) else sig or "fallthrough"))
            if len(out) > self.max_paths:
                raise BrokenAnalysis("%s: trace budget exceeded" % f.name)
        return out

    def exec_fn(self, st, f, depth):
        rt = tparse(f.d.get("cret") or f.d.get("ret") or "")
        for s, sig in self.exec_stmt(st, f.body, f, depth):
            if isinstance(sig, tuple) and sig[0] == "return":
                v = sig[1]
                if v is not None and rt is not None and rt[0] == "int" and isinstance(v, BV):
                    v = self.convert(v, rt)
                yield s, ("return", v)
            elif sig in ("break", "continue"):
                raise BrokenAnalysis("%s: stray %s" % (f.name, sig))
            else:
                yield s, sig

    def where(self, f, n):
        return "%s:%s" % (f.file.replace(self.prog.repo + "/", ""), n.get("line", "?"))

    # ------------------------------------------------------------ statements
    def exec_seq(self, st, stmts, i, f, depth):
        if i >= len(stmts):
            yield st, None
            return
        for s, sig in self.exec_stmt(st, stmts[i], f, depth):
            if sig is None:
                yield from self.exec_seq(s, stmts, i + 1, f, depth)
            else:
                yield s, sig

    def exec_decls(self, st, decls, i, f, depth):
        if i >= len(decls):
            yield st, None
            return
        d = decls[i]
        ti = tparse(d.get("ct") or d.get("t") or "")
        if d.get("static") and d.get("init") is not None and "val" in d["init"]:
            # a static const local with a constant initialiser: uses carry the folded value already
            if ti and ti[0] == "int":
                st.frames[-1][d["name"]] = const(d["init"]["val"], ti[1], ti[2])
            yield from self.exec_decls(st, decls, i + 1, f, depth)
            return
        if d.get("static"):
            raise BrokenAnalysis("%s: static local %s with state" % (f.name, d["name"]))
        # a local array of integers is one wide value addressed bytewise (little-endian hosts only)
        arr = re.match(r"^(?:const\s+)?(.*?)\s*\[(\d+)\]$", (d.get("ct") or d.get("t") or "").strip())
        eti = tparse(arr.group(1).replace("const ", "")) if arr else None
        if arr and eti and eti[0] == "int" and self.le:
            cnt, w = int(arr.group(2)), eti[1]
            if d.get("init") is None:
                st.frames[-1][d["name"]] = BV([None] * (cnt * w), False)
                yield from self.exec_decls(st, decls, i + 1, f, depth)
                return
            if d["init"].get("k") == "InitListExpr":
                elems = [x for x in d["init"].get("kids", [])]
                if len(elems) > cnt:
                    raise BrokenAnalysis("%s: more initialisers than elements (%s)" % (f.name, self.where(f, d["init"])))

                def fill(s, j, bits):
                    if j >= len(elems):
                        s.frames[-1][d["name"]] = BV(bits + [0] * ((cnt - len(elems)) * w), False)
                        yield from self.exec_decls(s, decls, i + 1, f, depth)
                        return
                    if elems[j].get("k") == "ImplicitValueInitExpr":
                        yield from fill(s, j + 1, bits + [0] * w)
                        return
                    for s2, v in self.ev(s, elems[j], f, depth):
                        if not isinstance(v, BV):
                            raise BrokenAnalysis("%s: non-integer array initialiser (%s)" % (f.name, self.where(f, elems[j])))
                        v = self.convert(v, eti)
                        yield from fill(s2, j + 1, bits + list(v.bits))
                yield from fill(st, 0, [])
                return
        sm = re.match(r"^(?:const\s+)?(?:struct|union)\s+(\w+)$", (d.get("ct") or d.get("t") or "").strip())
        rec = self.prog.record(sm.group(1), self.unit) if sm and hasattr(self.prog, "record") else None
        if rec is not None:
            # a local struct object: a record value
            if d.get("init") is None:
                st.frames[-1][d["name"]] = Rec(rec["name"], {})
                yield from self.exec_decls(st, decls, i + 1, f, depth)
                return
            if d["init"].get("k") == "InitListExpr":
                elems = d["init"].get("kids", [])
                flds = rec["fields"]
                if len(elems) > len(flds):
                    raise BrokenAnalysis("%s: more initialisers than members (%s)" % (f.name, self.where(f, d["init"])))

                def fillr(s, j, acc):
                    if j >= len(flds):
                        s.frames[-1][d["name"]] = Rec(rec["name"], acc)
                        yield from self.exec_decls(s, decls, i + 1, f, depth)
                        return
                    fti = tparse(flds[j].get("ct") or flds[j].get("t") or "")
                    if j >= len(elems) or elems[j].get("k") == "ImplicitValueInitExpr":
                        zero = const(0, fti[1], fti[2]) if fti and fti[0] == "int" else Ptr(None, 0)
                        yield from fillr(s, j + 1, dict(acc, **{flds[j]["name"]: zero}))
                        return
                    for s2, v in self.ev(s, elems[j], f, depth):
                        if isinstance(v, BV) and fti and fti[0] == "int":
                            v = self.convert(v, fti)
                        yield from fillr(s2, j + 1, dict(acc, **{flds[j]["name"]: v}))
                yield from fillr(st, 0, {})
                return
        if d.get("init") is None:
            if ti and ti[0] == "int":
                st.frames[-1][d["name"]] = BV([None] * ti[1], ti[2])
            else:
                st.frames[-1][d["name"]] = None
            yield from self.exec_decls(st, decls, i + 1, f, depth)
            return
        if d["init"].get("k") == "InitListExpr":
            raise BrokenAnalysis("%s: aggregate initialiser outside the bit domain (%s)" % (f.name, self.where(f, d["init"])))
        for s, v in self.ev(st, d["init"], f, depth):
            if ti and ti[0] == "int" and isinstance(v, BV):
                v = self.convert(v, ti)
            s.frames[-1][d["name"]] = v
            yield from self.exec_decls(s, decls, i + 1, f, depth)

    def exec_stmt(self, st, n, f, depth):
        if n is None:
            yield st, None
            return
        k = n["k"]
        if k == "CompoundStmt":
            yield from self.exec_seq(st, [c for c in n.get("kids", []) if c is not None], 0, f, depth)
        elif k == "DeclStmt":
            yield from self.exec_decls(st, n.get("decls", []), 0, f, depth)
        elif k == "NullStmt":
            yield st, None
        elif k == "IfStmt":
            for s, t in self.truth(st, n["cond"], f, depth):
                yield from self.exec_stmt(s, n.get("then") if t else n.get("else"), f, depth)
        elif k == "WhileStmt":
            yield from self.loop(st, n.get("cond"), None, n.get("body"), True, self.fuel, f, depth)
        elif k == "DoStmt":
            yield from self.loop(st, n.get("cond"), None, n.get("body"), False, self.fuel, f, depth)
        elif k == "ForStmt":
            for s, sig in self.exec_stmt(st, n.get("init"), f, depth):
                yield from self.loop(s, n.get("cond"), n.get("inc"), n.get("body"), True, self.fuel, f, depth)
        elif k == "ReturnStmt":
            ks = [c for c in n.get("kids", []) if c is not None]
            if not ks:
                yield st, ("return", None)
            else:
                for s, v in self.ev(st, ks[0], f, depth):
                    yield s, ("return", v)
        elif k == "BreakStmt":
            yield st, "break"
        elif k == "ContinueStmt":
            yield st, "continue"
        elif k in ("GotoStmt", "LabelStmt", "SwitchStmt", "IndirectGotoStmt", "GCCAsmStmt"):
            yield from self.exec_special(st, n, f, depth)
        else:
            for s, _ in self.ev(st, n, f, depth):
                yield s, None

    def exec_special(self, st, n, f, depth):
        k = n["k"]
        if k == "SwitchStmt":
            yield from self.exec_switch(st, n, f, depth)
            return
        raise BrokenAnalysis("%s: %s outside the structured subset of the bit interpreter (%s)" % (f.name, k, self.where(f, n)))

    def exec_switch(self, st, n, f, depth):
        body = n.get("body")
        if body is None or body["k"] != "CompoundStmt":
            raise BrokenAnalysis("%s: switch body shape (%s)" % (f.name, self.where(f, n)))
        stmts = [c for c in body.get("kids", []) if c is not None]
        # flatten labels: position of every case/default
        labels = []
        flat = []
        for s in stmts:
            while s is not None and s["k"] in ("CaseStmt", "DefaultStmt"):
                labels.append((len(flat), s.get("caseval") if s["k"] == "CaseStmt" else "default"))
                inner = [c for c in s.get("kids", []) if c is not None]
                s = inner[-1] if inner else None
            if s is not None:
                flat.append(s)
        for s0, v in self.ev(st, n["cond"], f, depth):
            if not isinstance(v, BV):
                raise BrokenAnalysis("%s: switch on a non-integer" % f.name)
            cases = [(pos, cv) for pos, cv in labels if cv != "default"]
            dflt = [pos for pos, cv in labels if cv == "default"]
            remaining = s0
            for pos, cv in cases:
                alts = list(self.compare(remaining.copy(), "==", v, const(cv, v.width, v.signed), f, n))
                nxt = None
                for s1, t in alts:
                    if t:
                        yield from self._switch_run(s1, flat, pos, f, depth)
                    else:
                        nxt = s1
                if nxt is None:
                    remaining = None
                    break
                remaining = nxt
            if remaining is not None:
                if dflt:
                    yield from self._switch_run(remaining, flat, dflt[0], f, depth)
                else:
                    yield remaining, None

    def _switch_run(self, st, flat, pos, f, depth):
        for s, sig in self.exec_seq(st, flat, pos, f, depth):
            if sig == "break":
                yield s, None
            else:
                yield s, sig

    def loop(self, st, cond, inc, body, check, fuel, f, depth):
        if fuel <= 0:
            raise BrokenAnalysis("%s: loop does not terminate within the bit interpreter's fuel" % f.name)
        dl = getattr(self, "deadline", None)
        if dl is not None:
            import time as _t
            if _t.time() > dl:
                raise BrokenAnalysis("%s: interpretation budget of this scenario exceeded" % f.name)
        if check and cond is not None:
            for s, t in self.truth(st, cond, f, depth):
                if t:
                    yield from self.loop_body(s, cond, inc, body, fuel, f, depth)
                else:
                    yield s, None
        else:
            yield from self.loop_body(st, cond, inc, body, fuel, f, depth)

    def loop_body(self, st, cond, inc, body, fuel, f, depth):
        for s, sig in self.exec_stmt(st, body, f, depth):
            if sig == "break":
                yield s, None
            elif isinstance(sig, tuple):
                yield s, sig
            else:
                if inc is not None:
                    for s2, _ in self.ev(s, inc, f, depth):
                        yield from self.loop(s2, cond, inc, body, True, fuel - 1, f, depth)
                else:
                    yield from self.loop(s, cond, inc, body, True, fuel - 1, f, depth)

    # ------------------------------------------------------------ conversions
    def convert(self, v, ti):
        """Integral conversion of BV v to type ti = ('int', width, signed)."""
        w = ti[1]
        bits = list(v.bits[:w])
        if len(bits) < w:
            ext = bits[-1] if (v.signed and bits) else 0
            bits += [ext] * (w - len(bits))
        return BV(bits, ti[2])

    # ------------------------------------------------------------ truth
    def truth(self, st, n, f, depth):
        for s, v in self.ev(st, n, f, depth):
            yield from self.truth_of(s, v, f, n)

    def truth_of(self, s, v, f, n):
        if isinstance(v, Ptr):
            yield s, v.base is not None
            return
        if not isinstance(v, BV):
            raise BrokenAnalysis("%s: condition without a value (%s)" % (f.name, self.where(f, n)))
        bits = [s.norm(b) for b in v.bits]
        if any(b == 1 for b in bits):
            yield s, True
            return
        syms = [b for b in bits if b not in (0, 1)]
        if not syms:
            yield s, False
            return
        if any(b is None for b in syms):
            s.imprecise.append("condition on unknown bits at %s" % self.where(f, n))
            raise BrokenAnalysis("%s: condition depends on bits the domain lost (%s)" % (f.name, self.where(f, n)))
        a = s.copy()
        try:
            for b in syms:
                a.learn(b, 0)
            a.branches.append("%s: ==0" % self.where(f, n))
            yield a, False
        except Infeasible:
            pass
        try:
            s.learn_some([(b, 1) for b in syms])
            s.branches.append("%s: !=0" % self.where(f, n))
            yield s, True
        except Infeasible:
            pass

    # ------------------------------------------------------------ comparison
    def compare(self, s, op, a, b, f, n):
        """Yield (state, bool) for a <op> b with refinement."""
        if isinstance(a, Ptr) or isinstance(b, Ptr):
            if isinstance(a, Ptr) and isinstance(b, Ptr) and a.base == b.base:
                x, y = a.off, b.off
                yield s, {"==": x == y, "!=": x != y, "<": x < y, "<=": x <= y, ">": x > y, ">=": x >= y}[op]
                return
            if op in ("==", "!="):
                pa = a.base if isinstance(a, Ptr) else (None if (isinstance(a, BV) and a.is_const() and a.value() == 0) else "?")
                pb = b.base if isinstance(b, Ptr) else (None if (isinstance(b, BV) and b.is_const() and b.value() == 0) else "?")
                if pa != "?" and pb != "?":
                    eq = (pa is None) == (pb is None) and (pa is None or (pa == pb and a.off == b.off))
                    yield s, eq if op == "==" else not eq
                    return
            raise BrokenAnalysis("%s: pointer comparison outside the domain (%s)" % (f.name, self.where(f, n)))
        a = s.nbits(a)
        b = s.nbits(b)
        w = max(a.width, b.width)
        if a.width != b.width:
            a = self.convert(a, ("int", w, a.signed))
            b = self.convert(b, ("int", w, b.signed))
        signed = a.signed and b.signed
        if signed:
            # both sign bits must be known for an ordering; equality is bitwise anyway
            if op not in ("==", "!=") and (a.bits[-1] not in (0, 1) or b.bits[-1] not in (0, 1)):
                raise BrokenAnalysis("%s: signed comparison with unknown sign (%s)" % (f.name, self.where(f, n)))
        if op in ("==", "!="):
            for s2, eq in self._eq(s, a, b, f, n):
                yield s2, eq if op == "==" else not eq
            return
        if op == "<":
            yield from self._lt(s, a, b, signed, f, n)
        elif op == ">":
            yield from self._lt(s, b, a, signed, f, n)
        elif op == "<=":
            for s2, t in self._lt(s, b, a, signed, f, n):
                yield s2, not t
        elif op == ">=":
            for s2, t in self._lt(s, a, b, signed, f, n):
                yield s2, not t
        else:
            raise BrokenAnalysis("comparison operator %s" % op)

    def _eq(self, s, a, b, f, n):
        diff = []
        for x, y in zip(a.bits, b.bits):
            if x in (0, 1) and y in (0, 1):
                if x != y:
                    yield s, False
                    return
                continue
            if x is not None and x == y:
                continue
            diff.append((x, y))
        if not diff:
            yield s, True
            return
        lits = []
        pairs = []
        for x, y in diff:
            if y in (0, 1) and x is not None:
                lits.append((x, y))
            elif x in (0, 1) and y is not None:
                lits.append((y, x))
            elif x is not None and y is not None:
                pairs.append((x, y))      # two unknown bits: equal on one side of the split, unrelated on the other
            else:
                raise BrokenAnalysis("%s: equality involving bits the domain lost (%s)" % (f.name, self.where(f, n)))
        e = s.copy()
        try:
            for bit, want in lits:
                e.learn(bit, want)
            for x, y in pairs:
                x, y = e.norm(x), e.norm(y)
                if x in (0, 1) and y in (0, 1):
                    if x != y:
                        raise Infeasible()
                elif x in (0, 1):
                    e.learn(y, x)
                elif y in (0, 1):
                    e.learn(x, y)
                elif x != y:
                    if x[0] == "!" and y[0] == "!":
                        x, y = x[1], y[1]
                    if x[0] == "!":
                        x, y = y, x
                    if x[0] == "!":
                        raise BrokenAnalysis("%s: equality between negated unknowns (%s)" % (f.name, self.where(f, n)))
                    e.alias[x] = y
            e.branches.append("%s: equal" % self.where(f, n))
            yield e, True
        except Infeasible:
            pass
        try:
            if not pairs:
                s.learn_some([(bit, 1 - want) for bit, want in lits])
            # with unknown-vs-unknown pairs the inequality cannot be expressed: the trace keeps no fact (sound, less precise)
            s.branches.append("%s: not equal" % self.where(f, n))
            yield s, False
        except Infeasible:
            pass

    @staticmethod
    def _range(v, signed):
        lo = hi = 0
        for i, b in enumerate(v.bits):
            if b == 1:
                lo |= 1 << i
                hi |= 1 << i
            elif b != 0:
                hi |= 1 << i
        if signed and v.bits[-1] == 1:
            lo -= 1 << v.width
            hi -= 1 << v.width
        return lo, hi

    def _lt(self, s, a, b, signed, f, n):
        """a < b (same width)."""
        alo, ahi = self._range(a, signed)
        blo, bhi = self._range(b, signed)
        if ahi < blo:
            yield s, True
            return
        if alo >= bhi:
            yield s, False
            return
        if signed and (alo < 0 or blo < 0):
            raise BrokenAnalysis("%s: signed comparison of negative unknowns (%s)" % (f.name, self.where(f, n)))
        if b.is_const():
            yield from self._lt_const(s, a, b.value(), True, f, n)
        elif a.is_const():
            # C < b  <=>  not (b < C+1)
            C = a.value() + 1
            if C >= (1 << b.width):
                yield s, False
                return
            for s2, t in self._lt_const(s, b, C, True, f, n):
                yield s2, not t
        elif a.bits == b.bits:
            yield s, False
        else:
            raise BrokenAnalysis("%s: ordering between two unknown quantities (%s)" % (f.name, self.where(f, n)))

    def _lt_const(self, s, a, C, _unused, f, n):
        """a < C for a constant C > 0 not decided by the ranges."""
        w = a.width
        if any(x is None for x in a.bits):
            # only bits at or above the highest relevant position matter when C is a power of two
            pass
        if C & (C - 1) == 0:
            k = C.bit_length() - 1
            hi = a.bits[k:]
            t = s.copy()
            try:
                if any(x is None for x in hi):
                    raise BrokenAnalysis("%s: threshold test on bits the domain lost (%s)" % (f.name, self.where(f, n)))
                for x in hi:
                    t.learn(x, 0)
                t.branches.append("%s: < 2^%d" % (self.where(f, n), k))
                yield t, True
            except Infeasible:
                pass
            try:
                s.learn_some([(x, 1) for x in hi])
                s.branches.append("%s: >= 2^%d" % (self.where(f, n), k))
                yield s, False
            except Infeasible:
                pass
            return
        if any(x is None for x in a.bits):
            raise BrokenAnalysis("%s: threshold test on bits the domain lost (%s)" % (f.name, self.where(f, n)))
        cb = [(C >> i) & 1 for i in range(w)]
        # a < C: the highest differing position i has C_i = 1, a_i = 0
        for i in reversed(range(w)):
            if cb[i] != 1:
                continue
            t = s.copy()
            try:
                for j in range(i + 1, w):
                    t.learn(a.bits[j], cb[j])
                t.learn(a.bits[i], 0)
                t.branches.append("%s: < %d (differs at bit %d)" % (self.where(f, n), C, i))
                yield t, True
            except Infeasible:
                pass
        # a >= C: equal, or the highest differing position has C_i = 0, a_i = 1
        for i in reversed(range(w)):
            if cb[i] != 0:
                continue
            t = s.copy()
            try:
                for j in range(i + 1, w):
                    t.learn(a.bits[j], cb[j])
                t.learn(a.bits[i], 1)
                t.branches.append("%s: > %d (differs at bit %d)" % (self.where(f, n), C, i))
                yield t, False
            except Infeasible:
                pass
        t = s.copy()
        try:
            for j in range(w):
                t.learn(a.bits[j], cb[j])
            t.branches.append("%s: == %d" % (self.where(f, n), C))
            yield t, False
        except Infeasible:
            pass

    # ------------------------------------------------------------ arithmetic
    def arith(self, s, op, a, b, ti, f, n):
        if isinstance(a, Ptr) or isinstance(b, Ptr):
            return self.ptr_arith(s, op, a, b, f, n)
        if not (isinstance(a, BV) and isinstance(b, BV)):
            raise BrokenAnalysis("%s: operand without a value (%s)" % (f.name, self.where(f, n)))
        w, sg = ti[1], ti[2]
        a = s.nbits(a)
        b = s.nbits(b)
        if op in ("<<", ">>"):
            a = self.convert(a, ("int", w, a.signed))
            if not b.is_const():
                return BV([None] * w, sg)
            k = b.value()
            if k < 0 or k >= w:
                raise BrokenAnalysis("%s: shift by %d on a %d-bit value is undefined (%s)" % (f.name, k, w, self.where(f, n)))
            if op == "<<":
                return BV(([0] * k + list(a.bits))[:w], sg)
            fill = a.bits[-1] if a.signed else 0
            return BV(list(a.bits[k:]) + [fill] * k, sg)
        a = self.convert(a, ("int", w, a.signed))
        b = self.convert(b, ("int", w, b.signed))
        if op == "&":
            return BV([band(x, y) for x, y in zip(a.bits, b.bits)], sg)
        if op == "|":
            return BV([bor(x, y) for x, y in zip(a.bits, b.bits)], sg)
        if op == "^":
            return BV([bxor(x, y) for x, y in zip(a.bits, b.bits)], sg)
        mask = (1 << w) - 1
        if a.is_const() and b.is_const():
            x, y = a.value(), b.value()
            if op == "+":
                return const((x + y) & mask, w, sg)
            if op == "-":
                return const((x - y) & mask, w, sg)
            if op == "*":
                return const((x * y) & mask, w, sg)
            if op in ("/", "%"):
                if y == 0:
                    raise BrokenAnalysis("%s: division by zero (%s)" % (f.name, self.where(f, n)))
                q = abs(x) // abs(y)
                if (x < 0) != (y < 0):
                    q = -q
                r = x - q * y
                return const((q if op == "/" else r) & mask, w, sg)
        if op == "+":
            # exact where no carry can start
            out = []
            carry_possible = False
            for x, y in zip(a.bits, b.bits):
                if carry_possible:
                    out.append(None)
                    continue
                if x == 0:
                    out.append(y)
                elif y == 0:
                    out.append(x)
                else:
                    carry_possible = True
                    out.append(bxor(x, y) if (x in (0, 1) and y in (0, 1)) else None)
            return BV(out, sg)
        if op == "-":
            if b.is_const() and b.value() == 0:
                return BV(a.bits, sg)
            # exact where no borrow can start: b's possible ones are known ones of a
            out = []
            borrow = False
            for x, y in zip(a.bits, b.bits):
                if borrow:
                    out.append(None)
                elif y == 0:
                    out.append(x)
                elif x == 1 and y == 1:
                    out.append(0)
                else:
                    borrow = True
                    out.append(None)
            return BV(out, sg)
        if op == "*":
            for p, q in ((a, b), (b, a)):
                if q.is_const() and q.value() > 0 and q.value() & (q.value() - 1) == 0:
                    k = q.value().bit_length() - 1
                    return BV(([0] * k + list(p.bits))[:w], sg)
                if q.is_const() and q.value() == 0:
                    return const(0, w, sg)
            return BV([None] * w, sg)
        if op in ("/", "%"):
            if b.is_const() and b.value() > 0 and b.value() & (b.value() - 1) == 0 and (not a.signed or a.bits[-1] == 0):
                k = b.value().bit_length() - 1
                if op == "/":
                    return BV(list(a.bits[k:]) + [0] * k, sg)
                return BV(list(a.bits[:k]) + [0] * (w - k), sg)
            return BV([None] * w, sg)
        raise BrokenAnalysis("%s: operator %s outside the bit domain (%s)" % (f.name, op, self.where(f, n)))

    def esize(self, n, f):
        ti = tinfo(n)
        if ti is None or ti[0] != "ptr" or ti[1] is None:
            raise BrokenAnalysis("%s: pointer arithmetic on an unsupported element type (%s)" % (f.name, self.where(f, n)))
        return ti[1]

    def ptr_arith(self, s, op, a, b, f, n):
        if isinstance(a, Ptr) and isinstance(b, Ptr):
            if op != "-" or a.base != b.base:
                raise BrokenAnalysis("%s: pointer difference across objects (%s)" % (f.name, self.where(f, n)))
            es = self.esize(n["kids"][0], f)
            return const(((a.off - b.off) // es) & ((1 << 64) - 1), 64, True)
        p, i = (a, b) if isinstance(a, Ptr) else (b, a)
        i = s.nbits(i)
        if not (isinstance(i, BV) and i.is_const()):
            raise BrokenAnalysis("%s: pointer offset is not a known constant on this trace (%s)" % (f.name, self.where(f, n)))
        if op == "-" and not isinstance(a, Ptr):
            raise BrokenAnalysis("%s: integer minus pointer" % f.name)
        es = self.esize(n, f)
        k = i.value() * es
        return Ptr(p.base, p.off + k if op == "+" else p.off - k)

    # ------------------------------------------------------------ memory
    def load_byte(self, s, base, off, f, n):
        if isinstance(base, tuple) and base[0] == "L":
            v = s.frames[base[1]].get(base[2])
            if not isinstance(v, BV):
                raise BrokenAnalysis("%s: byte access to a non-integer local (%s)" % (f.name, self.where(f, n)))
            nb = v.width // 8
            if off < 0 or off >= nb:
                raise BrokenAnalysis("%s: access outside local %s (%s)" % (f.name, base[2], self.where(f, n)))
            k = off if self.le else nb - 1 - off
            return tuple(v.bits[8 * k:8 * k + 8])
        if base is None:
            raise BrokenAnalysis("%s: access through a null pointer (%s)" % (f.name, self.where(f, n)))
        b = s.mem.get((base, off))
        if b is None:
            b = tuple(("d", base, off, j) for j in range(8))
            s.mem[(base, off)] = b
            s.reads.append((base, off))
        elif (base, off) not in s.writes and (base, off) not in s.reads:
            s.reads.append((base, off))
        return b

    def store_byte(self, s, base, off, bits, f, n):
        if isinstance(base, tuple) and base[0] == "L":
            v = s.frames[base[1]].get(base[2])
            if not isinstance(v, BV):
                raise BrokenAnalysis("%s: byte access to a non-integer local (%s)" % (f.name, self.where(f, n)))
            nb = v.width // 8
            if off < 0 or off >= nb:
                raise BrokenAnalysis("%s: access outside local %s (%s)" % (f.name, base[2], self.where(f, n)))
            k = off if self.le else nb - 1 - off
            nbits = list(v.bits)
            nbits[8 * k:8 * k + 8] = list(bits)
            s.frames[base[1]][base[2]] = BV(nbits, v.signed)
            return
        if base is None:
            raise BrokenAnalysis("%s: access through a null pointer (%s)" % (f.name, self.where(f, n)))
        s.mem[(base, off)] = tuple(bits)
        s.writes.append((base, off))

    def load(self, s, loc, ti, f, n):
        if loc[0] == "sfld":
            v = s.frames[loc[1]][loc[2]].fields.get(loc[3])
            if v is None:
                if ti and ti[0] == "int":
                    return BV([None] * ti[1], ti[2])
                raise BrokenAnalysis("%s: read of member %s before it has a value (%s)" % (f.name, loc[3], self.where(f, n)))
            if isinstance(v, BV) and ti and ti[0] == "int" and v.width != ti[1]:
                v = self.convert(v, ti)
            return v
        if loc[0] == "var":
            v = s.frames[loc[1]].get(loc[2])
            if v is None:
                if ti and ti[0] == "int":
                    return BV([None] * ti[1], ti[2])
                raise BrokenAnalysis("%s: read of %s before it has a value (%s)" % (f.name, loc[2], self.where(f, n)))
            if isinstance(v, BV) and ti and ti[0] == "int" and v.width != ti[1]:
                v = self.convert(v, ti)
            return v
        _, base, off = loc
        if ti is None or ti[0] != "int":
            raise BrokenAnalysis("%s: non-integer load through a pointer (%s)" % (f.name, self.where(f, n)))
        nb = ti[1] // 8
        if nb > 1 and not (isinstance(base, tuple) and base[0] == "L"):
            s.wide.append(("load", base, off, ti[1], self.where(f, n)))
        bytes_ = [self.load_byte(s, base, off + i, f, n) for i in range(nb)]
        if not self.le:
            bytes_.reverse()
        bits = []
        for b in bytes_:
            bits += list(b)
        return BV(bits, ti[2])

    def store(self, s, loc, v, ti, f, n):
        if loc[0] == "sfld":
            if isinstance(v, BV) and ti and ti[0] == "int":
                v = self.convert(v, ti)
            s.frames[loc[1]][loc[2]] = s.frames[loc[1]][loc[2]].set(loc[3], v)
            return
        if loc[0] == "var":
            if isinstance(v, BV) and ti and ti[0] == "int":
                v = self.convert(v, ti)
            s.frames[loc[1]][loc[2]] = v
            return
        _, base, off = loc
        if ti is None or ti[0] != "int" or not isinstance(v, BV):
            raise BrokenAnalysis("%s: non-integer store through a pointer (%s)" % (f.name, self.where(f, n)))
        v = self.convert(v, ti)
        nb = ti[1] // 8
        if nb > 1 and not (isinstance(base, tuple) and base[0] == "L"):
            s.wide.append(("store", base, off, ti[1], self.where(f, n)))
        for i in range(nb):
            k = i if self.le else nb - 1 - i
            self.store_byte(s, base, off + i, v.bits[8 * k:8 * k + 8], f, n)

    # ------------------------------------------------------------ lvalues
    def lv(self, st, n, f, depth):
        k = n["k"]
        if k in ("ParenExpr", "ConstantExpr"):
            yield from self.lv(st, n["kids"][0], f, depth)
        elif k == "DeclRefExpr":
            if n.get("dk") in ("local", "param", "slocal"):
                yield st, ("var", len(st.frames) - 1, n["name"])
            else:
                raise BrokenAnalysis("%s: global %s in a codec function (%s)" % (f.name, n.get("name"), self.where(f, n)))
        elif k == "UnaryOperator" and n.get("op") == "*":
            for s, p in self.ev(st, n["kids"][0], f, depth):
                if not isinstance(p, Ptr):
                    raise BrokenAnalysis("%s: dereference of a non-pointer value (%s)" % (f.name, self.where(f, n)))
                yield s, self._ptrloc(p)
        elif k == "ArraySubscriptExpr":
            for s, p in self.ev(st, n["kids"][0], f, depth):
                for s2, i in self.ev(s, n["kids"][1], f, depth):
                    if isinstance(i, Ptr):
                        p, i = i, p
                    i = s2.nbits(i)
                    if not isinstance(p, Ptr) or not i.is_const():
                        raise BrokenAnalysis("%s: array index is not a known constant on this trace (%s)" % (f.name, self.where(f, n)))
                    ti = tinfo(n)
                    if ti is None or ti[0] != "int":
                        raise BrokenAnalysis("%s: subscript of a non-integer array (%s)" % (f.name, self.where(f, n)))
                    yield s2, self._ptrloc(Ptr(p.base, p.off + i.value() * (ti[1] // 8)))
        elif k in ("ImplicitCastExpr", "CStyleCastExpr") and n.get("cast") in ("NoOp", "LValueBitCast"):
            yield from self.lv(st, n["kids"][0], f, depth)
        elif k == "MemberExpr":
            yield from self.lv_member(st, n, f, depth)
        else:
            raise BrokenAnalysis("%s: lvalue %s outside the bit domain (%s)" % (f.name, k, self.where(f, n)))

    def lv_member(self, st, n, f, depth):
        if not n.get("arrow"):
            for s, loc in self.lv(st, n["kids"][0], f, depth):
                if loc[0] == "var" and isinstance(s.frames[loc[1]].get(loc[2]), Rec):
                    yield s, ("sfld", loc[1], loc[2], n["field"])
                else:
                    raise BrokenAnalysis("%s: member access outside the bit domain (%s)" % (f.name, self.where(f, n)))
            return
        raise BrokenAnalysis("%s: member access outside the bit domain (%s)" % (f.name, self.where(f, n)))

    @staticmethod
    def _ptrloc(p):
        return ("mem", p.base, p.off)

    # ------------------------------------------------------------ expressions
    def ev(self, st, n, f, depth):
        k = n["k"]
        ti = tinfo(n)
        if "val" in n and ti is not None and ti[0] == "int" and k not in ("CallExpr",):
            yield st, const(n["val"], ti[1], ti[2])
            return
        if k in ("ParenExpr", "ConstantExpr"):
            yield from self.ev(st, n["kids"][0], f, depth)
        elif k in ("IntegerLiteral", "CharacterLiteral"):
            yield st, const(n.get("val", n.get("chr", 0)), ti[1], ti[2])
        elif k in ("ImplicitCastExpr", "CStyleCastExpr"):
            yield from self.ev_cast(st, n, ti, f, depth)
        elif k == "DeclRefExpr":
            # rvalue use without a load (arrays, functions): only arrays matter
            raise BrokenAnalysis("%s: bare reference to %s (%s)" % (f.name, n.get("name"), self.where(f, n)))
        elif k == "UnaryOperator":
            yield from self.ev_unary(st, n, ti, f, depth)
        elif k == "BinaryOperator":
            yield from self.ev_binary(st, n, ti, f, depth)
        elif k == "CompoundAssignOperator":
            op = n["op"][:-1]
            for s, loc in self.lv(st, n["kids"][0], f, depth):
                lti = tinfo(n["kids"][0])
                for s2, r in self.ev(s, n["kids"][1], f, depth):
                    old = self.load(s2, loc, lti, f, n)
                    if isinstance(old, Ptr) or isinstance(r, Ptr):
                        v = self.ptr_arith(s2, op, old, r, f, n["kids"][0])
                    else:
                        if op in ("<<", ">>"):
                            cti = ("int", max(old.width, 32), old.signed if old.width >= 32 else True)
                        else:
                            cw = max(old.width, r.width, 32)
                            cti = ("int", cw, (old.signed if old.width == cw else True) and (r.signed if r.width == cw else True))
                        v = self.arith(s2, op, old, r, cti, f, n)
                        v = self.convert(v, lti)
                    self.store(s2, loc, v, lti, f, n)
                    yield s2, v
        elif k == "ConditionalOperator":
            c, a, b = n["kids"][0], n["kids"][1], n["kids"][2]
            for s, t in self.truth(st, c, f, depth):
                yield from self.ev(s, a if t else b, f, depth)
        elif k == "CallExpr":
            yield from self.ev_call(st, n, ti, f, depth)
        elif k == "UnaryExprOrTypeTraitExpr":
            raise BrokenAnalysis("%s: sizeof without a folded value (%s)" % (f.name, self.where(f, n)))
        elif k in ("ArraySubscriptExpr", "MemberExpr"):
            for s, loc in self.lv(st, n, f, depth):
                yield s, self.load(s, loc, ti, f, n)
        elif k == "StmtExpr":
            # GNU statement expression (glibc's assert): run the block; its value is not used by the codecs
            for s, sig in self.exec_stmt(st, n["kids"][0], f, depth):
                if sig is not None:
                    raise BrokenAnalysis("%s: control leaves a statement expression (%s)" % (f.name, self.where(f, n)))
                yield s, None
        else:
            raise BrokenAnalysis("%s: expression %s outside the bit domain (%s)" % (f.name, k, self.where(f, n)))

    def ev_cast(self, st, n, ti, f, depth):
        ck = n.get("cast")
        kid = n["kids"][0]
        if ck == "LValueToRValue":
            for s, loc in self.lv(st, kid, f, depth):
                yield s, self.load(s, loc, ti, f, n)
        elif ck in ("IntegralCast", "BooleanToSignedIntegral"):
            for s, v in self.ev(st, kid, f, depth):
                if not isinstance(v, BV) or ti is None or ti[0] != "int":
                    raise BrokenAnalysis("%s: integral cast of a non-integer (%s)" % (f.name, self.where(f, n)))
                yield s, self.convert(v, ti)
        elif ck in ("IntegralToBoolean", "PointerToBoolean"):
            for s, t in self.truth(st, kid, f, depth):
                yield s, const(1 if t else 0, ti[1] if ti and ti[0] == "int" else 8, False)
        elif ck in ("NoOp", "BitCast"):
            yield from self.ev(st, kid, f, depth)
        elif ck == "ArrayToPointerDecay":
            for s, loc in self.lv(st, kid, f, depth):
                if loc[0] == "var":
                    yield s, Ptr(("L", loc[1], loc[2]), 0)
                else:
                    yield s, Ptr(loc[1], loc[2])
        elif ck == "NullToPointer":
            yield st, Ptr(None, 0)
        elif ck == "ToVoid":
            for s, v in self.ev(st, kid, f, depth):
                yield s, None
        elif ck == "FunctionToPointerDecay":
            yield st, None
        else:
            raise BrokenAnalysis("%s: cast %s outside the bit domain (%s)" % (f.name, ck, self.where(f, n)))

    def ev_unary(self, st, n, ti, f, depth):
        op = n.get("op")
        kid = n["kids"][0]
        if op == "*":
            for s, loc in self.lv(st, n, f, depth):
                yield s, self.load(s, loc, ti, f, n)
        elif op == "&":
            for s, loc in self.lv(st, kid, f, depth):
                if loc[0] == "var":
                    yield s, Ptr(("L", loc[1], loc[2]), 0)
                else:
                    yield s, Ptr(loc[1], loc[2])
        elif op in ("++", "--"):
            kti = tinfo(kid)
            for s, loc in self.lv(st, kid, f, depth):
                old = self.load(s, loc, kti, f, n)
                if isinstance(old, Ptr):
                    es = self.esize(kid, f)
                    new = Ptr(old.base, old.off + (es if op == "++" else -es))
                else:
                    one = const(1, old.width, old.signed)
                    new = self.arith(s, "+" if op == "++" else "-", old, one, ("int", old.width, old.signed), f, n)
                self.store(s, loc, new, kti, f, n)
                yield s, (new if n.get("prefix") else old)
        elif op == "!":
            for s, t in self.truth(st, kid, f, depth):
                yield s, const(0 if t else 1, 32, True)
        elif op == "~":
            for s, v in self.ev(st, kid, f, depth):
                v = self.convert(v, ti)
                yield s, BV([bnot(b) for b in s.nbits(v).bits], ti[2])
        elif op == "-":
            for s, v in self.ev(st, kid, f, depth):
                v = self.convert(v, ti)
                yield s, self.arith(s, "-", const(0, ti[1], ti[2]), v, ti, f, n)
        elif op == "+":
            for s, v in self.ev(st, kid, f, depth):
                yield s, self.convert(v, ti)
        elif op == "__extension__":
            yield from self.ev(st, kid, f, depth)
        else:
            raise BrokenAnalysis("%s: unary %s outside the bit domain (%s)" % (f.name, op, self.where(f, n)))

    def ev_binary(self, st, n, ti, f, depth):
        op = n.get("op")
        a, b = n["kids"]
        if op == "=":
            lti = tinfo(a)
            for s, loc in self.lv(st, a, f, depth):
                for s2, v in self.ev(s, b, f, depth):
                    self.store(s2, loc, v, lti, f, n)
                    yield s2, v
        elif op == ",":
            for s, _ in self.ev(st, a, f, depth):
                yield from self.ev(s, b, f, depth)
        elif op == "&&":
            for s, t in self.truth(st, a, f, depth):
                if not t:
                    yield s, const(0, 32, True)
                else:
                    for s2, t2 in self.truth(s, b, f, depth):
                        yield s2, const(1 if t2 else 0, 32, True)
        elif op == "||":
            for s, t in self.truth(st, a, f, depth):
                if t:
                    yield s, const(1, 32, True)
                else:
                    for s2, t2 in self.truth(s, b, f, depth):
                        yield s2, const(1 if t2 else 0, 32, True)
        elif op in ("==", "!=", "<", "<=", ">", ">="):
            for s, x in self.ev(st, a, f, depth):
                for s2, y in self.ev(s, b, f, depth):
                    for s3, t in self.compare(s2, op, x, y, f, n):
                        yield s3, const(1 if t else 0, 32, True)
        else:
            for s, x in self.ev(st, a, f, depth):
                for s2, y in self.ev(s, b, f, depth):
                    if isinstance(x, Ptr) or isinstance(y, Ptr):
                        yield s2, self.ptr_arith(s2, op, x, y, f, n if isinstance(x, Ptr) and isinstance(y, Ptr) else (a if isinstance(x, Ptr) else b))
                    else:
                        if ti is None or ti[0] != "int":
                            raise BrokenAnalysis("%s: arithmetic on a non-integer (%s)" % (f.name, self.where(f, n)))
                        yield s2, self.arith(s2, op, x, y, ti, f, n)

    # ------------------------------------------------------------ calls
    def ev_args(self, st, args, i, acc, f, depth):
        if i >= len(args):
            yield st, list(acc)
            return
        for s, v in self.ev(st, args[i], f, depth):
            yield from self.ev_args(s, args, i + 1, acc + [v], f, depth)

    def ev_call(self, st, n, ti, f, depth):
        name = n.get("callee")
        args = n["kids"][1:]
        if name is None:
            raise BrokenAnalysis("%s: indirect call in a codec function (%s)" % (f.name, self.where(f, n)))
        for s, vals in self.ev_args(st, args, 0, [], f, depth):
            if IDENTITY.match(name):
                yield s, self.convert(vals[0], ti)
            elif BSWAP.match(name):
                w = int(BSWAP.match(name).group(1))
                v = self.convert(vals[0], ("int", w, False))
                bs = [v.bits[8 * i:8 * i + 8] for i in range(w // 8)]
                bs.reverse()
                bits = []
                for b in bs:
                    bits += list(b)
                yield s, self.convert(BV(bits, False), ti)
            elif name in MEMCPY:
                d, src, cnt = vals[0], vals[1], s.nbits(vals[2])
                if not (isinstance(d, Ptr) and isinstance(src, Ptr) and cnt.is_const()):
                    raise BrokenAnalysis("%s: %s with a size or pointer that is not known on this trace (%s)" % (f.name, name, self.where(f, n)))
                c = cnt.value()
                if c > 4096:
                    raise BrokenAnalysis("%s: %s of %d bytes" % (f.name, name, c))
                tmp = [self.load_byte(s, src.base, src.off + i, f, n) for i in range(c)]
                for i in range(c):
                    self.store_byte(s, d.base, d.off + i, tmp[i], f, n)
                yield s, d
            elif name in MEMSET:
                d, val, cnt = vals[0], s.nbits(vals[1]), s.nbits(vals[2])
                if not (isinstance(d, Ptr) and cnt.is_const()):
                    raise BrokenAnalysis("%s: memset with unknown size (%s)" % (f.name, self.where(f, n)))
                byte = tuple(self.convert(val, ("int", 8, False)).bits)
                for i in range(cnt.value()):
                    self.store_byte(s, d.base, d.off + i, byte, f, n)
                yield s, d
            elif name in ("__assert_fail", "abort", "__builtin_unreachable", "__builtin_trap"):
                # a trace that aborts: the caller sees it as a distinct end
                s.branches.append("%s: %s" % (self.where(f, n), name))
                raise BrokenAnalysis("%s: %s reachable in a codec function (%s)" % (f.name, name, self.where(f, n)))
            else:
                g = self.prog.func(name, self.unit) or self.prog.func(name)
                if g is None or g.body is None:
                    raise BrokenAnalysis("%s: call to %s, which has no body in the program and no model (%s)" % (f.name, name, self.where(f, n)))
                if depth >= self.max_depth:
                    raise BrokenAnalysis("%s: call depth" % f.name)
                self.funcs_seen.add(g.name)
                frame = {}
                for i, p in enumerate(g.params):
                    v = vals[i] if i < len(vals) else None
                    pti = tparse(p.get("ct") or p["t"])
                    if isinstance(v, BV) and pti and pti[0] == "int":
                        v = self.convert(v, pti)
                    frame[p["name"]] = v
                s.frames.append(frame)
                nframes = len(s.frames)
                for s2, sig in self.exec_fn(s, g, depth + 1):
                    # the callee's frame stays addressable by index for pointers into it; drop it logically
                    del s2.frames[nframes - 1:]
                    rv = sig[1] if isinstance(sig, tuple) else None
                    yield s2, rv
