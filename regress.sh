#!/bin/sh
# run every claimed check on the current tree, then the sensitivity suite
cd /verif
rc=0
for c in $(python3 -c "import json;print(' '.join(x['property_id'] for x in json.load(open('MANIFEST.json'))['checks']))") "$@"; do
  ./check $c | tail -1 || rc=1
done
exit $rc
