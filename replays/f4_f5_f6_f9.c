/* Throw-away reproductions for DESIGN.md section 4 (documentation, not a check).
 * build: gcc -I/repo/mtbl f4_f5_f6_f9.c /repo/mtbl/.libs/libmtbl.a -lz -lsnappy -llz4 -lzstd -lpthread
 * usage: ./a.out f4 | f5 | f6 | f9
 */
#include <mtbl.h>
#include <dirent.h>
#include <fcntl.h>
#include <stdio.h>
#include <stdlib.h>
#include <string.h>
#include <sys/stat.h>
#include <unistd.h>

static int count_fds(void) {
	int n = 0; DIR *d = opendir("/proc/self/fd"); struct dirent *e;
	while ((e = readdir(d)) != NULL) if (e->d_name[0] != '.') n++;
	closedir(d); return n - 1; /* minus the DIR's own fd */
}

static void merge_first(void *clos, const uint8_t *k, size_t lk, const uint8_t *v0, size_t l0,
			const uint8_t *v1, size_t l1, uint8_t **out, size_t *lout) {
	*out = malloc(l0 + 1); memcpy(*out, v0, l0); *lout = l0;
}

int main(int argc, char **argv) {
	const char *which = argc > 1 ? argv[1] : "";
	if (!strcmp(which, "f4")) {	/* zlib: empty input aborts instead of failing or succeeding */
		uint8_t *out = NULL; size_t n = 0;
		mtbl_res r = mtbl_compress(MTBL_COMPRESSION_ZLIB, (const uint8_t *)"", 0, &out, &n);
		printf("f4: returned %d (no abort)\n", r);
	} else if (!strcmp(which, "f5")) {	/* zstd: empty buffer does not round-trip */
		uint8_t *c = NULL, *d = NULL; size_t nc = 0, nd = 0;
		mtbl_res r1 = mtbl_compress(MTBL_COMPRESSION_ZSTD, (const uint8_t *)"", 0, &c, &nc);
		mtbl_res r2 = r1 == mtbl_res_success ? mtbl_decompress(MTBL_COMPRESSION_ZSTD, c, nc, &d, &nd) : mtbl_res_failure;
		printf("f5: compress=%d (%zu bytes) decompress=%d\n", r1, nc, r2);
	} else if (!strcmp(which, "f6")) {	/* one descriptor per spilled chunk stays open */
		int before = count_fds();
		struct mtbl_sorter_options *so = mtbl_sorter_options_init();
		mtbl_sorter_options_set_merge_func(so, merge_first, NULL);
		mtbl_sorter_options_set_temp_dir(so, "/var/tmp");
		mtbl_sorter_options_set_max_memory(so, 1);	/* clamped to 10 MiB */
		struct mtbl_sorter *s = mtbl_sorter_init(so);
		static uint8_t val[1 << 20];
		char key[32];
		for (int i = 0; i < 35; i++) {	/* 35 MiB -> 3 spills */
			snprintf(key, sizeof key, "%08d", i);
			if (mtbl_sorter_add(s, (uint8_t *)key, 8, val, sizeof val) != mtbl_res_success) abort();
		}
		struct mtbl_iter *it = mtbl_sorter_iter(s);
		mtbl_iter_destroy(&it);
		mtbl_sorter_destroy(&s); mtbl_sorter_options_destroy(&so);
		printf("f6: descriptors before=%d after everything destroyed=%d\n", before, count_fds());
	} else if (!strcmp(which, "f9")) {	/* index length larger than the file */
		const char *p = "/tmp/f9.mtbl"; unlink(p);
		struct mtbl_writer_options *wo = mtbl_writer_options_init();
		mtbl_writer_options_set_compression(wo, MTBL_COMPRESSION_NONE);
		struct mtbl_writer *w = mtbl_writer_init(p, wo);
		if (mtbl_writer_add(w, (uint8_t *)"k", 1, (uint8_t *)"v", 1) != mtbl_res_success) abort();
		mtbl_writer_destroy(&w);
		struct mtbl_reader *r = mtbl_reader_init(p, NULL);
		uint64_t off = mtbl_metadata_index_block_offset(mtbl_reader_metadata(r));
		mtbl_reader_destroy(&r);
		int fd = open(p, O_RDWR);
		/* replace the 1-byte index length varint by a 5-byte one claiming 0x7fffffff:
		 * needs 4 more bytes, so overwrite len+crc+first bytes in place; block contents no
		 * longer matter because the claimed length is what gets used. */
		uint8_t big[5] = { 0xff, 0xff, 0xff, 0xff, 0x07 };
		if (pwrite(fd, big, 5, off) != 5) abort();
		close(fd);
		r = mtbl_reader_init(p, NULL);
		printf("f9: reader_init returned %p (no crash)\n", (void *)r);
		unlink(p);
	}
	return 0;
}
