/* F7 replay (documentation, not a check): pooled sorter destroyed while a chunk job is in flight.
 * build: gcc -I/repo/mtbl f7.c /repo/mtbl/.libs/libmtbl.a -lz -lsnappy -llz4 -lzstd -lpthread
 * run under valgrind: before the fix "Invalid read/write ... inside a block free'd" in _collect_readers_cb
 * (reader_vec_add on the vector mtbl_sorter_destroy already freed) and the chunk's reader is leaked. */
#include <mtbl.h>
#include <stdio.h>
#include <stdlib.h>
#include <string.h>
static void merge_first(void *clos, const uint8_t *k, size_t lk, const uint8_t *v0, size_t l0,
			const uint8_t *v1, size_t l1, uint8_t **out, size_t *lout) {
	*out = malloc(l0 + 1); memcpy(*out, v0, l0); *lout = l0;
}
int main(void) {
	struct mtbl_threadpool *pool = mtbl_threadpool_init(2);
	struct mtbl_sorter_options *so = mtbl_sorter_options_init();
	mtbl_sorter_options_set_merge_func(so, merge_first, NULL);
	mtbl_sorter_options_set_temp_dir(so, "/tmp");
	mtbl_sorter_options_set_max_memory(so, 1);	/* clamped to the 10 MB minimum */
	mtbl_sorter_options_set_threadpool(so, pool);
	struct mtbl_sorter *s = mtbl_sorter_init(so);
	mtbl_sorter_options_destroy(&so);
	static uint8_t val[4096];
	char key[32];
	int spilled = 0;
	for (int i = 0; i < 4000 && !spilled; i++) {	/* ~16 MB: one chunk job gets dispatched */
		snprintf(key, sizeof key, "k%08d", i);
		if (mtbl_sorter_add(s, (uint8_t *)key, strlen(key), val, sizeof val) != mtbl_res_success) return 1;
		if (i * 4096L > 11 * 1024 * 1024) spilled = 1;
	}
	mtbl_sorter_destroy(&s);	/* job still running: readers vector freed under the handler */
	mtbl_threadpool_destroy(&pool);
	puts("done");
	return 0;
}
