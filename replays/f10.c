/* F10 replay (documentation, not a check): a sorter whose merge callback fails.
 * build: gcc -I/repo/mtbl f10.c /repo/mtbl/.libs/libmtbl.a -lz -lsnappy -llz4 -lzstd -lpthread
 * run under valgrind --leak-check=full: before a9d82fc "definitely lost" blocks for the batch vector,
 * the unwritten entries and the merger options; after it none. */
#include <mtbl.h>
#include <stdio.h>
#include <stdlib.h>
#include <string.h>
static void merge_fail(void *clos, const uint8_t *k, size_t lk, const uint8_t *v0, size_t l0,
		       const uint8_t *v1, size_t l1, uint8_t **out, size_t *lout) { *out = NULL; *lout = 0; }
int main(void) {
	struct mtbl_sorter_options *so = mtbl_sorter_options_init();
	mtbl_sorter_options_set_merge_func(so, merge_fail, NULL);
	mtbl_sorter_options_set_temp_dir(so, "/tmp");
	struct mtbl_sorter *s = mtbl_sorter_init(so);
	mtbl_sorter_options_destroy(&so);
	mtbl_sorter_add(s, (const uint8_t *)"a", 1, (const uint8_t *)"1", 1);
	mtbl_sorter_add(s, (const uint8_t *)"a", 1, (const uint8_t *)"2", 1);
	mtbl_sorter_add(s, (const uint8_t *)"b", 1, (const uint8_t *)"3", 1);
	struct mtbl_iter *it = mtbl_sorter_iter(s);
	printf("iter=%p (expected NULL: merge failed)\n", (void *)it);
	mtbl_sorter_destroy(&s);
	return 0;
}
