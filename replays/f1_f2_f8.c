/* Throw-away reproductions for DESIGN.md section 4 (documentation, not a check).
 * build: gcc -I/repo/mtbl f1_f2_f8.c /repo/mtbl/.libs/libmtbl.a -lz -lsnappy -llz4 -lzstd -lpthread
 */
#include <mtbl.h>
#include <stdio.h>
#include <stdlib.h>
#include <string.h>
#include <unistd.h>
#include <fcntl.h>

static void merge_cat(void *clos, const uint8_t *k, size_t lk, const uint8_t *v0, size_t l0,
		      const uint8_t *v1, size_t l1, uint8_t **out, size_t *lout) {
	*out = malloc(l0 + l1 + 1); memcpy(*out, v0, l0); memcpy(*out + l0, v1, l1); *lout = l0 + l1;
}

static struct mtbl_reader *mk(const char *path, const char **keys, int n, size_t vlen) {
	unlink(path);
	struct mtbl_writer_options *wo = mtbl_writer_options_init();
	mtbl_writer_options_set_compression(wo, MTBL_COMPRESSION_NONE);
	mtbl_writer_options_set_block_size(wo, 1024);
	struct mtbl_writer *w = mtbl_writer_init(path, wo);
	uint8_t *val = malloc(vlen); memset(val, 'v', vlen);
	for (int i = 0; i < n; i++)
		if (mtbl_writer_add(w, (const uint8_t *)keys[i], strlen(keys[i]), val, vlen) != mtbl_res_success) abort();
	mtbl_writer_destroy(&w); mtbl_writer_options_destroy(&wo); free(val);
	return mtbl_reader_init(path, NULL);
}

static void show(const char *tag, struct mtbl_iter *it) {
	const uint8_t *k, *v; size_t lk, lv;
	if (mtbl_iter_next(it, &k, &lk, &v, &lv) == mtbl_res_success) printf("%s -> '%.*s'\n", tag, (int)lk, k);
	else printf("%s -> (failure)\n", tag);
}

int main(void) {
	/* F2: empty key through a merger */
	{
		const char *keys[] = { "", "a", "b" };
		struct mtbl_reader *r = mk("/tmp/f2.mtbl", keys, 3, 4);
		struct mtbl_merger_options *mo = mtbl_merger_options_init();
		mtbl_merger_options_set_merge_func(mo, merge_cat, NULL);
		struct mtbl_merger *m = mtbl_merger_init(mo);
		mtbl_merger_add_source(m, mtbl_reader_source(r));
		struct mtbl_iter *it = mtbl_source_iter(mtbl_merger_source(m));
		printf("F2 expect '', 'a', 'b':\n");
		show("  next", it); show("  next", it); show("  next", it); show("  next", it);
		/* F8: seek to the key just returned (advance until "a" was returned, so that the
		 * reproduction does not depend on F2) */
		struct mtbl_iter *it2 = mtbl_source_iter(mtbl_merger_source(m));
		printf("F8 next (until 'a' was returned); seek(a); next must return 'a' again:\n");
		{
			const uint8_t *k, *v; size_t lk, lv;
			while (mtbl_iter_next(it2, &k, &lk, &v, &lv) == mtbl_res_success)
				if (lk == 1 && k[0] == 'a') break;
		}
		if (mtbl_iter_seek(it2, (const uint8_t *)"a", 1) != mtbl_res_success) abort();
		show("  seek(a);next (expect a)", it2);
		mtbl_iter_destroy(&it); mtbl_iter_destroy(&it2);
		mtbl_merger_destroy(&m); mtbl_merger_options_destroy(&mo); mtbl_reader_destroy(&r);
	}
	/* F1: stale cached block offset; values of 600 bytes force one entry per 1 KiB block */
	{
		const char *keys[] = { "k1", "k2", "k3", "k4" };
		struct mtbl_reader *r = mk("/tmp/f1.mtbl", keys, 4, 600);
		struct mtbl_iter *it = mtbl_source_get_range(mtbl_reader_source(r),
			(const uint8_t *)"k3", 2, (const uint8_t *)"k9", 2);
		printf("F1 get_range(k3..k9); seek(k1) is before range start, so use iter():\n");
		mtbl_iter_destroy(&it);
		it = mtbl_source_iter(mtbl_reader_source(r));
		show("  next", it); show("  next", it); show("  next", it);   /* now holding block of k3 */
		if (mtbl_iter_seek(it, (const uint8_t *)"k1", 2) != mtbl_res_success) abort();
		show("  seek(k1);next (expect k1)", it);
		mtbl_iter_destroy(&it); mtbl_reader_destroy(&r);
	}
	unlink("/tmp/f1.mtbl"); unlink("/tmp/f2.mtbl");
	return 0;
}
