/* F3 replay (documentation, not a check): two handles on one fileset; reload_now through the second
 * handle declares it current without rebuilding its merger.
 * build: gcc -I/repo/mtbl f3.c /repo/mtbl/.libs/libmtbl.a -lz -lsnappy -llz4 -lzstd -lpthread
 * run under valgrind in an empty directory: before the fix "Invalid read ... inside a block free'd"
 * (the reader of t1.mtbl unloaded via handle A is still a source of handle B's merger). */
#include <mtbl.h>
#include <stdio.h>
#include <stdlib.h>
#include <string.h>
#include <unistd.h>
static void mk(const char *fn, const char *k) {
	unlink(fn);
	struct mtbl_writer *w = mtbl_writer_init(fn, NULL);
	if (mtbl_writer_add(w, (const uint8_t *)k, strlen(k), (const uint8_t *)"v", 1) != mtbl_res_success) abort();
	mtbl_writer_destroy(&w);
}
static void setfile(const char *name) {
	FILE *f = fopen("set.tmp", "w"); fprintf(f, "%s\n", name); fclose(f);
	rename("set.tmp", "set.fileset");	/* new inode: setfile_updated() sees the change */
}
static void dump(const char *who, struct mtbl_fileset *fs) {
	struct mtbl_iter *it = mtbl_source_iter(mtbl_fileset_source(fs));
	const uint8_t *k, *v; size_t lk, lv;
	printf("%s:", who);
	while (mtbl_iter_next(it, &k, &lk, &v, &lv) == mtbl_res_success) printf(" %.*s", (int)lk, k);
	printf("\n");
	mtbl_iter_destroy(&it);
}
int main(void) {
	mk("t1.mtbl", "one"); mk("t2.mtbl", "two");
	setfile("t1.mtbl");
	struct mtbl_fileset_options *o = mtbl_fileset_options_init();
	struct mtbl_fileset *A = mtbl_fileset_init("set.fileset", o);
	struct mtbl_fileset *B = mtbl_fileset_dup(A, o);
	dump("A", A); dump("B", B);		/* both synced on {t1} */
	setfile("t2.mtbl");
	mtbl_fileset_reload_now(A);		/* t1 unloaded, A rebuilt */
	mtbl_fileset_reload_now(B);		/* nothing changed since: B keeps its merger but calls itself current */
	dump("A", A);
	dump("B", B);				/* expected "two"; before the fix walks the freed reader of t1 */
	mtbl_fileset_destroy(&B); mtbl_fileset_destroy(&A); mtbl_fileset_options_destroy(&o);
	return 0;
}
