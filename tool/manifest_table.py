# table consumed by mkmanifest.py : claim(id, technique, level text, level note) / na(id, reason)

claim("C20",
      "who-may-call rule for write(2) + abstract path evaluation of the retry loop over the clang CFG",
      "Decides, for every path of the function that holds the library's only write(2) call site: the call "
      "uses the current cursor/remaining pair; n>0 advances both by n; EINTR retries unchanged; any other "
      "n<=0 reaches a NORETURN block; normal return only with remaining==0; whatever the loop returns contains no write(2) result; plus pointer/length pairing at "
      "every caller. These are necessary and, together with C09's emit sequences, structurally sufficient "
      "conditions for fragmentation independence; byte identity itself is an argument, not a checked fact. With several call sites of write(2) the retrying (descriptor, buffer, size) loop is recognised by its parameters and every other site is reported.",
      "Trusts clang's CFG/NORETURN knowledge (assert is live, rule G1 in C12), the kernel's write(2) contract, "
      "and that the loop is bounded-unrolled once (bound 1) - the loop body is re-entered with symbolic state.")

claim("C16",
      "abstract interpretation in a bit-provenance domain (every bit a constant, a named input bit or unknown) with trace partitioning at comparisons, over the AST of the codec functions and their inlined callees",
      "Decides, for every value class the functions' own comparisons create (the classes cover all inputs by construction): the varint encoders put input "
      "bits 7k..7k+6 into byte k with continuation bits 1..10, lose no bit, use the minimal length and return it; mtbl_varint_length returns n on exactly "
      "those classes; the decoders read exactly the n bytes up to the first byte without continuation bit, put bit j of byte k into value bit 7k+j and "
      "refuse only when the first ceil(W/7) bytes all continue; the encoder's bytes substituted into the decoder give back every input bit and the count; "
      "mtbl_varint_length_packed returns the index+1 of the first terminating byte within the buffer and never looks at or beyond its end (each length 0..12, "
      "0..24 thorough); the fixed codecs route input bit 8k+j to byte k bit j and back, return the width, and touch the byte buffer only byte-wise (any alignment). "
      "No input value is chosen and no solver is involved; a construct the domain cannot express is reported as analysis-broken (exit 2), never as a verdict. Also decides (R7) that no codec that reads or writes memory through a pointer parameter is declared __attribute__((const)) (or pure if it writes).",
      "One target is analysed: the configured one (byte order read from the preprocessor). Trusts the models of memcpy/memmove with a constant size and of "
      "glibc's __uintN_identity/__bswap_N, and clang's constant folding. Not decided: big-endian hosts, what a refused decode leaves in *value, buffer lengths "
      "beyond the enumerated ones for length_packed.")

claim("C08",
      "abstract path evaluation (decision table) of the add gate, mod/ref purity of the refusal path, typestate of the remembered key, constant evaluation of open(2) flags",
      "Decides completely: the refusal path performs no caller-visible store (mod/ref) and the create flags contain "
      "O_CREAT|O_EXCL with the failed-open edge returning NULL untouched. Decides as decision tables over {LT,EQ,GT}: "
      "an add proceeds iff no entry yet or sign(key,last accepted key)=GT, and on every success path the remembered key "
      "ends as exactly the key added. What remains undecided is only the byte semantics of the comparison function (C02.R3). Re-runs C02.R3 (C08.D.*): the gate is exactly as good as the byte comparison it calls. Re-runs C09.R6 (C08.D.*): the finished file holds the accepted entries only if its index keys bound their blocks.",
      "Trusts clang's constant evaluation of the flag macros for this platform, the mod/ref summaries (field-insensitive "
      "aliasing by access path), and that ubuf_reset/ubuf_clip(0)/ubuf_append have the obvious content semantics.")

claim("C10",
      "sibling agreement of emit/parse sequences against the T-meta table (abstract path evaluation), who-may-write + once-per-path effect rules for the counters",
      "Decides completely the field-order clause: the trailer layout computed from metadata_write (offsets, zero padding, magic), "
      "from metadata_read (offsets, magic->version map), the ten accessors and mtbl_info's labels all equal the format table. "
      "Decides per path that each counter is bumped exactly once per accepted entry / written block with the right operand, never on a "
      "refusal, that index offset/size are recorded after the join and before the trailer, and that no other function stores to them. "
      "Arithmetic truth of totals on real files is not decided. Also decides (R3) width agreement: the nine trailer fields and the writer's offset cursor are declared 64 bits wide and no value derived from them, through locals, parameters and function results across library and tools, is converted to fewer bits.",
      "Trusts the T-meta table (spec/t_meta.json, written from the format documentation), the constant folding of offsets in the "
      "abstract evaluator, and C14 for the absence of races on the handler-updated counters.")

claim("C05",
      "abstract path evaluation of merger_iter_seek (accept sets of the two comparison sites vs. the full re-seek / per-head forward actions) + constructor argument-identity rules",
      "Decides: the forward-seek shortcut is reachable only with sign(target,last returned key)=GT (so seek(K) after next()->K re-seeks every "
      "source), a head is re-sought iff the target is beyond it, seek clears finished (and the pending flag whenever next reads it before writing it) before the first repositioning call and returns success on every path, and "
      "a forward seek that repositions or drops a head records the target as the new reference key; each of the four installed merger entry points (delegation between them followed) is built from the matching per-source lookup with its own key parameters over elements 0,1,2,.. of the source vector, leaving the walk only when the index has reached the size, registering and "
      "offering every non-NULL per-source iterator exactly once and freeing on an empty result. Also decides (R7) that every iterator the merger hands out starts with its heap in heap order: an entry added without sifting (heap_add) is followed by heap_heapify before the constructor returns. The heap the seek rebuilds and next maintains is decided separately in the order domain: for every heap size up to 5 (6 thorough) and every ordering of the heads, heapify/push/pop/replace keep the elements and the parent<=child invariant and pop/replace/peek return a minimum. Equivalence with a single merged table over "
      "all histories is not decided. Also decides the dispatch wiring of the function tables.",
      "Trusts the T-cmp rows 13/14 (invariant read off merger_iter_next: after next returns K all heads are beyond K), loop bound 1 for the "
      "per-source loops, and the access-path aliasing of the evaluator.")

claim("C04",
      "typestate over abstract paths of merger_iter_next (Fresh/Consumed/Refilled per head entry), sentinel rule on key length, decision tables of the comparator and heap sites",
      "Decides per path: a failed merge returns failure before any further consumption; every head entry is consumed exactly once before "
      "its refill, a successful refill is re-sifted, success is returned only after consuming an entry; heads are folded iff keys are equal and, with a merge function, an entry is emitted only after the heap ran dry or the next head differs; the result pointer handed to the merge function is NULL at every call; "
      "no branch depends on the length of the pending key (the empty key is legal); the comparator orders exhausted entries last, returns the "
      "key comparison unchanged and consults dupsort only for equal keys with (a.val,b.val); the three heap comparison sites keep a min-heap; "
      "the two writer-feeding loops add every yielded entry once and stop at the first refused add. Also decides (R12) that every iterator the merger hands out starts with its heap in heap order (heap_add is followed by heap_heapify before the constructor returns). Heap algorithm correctness and fold "
      "multiplicity over all source families are not decided. Also decides (R9) that merge, dupsort and the heap comparison are each called, and forwarded, with the closure registered with them (pairs derived from the registering functions), and (R10) the heap discipline in the order domain: for every heap size up to 5 (6 thorough) and every ordering, heapify/push/pop/replace keep the elements and the parent<=child invariant and pop/replace/peek return a minimum; re-runs C02.R3 (C04.D.*). Also decides the container contract of libmy/vector.h (the macro all buffers, restart arrays, heap arrays and entry lists are generated from) with an allocation-aware interpreter: in 36 scenarios per family (1-byte, 8-byte integer and pointer elements) every operation keeps the representation invariant, preserves the elements, meets its post-condition and stays inside live allocations.",
      "Trusts loop bound 1 (2 in thorough) for the two nested loops, that user callbacks only write through their arguments, and the "
      "role recognition of heap operands by index expression ((pos-1)>>1, 2*pos+1, +1).")

claim("C03",
      "typestate coupling rule for the cached block offset (conditional on the reuse decision), abstract path evaluation of seek/next flag handling and of the index-reuse decision on the paths of reader_iter_seek (internal helpers evaluated as part of it), accept sets of in-block seek sites",
      "Decides: wherever a freshly loaded block is stored into a reader iterator the cached offset is stored from the offset that selected it "
      "(directly or through a verified out-parameter), so the reuse shortcut of reader_iter_seek can never see a stale identity; seek past the "
      "end only marks the iterator invalid, failure is sticky, next advances iff not first; the index iterator keeps its position only on paths that have established: not first, a block is loaded, current key <= target, current index key >= target (re-seeking more often is always correct and is not an alarm); the "
      "continue-from-current shortcut of block_iter_seek is taken only for sign(current,target)=LT inside the located run, and an exhausted block iterator carries restart_index = num_restarts so the shortcut cannot match it. The contract over "
      "all (position,target) histories is not decided. Also decides the dispatch wiring of the function tables; re-runs C09.R6 (C03.D.*). The in-block search (galloping, bisection, continue-from-current shortcut, linear scan) is decided in the order domain: for every block of up to 5 restart points (6 thorough), restart interval 1..3, every iterator state (fresh, at any entry, exhausted) and every position of the target among the keys, block_iter_seek ends on the first entry >= target or exhausted, and never indexes outside the restart array.",
      "Trusts T-cmp rows 2,3,8,10; out-parameter coupling is verified inside the callee by path evaluation; loop bound 1.")

claim("C02",
      "abstract path evaluation (decision tables) of reader_iter_next's per-kind predicate and of bytes_compare, constructor argument-identity table, accept sets of in-block search sites, type rule on char comparisons with a kept positive example",
      "Decides: GET returns iff sign(key,bound)=EQ, RANGE iff sign in {LT,EQ}, PREFIX iff len(bound)<=len(key) and the first len(bound) bytes are equal, "
      "ITER never ends early, every kind is handled (by switch label or a chain of equality tests); each of the four entry points the reader installs in its source (decided on their paths with the unit's internal functions evaluated as part of them) seeks the index and then the block with the right parameters, stores the right bound and kind, returns an iterator with the reader's three callbacks that starts with first=true, valid=true, and gives up (NULL) only when no block could be loaded; bytes_compare's "
      "nine-case table (a path that compares no bytes still returns the sign of the length relation) (memcmp sign, else length relation; min length; operand order); no relational operator on plain/signed char bytes anywhere in the "
      "library; bisection/linear-scan accept sets; separator computed iff a block is cut, right before the flush. That index search plus block search "
      "land on the right entry for every table/query, and the separator arithmetic, are not decided. Also decides the dispatch wiring of the mtbl_iter / mtbl_source function tables (slots of equal signature are not cross-wired at registration, in the wrappers or at any construction site); re-runs C09.R6 (C02.D.*): lookups are routed by the separator keys. The in-block search (galloping, bisection, continue-from-current shortcut, linear scan) is decided in the order domain: for every block of up to 5 restart points (6 thorough), restart interval 1..3, every iterator state (fresh, at any entry, exhausted) and every position of the target among the keys, block_iter_seek ends on the first entry >= target or exhausted, and never indexes outside the restart array.",
      "Trusts memcmp's unsigned-byte semantics, T-cmp rows 4-7,9,11,22, and that lookups reach the reader only through the constructor table.")

claim("C15",
      "registry sibling agreement (switch/branch tables by abstract path evaluation vs T-comp), symbolic derivation of capacities from library bound functions, per-call error-predicate table, interval constraints on levels",
      "Decides completely the name-table clause: to_str/from_str agree per constant, names are distinct, unknown names/constants are refused. "
      "Decides: every dispatcher has a case per constant routed to the T-comp pair with data arguments forwarded and the level forwarded where one exists; "
      "each compressor's capacity and allocation derive from the library's own bound function of the input size; every library result is tested with that "
      "library's predicate before success is reported (a zero content size and a zero byte count from LZ4_decompress_safe are legal results and must not be refused, both zstd sentinels excluded); lz4 prefix framing agrees across the three "
      "siblings; levels reaching zlib/lz4hc/zstd are clamped into the legal interval on every path; failure exits free the output; when the inflate buffer grows zlib is told exactly the room that was added at the old end; every realloc size is provably positive. The libraries' own "
      "round-trip behaviour on every buffer is not decided. Also decides (R9), by interpreting the allocation wrappers over an allocator model, that my_malloc/my_calloc/my_realloc pass every size - 0 and sizes beyond 2^32 included - to the C library and fail only on NULL.",
      "Trusts T-comp/T-liberr (library contracts transcribed from their headers), that library calls write only through the pointers they are handed, "
      "and clang's constant evaluation of the zlib/zstd macros.")

claim("C19",
      "taint + dominating-guard rule over abstract paths of mtbl_reader_init_fd (sources: values decoded from mapped bytes; sinks: T-extent readers), loop-bound derivation for the varint decoder, abstract interpretation of the block reader on arbitrary bytes",
      "Decides: on every path of the open function each read of the mapping whose offset or length contains a file-derived quantity (trailer fields, "
      "fixed/varint decodes) is preceded by a comparison of an expression containing that quantity with a file-size-derived expression, continuing on "
      "the in-bounds side (a 64-bit file-derived value compared only inside a sum needs an accompanying wrap check; a bound formed by subtracting constants from the file size needs the size established first); the trailer read is preceded by size >= 512; the varint decoder touches at most 10/5 bytes (derived from its loop); "
      "the real block_init / block_iter_init / seek_to_first / next, interpreted on byte strings that are not blocks (lengths 0..24, three fill patterns, every interesting value in the last four bytes), end in an assertion or a clean walk and never access anything outside the bytes given. Presence and dominance of the "
      "guards are decided, not the algebra of each inequality (overflow corner cases of the arithmetic are not decided). Also decides (R3) that the file length, index offset/length and cached block offset are 64 bits wide and never narrowed on the way to a comparison or pointer computation; re-runs C17.R2 (C19.D.*): the checksum routine consumes exactly the extent it is handed.",
      "Trusts T-extent (which callee reads how many bytes), mmap/fstat contracts, and data-block lengths at get_block being outside this property's statement.")

claim("C18",
      "ownership dataflow (acquire -> release | transfer on every path to every normal exit, per T-own) by abstract path evaluation of every library function; path-wise release completeness of owning fields at each free of a record",
      "Decides: in every library function each descriptor, mapping, heap block, vector or object obtained from an acquiring call is released, returned, "
      "stored into an object or handed to a consuming parameter on every path to every normal exit (failed acquisitions hold nothing, NORETURN exits exempt); "
      "at every free of a record each owning field (one that anywhere receives an acquired value) was released or moved earlier on that path or never assigned; "
      "munmap uses the mapped length; the three listed indirections (queue released by the joined result thread, reference-counted shared fileset, writer's "
      "closed flag) are verified structurally. Leak freedom over all API histories (aliasing through containers, element-wise release loops) and the temp-file "
      "namespace are not decided; teardown order versus the handler thread is decided in C13.R3. Also decides (R5) that a parameter through which callers demonstrably hand over an acquired object is stored, released or handed on on every normal path of the callee (unless established NULL). Also decides the container contract of libmy/vector.h (the macro all buffers, restart arrays, heap arrays and entry lists are generated from) with an allocation-aware interpreter: in 36 scenarios per family (1-byte, 8-byte integer and pointer elements) every operation keeps the representation invariant, preserves the elements, meets its post-condition and stays inside live allocations. Also decides (R7) that an entry my_fileset_reload marks as re-used does not itself remain in the fileset with the mark set.",
      "Trusts T-own (which calls acquire/release/consume/borrow), inference of consuming parameters from 'parameter stored into an object', loop bound 1.")

claim("C13",
      "must-lockset dataflow, condition-variable predicate-store discipline against T-cv, lock pairing/nesting graph, join-before-use of handler-written fields (role effect sets from the callback registries), path rules for dispatch/creation/delivery/exits/queue tail",
      "Decides: every cond-wait holds its mutex and lies on a flow-graph cycle that no path leaves without passing a branch that re-reads the shared record (a predicate loop, however it is spelled); every store to a wait-predicate field holds the mutex and is signalled within the "
      "critical section unless T-cv lists it as non-enabling (lost wake-ups); locks are paired on every path, nested acquisitions form the one listed acyclic edge, "
      "no join holds a lock the joined thread takes; caller-role accesses to handler-written state are dominated by the join, the no-pool edge or the verified "
      "joined flag; the writer dispatches ordered; worker creation is counted under the pool mutex only when no idle thread exists and the maximum is not reached; "
      "each delivered result is read-and-cleared once and passed to the callback once; workers and the result thread leave only on their termination conditions; "
      "the result queue's tail pointer is advanced on append and re-anchored when the queue empties. Deadlock freedom under all schedules and byte identity of "
      "outputs are model-checking questions and are not decided. Also decides (R9) that no code reachable from a pool work function or result callback hands a non-NULL pool to a writer or sorter it creates (a job waiting for a slot of the pool it occupies), and (R10), by value on the paths of threadpool_dispatch and thread_worker, that the thread field the worker reads to choose between its two ways of reporting completion holds for every job what the dispatch of that job asked for: the handler's queue for an unordered dispatch, NULL for an ordered one - stored by the dispatch, or left alone only when idle threads provably have it NULL (created zeroed, cleared by the worker after every job). Re-runs C14 (C13.D.*): the same result under every interleaving presupposes that jobs share no unsynchronised state.",
      "Trusts T-cv/T-lock (which stores are non-enabling and why), pthread semantics, lock objects told apart by base expression inside one function, loop bound 1.")

claim("C14",
      "who-may-write rules over whole-library mod/ref for the immutable reader-side records, disjointness of role effect sets (caller/worker/handler) derived from the callback registries, must-lockset discipline per pool field against T-lock, single pre-main writer of the CRC dispatch pointer",
      "Decides completely the immutability clause: reader, block, source and iterator-handle fields are stored only by their constructors/destructors, nothing reachable "
      "from the iterator entry points writes reader state or the mapped bytes, and my_crc32c is the library's only mutable file-scope variable. Decides: worker jobs modify "
      "nothing on the shared writer/sorter, worker and handler effect sets do not conflict, the dispatcher does not touch a job after handing it over, caller-side accesses "
      "to handler-written fields are post-join (C13.R3 re-run); every access to a thread/resultq/threadpool field satisfies its lock discipline or a counted listed exception; "
      "the CRC dispatch pointer is written only by the constructor-attributed detection. Also decides (R5) that a record handed to the pool holds only allocations, buffers detached from their builder or objects moved out of the dispatcher in its pointer members - never the interior pointer of a vector the dispatching thread goes on modifying. User callbacks, third-party libraries and the allocator are not decided.",
      "Trusts T-lock/T-roles exceptions (each one named symbol with a reason), type-based field effects (no aliasing between different record types), the build's constructor support.")

claim("C07",
      "typestate over abstract paths of the two reload functions (handle generation: declared current => rebuilt or known current), guard/decision-table rules for reload vs. open iterators, counting-pair and reload-before-use rules, filter formula",
      "Decides: the setfile is reloaded only with n_iters==0 established on the path and only from the two reload functions; n_iters is incremented exactly on the paths that hand out a counted iterator, in "
      "the only wrapper all four source functions return through and decremented once by the registered free function, which then retries the reload; every source operation "
      "reloads before using the merger; the reload decision equals T-cmp 24 (pending or strictly more than the interval, never under open iterators, NEVER honoured only when "
      "nothing is pending) and the pending flag is cleared only after a reload; every return of mtbl_fileset_reload leaves the handle rebuilt or shown equal to the shared generation; a handle stores its generation only when its merger was rebuilt or shown equal to the shared "
      "generation with nothing loaded/unloaded since; a reader is added to the view iff non-NULL and accepted by every configured filter. Setfile parsing, keep/unload "
      "bookkeeping over all histories, the clock, and snapshot contents are not decided. Also decides (R8) that the generation stamp handles compare for equality is read from a clock that is not one of the platform's coarse clocks, and (R9) closure pairing for the fileset's filter/merge/dupsort callbacks. R8 also requires my_gettime to forward the clock id unchanged.",
      "Trusts that equal timestamps mean the same generation (as the code does), T-cmp rows 24/25, loop bound 1 for the file loop.")

claim("C17",
      "recomputation of the Castagnoli slicing tables compared with the 2048 initialiser constants in the AST; abstract interpretation of both implementations over GF(2) (bits are XORs of named input bits) compared with the standard algorithm as affine forms",
      "Decides completely that all 2048 table constants equal the CRC-32C tables derived from polynomial 0x82F63B78 (thorough tier: also the byte-reversed big-endian tables). "
      "Decides, for every content of every buffer length 0..26 (0..72 thorough) at addresses 0,1,3,4,7 (all eight thorough) modulo 8, that the SSE4.2 routine and the table-driven routine each return "
      "the standard CRC-32C: exclusive-or, shifts, masks and little-endian loads are exact in the domain, a lookup in a slicing table with a symbolic index is exact because every table is verified "
      "to be affine over GF(2), and the crc32b/w/l/q instructions are modelled by their definition; 32 affine forms per case must equal those of the reference algorithm run on the same symbols. "
      "Also: no byte outside [buf, buf+len) is read; the wrapper forwards (buf,size); only the two implementations and the trampoline are installed. Lengths beyond the enumerated ones rest on the loops' uniformity and are not decided.",
      "Trusts the architectural definition of the crc32 instructions and little-endian loads on this target; no input value is chosen and no solver is involved.")

claim("C09",
      "sibling/table agreement of writer-side emit sequences (abstract path evaluation) with the declarative MTBL v2 format table; path rules for CRC scope, restart cadence, size gate and offset bookkeeping",
      "Decides: an entry is emitted as varint32 shared / non_shared / value_len, key suffix from key+shared, value, each at the write cursor which advances by exactly what was written; "
      "shared is the common prefix with the previous key; the restart array is u32le (u64le iff the entries region exceeds UINT32_MAX) followed by the u32le count, and the size estimate "
      "agrees with it; what the writer hands to the write loop per block - decided on the paths of the data-block writer and the finishing function with every static function of writer.c in line, each buffer decomposed into the pieces the codecs put into it - parses as varint64 length, 4-byte CRC32C, stored bytes of one and the same block (the checksum stored little-endian and written raw, or kept in host order and encoded where it is written, never a mixture); the checksum is taken over (data,len_data) of the "
      "same block after their last definition and nothing between compression and the file changes them; restart cadence; a builder finished by the writer is fit for the next block (interpreted: the second block, read by the real iterator, holds exactly the next entries); a block is cut iff estimate+15+len_key+len_val "
      ">= block_size; the index entry carries the offset the block started at, and the file cursor (the writer field set from lseek at init, under whatever name) is advanced exactly once per frame by the frame's bytes; trailer layout as in C10; every increment applied to separator bytes is guarded against wrap-around and a value computed from a multi-byte read is written back whole (the index key cannot drop below the block's last key that way). "
      "The bytes of real files (which need an independent decoder run on outputs) and the separator arithmetic are not decided. Also decides that every block record reaching the block-writing function has had its crc field stored on every path, inline or through the pool's work function (definite assignment); re-runs C16 and C17 (C09.D.*). Also decides the container contract of libmy/vector.h (the macro all buffers, restart arrays, heap arrays and entry lists are generated from) with an allocation-aware interpreter: in 36 scenarios per family (1-byte, 8-byte integer and pointer elements) every operation keeps the representation invariant, preserves the elements, meets its post-condition and stays inside live allocations. Also decides, by interpreting the real block builder on builders whose entry buffer is tightened to size+d bytes before every add and before finish (d = 0..11, 0..23 thorough), that every write stays inside what was reserved and the finished size is entries + 4 per restart + 4. The entry row and block trailer of the format are decided on the bytes the real block builder produces when interpreted on entries of concrete lengths (0..131, single- and multi-byte headers) and symbolic bytes: varint(shared) varint(non_shared) varint(value_len) suffix value with truly shared bytes, restart points every interval entries, 32-bit little-endian restart offsets and their count.",
      "Trusts T-format (written from the LevelDB block format and mtbl's documentation), the varint/fixed codecs (decided separately by C16), loop bound 1.")

claim("C11",
      "sibling agreement of the three reader-side framing decoders per format version (additive-term comparison of pointer expressions from abstract paths), abstract interpretation (allocation-aware) of the block iterator on independently encoded blocks",
      "Decides: in mtbl_reader_init_fd, get_block and mtbl_verify's block loop, for V1 and V2 alike, the length is read at +0, the stored CRC at +length-of-length and the payload at "
      "+length-of-length+4 with the decoded length; each magic maps to its version and others are refused; the real block iterator, interpreted on blocks laid out by an encoder of the format that is independent of the library's builder - restart points at every entry / some / only the first, maximal / partial / no sharing, one- and multi-byte headers, empty keys and values, sparse blocks with entries regions of 2^32-1, 2^32 and more bytes (32- versus 64-bit restart words exactly at the boundary) - reports every encoded entry bit for bit and nothing after the last, and block_iter_seek on concrete keys ends on the first entry >= target from a fresh iterator and from every position; "
      " nothing in the reader reads the writer's restart interval, and outside metadata.c and the writer nothing reads the trailer's statistics fields. Whole files from an independent encoder (index separators anywhere in the legal interval, compression) are not interpreted; the index search rests on C02/C03. Re-runs C02, C03 and C16 (C11.D.*): lookups, seeks and integer decoding on independently encoded files go through exactly those paths.",
      "Trusts T-format, additive parsing of pointer expressions (no subtraction), loop bound 1.")

claim("C01",
      "writer/reader entry codec agreement against the format table, exactly-once pass-through and life-cycle rules over abstract paths, decision table of mtbl_dump's filter; abstract interpretation (allocation-aware, symbolic bytes) of the block builder and of the block iterator",
      "Decides: the bytes the real block builder produces for entries of concrete lengths and symbolic contents equal the entry row and block trailer of T-format, and the real block iterator, interpreted on blocks laid out by an encoder of the format that is independent of the builder (every legal restart placement and amount of sharing, one- and multi-byte headers, sparse blocks beyond 4 GiB with 64-bit restart words, seeks on concrete keys from every iterator state), reports exactly the encoded entries; every accepted add reaches the data "
      "block builder exactly once with the caller's key/value after any block cut and a refused add never does; a builder the writer has finished a block with yields, after whatever the writer calls on it next, a block holding exactly the next entries (interpreted, read back by the real iterator), a cut block goes either to the pool "
      "once or is compressed then written once, finish runs flush < join < index block < one 512-byte trailer; an exhausted block makes next advance the index once, load the block it names "
      "and position at its first entry, failing only at the end of the index; mtbl_dump prints an entry iff not silent and both prefix tests (length and bytes) and both minimum lengths hold. "
      "That prefix sharing, restart offsets and block cuts compose to the identity for every key sequence and configuration, and the compression libraries, are not decided. Also decides (R6) that the quantity block_builder_empty tests is emptied by reset and grows by a provably positive amount on every path of block_builder_add, so no non-empty block is skipped at flush; and re-runs the rules of C20 and C16 (labelled C01.D.*) because the round trip rests on them. Also decides the container contract of libmy/vector.h (the macro all buffers, restart arrays, heap arrays and entry lists are generated from) with an allocation-aware interpreter: in 36 scenarios per family (1-byte, 8-byte integer and pointer elements) every operation keeps the representation invariant, preserves the elements, meets its post-condition and stays inside live allocations. Also decides, by interpreting the real block builder on builders whose entry buffer is tightened to size+d bytes before every add and before finish (d = 0..11, 0..23 thorough), that every write stays inside what was reserved and the finished size is entries + 4 per restart + 4. Also decides the dispatch wiring of the mtbl_iter / mtbl_source function tables (registration, wrappers, construction sites). The entry row and block trailer of the format are decided on the bytes the real block builder produces when interpreted on entries of concrete lengths (0..131, single- and multi-byte headers) and symbolic bytes: varint(shared) varint(non_shared) varint(value_len) suffix value with truly shared bytes, restart points every interval entries, 32-bit little-endian restart offsets and their count.",
      "Trusts T-format, the varint codecs (decided separately by C16), loop bound 1, three-valued evaluation of the dump formula over the atoms each path constrains.")

claim("C12",
      "must-pass-through of a NORETURN-guarded CRC comparison over exactly the decoded bytes on every verify-enabled path to block decoding, who-may-call rules, loop/propagation rules for mtbl_verify, liveness of assert in the build",
      "Decides: blocks become decodable only in the functions of reader.c that call block_init (the gate functions, under whatever name; helpers they are split into are evaluated as part of them) and stored bytes are decompressed only there; on each of their paths with verify_checksums set, "
      "the stored CRC (the four bytes in front of the payload) is required equal to mtbl_crc32c over exactly the (pointer,length) later handed to decompression/block_init, with the failing edge "
      "NORETURN; the writer-side CRC scope of C09.R2; mtbl_verify (decided on the paths of verify_file with its helpers in line: the number of blocks checked on a path that reports OK is the only value of the trailer's block count that the path's own tests admit) visits every data block, returns false on a mismatch or overrun, prints OK and exits 0 only when everything verified, and opens "
      "the reader with verification on so the index block is covered; asserts are compiled in (no NDEBUG, 60+ live failure edges). Detection strength of CRC-32C is mathematics and the implementation "
      "is C17. Re-runs C17 (C12.D.*): an intact file verifies only if writer and verifier compute the same standard CRC-32C.",
      "Trusts clang's NORETURN knowledge of __assert_fail, the flags reported by make -n / Makefile.am / config.status, loop bound 1.")

claim("C06",
      "path rules over mtbl/sorter.c: refusal gate purity, spill decision table, who-may-create-files with template derivation, fold typestate per chunk, final merger construction",
      "Decides: mtbl_sorter_add and mtbl_sorter_write fail without any store, call or allocation once `iterating` is set and mtbl_sorter_iter sets it whenever it returns an iterator; an entry's "
      "allocation size is what is accounted and a spill happens iff entry_bytes + vector bytes >= max_memory after accounting, the batch hand-over resets both; mkstemp in the chunk writer is the "
      "sorter's only file creation, its template starts with the configured directory followed by one file-name component, and the file is unlinked on every path; the whole batch is sorted by key "
      "first, neighbours are folded iff their keys are equal and otherwise written, no entry is freed twice; the final merger gets the sorter's merge function/closure and every chunk reader, after "
      "the join. That chunking never changes the result and qsort/merge behaviour on values are not decided. Also decides (R6) that the buffered-bytes total and the memory limit are 64 bits wide and never narrowed, (R7) that the sorter's merge function is called and forwarded with its own closure; re-runs C02.R3 (C06.D.*). Also decides the container contract of libmy/vector.h (the macro all buffers, restart arrays, heap arrays and entry lists are generated from) with an allocation-aware interpreter: in 36 scenarios per family (1-byte, 8-byte integer and pointer elements) every operation keeps the representation invariant, preserves the elements, meets its post-condition and stays inside live allocations. Re-runs the heap discipline (C06.R9) and all rules of C04 (C06.D.*): the sorted output is the merge of the chunks.",
      "Trusts T-cmp rows 16-18, mkstemp/unlink semantics, loop bound 1.")
