# table consumed by mkmanifest.py : claim(id, technique, level text, level note) / na(id, reason)

claim("C20",
      "who-may-call rule for write(2) + abstract path evaluation of the retry loop over the clang CFG",
      "Decides, for every path of the function that holds the library's only write(2) call site: the call "
      "uses the current cursor/remaining pair; n>0 advances both by n; EINTR retries unchanged; any other "
      "n<=0 reaches a NORETURN block; normal return only with remaining==0; plus pointer/length pairing at "
      "every caller. These are necessary and, together with C09's emit sequences, structurally sufficient "
      "conditions for fragmentation independence; byte identity itself is an argument, not a checked fact.",
      "Trusts clang's CFG/NORETURN knowledge (assert is live, rule G1 in C12), the kernel's write(2) contract, "
      "and that the loop is bounded-unrolled once (bound 1) - the loop body is re-entered with symbolic state.")

na("C16", "arithmetic identity over all 2^32/2^64 values (shifts, masks, thresholds): its truth is in the numbers, "
          "not in the shape of the code; any shape rule would be a frozen picture of today's source; needs exhaustive "
          "evaluation or a bit-vector proof, both other technique families (DESIGN section 3 C16 / section 5)")
