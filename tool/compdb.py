#!/usr/bin/env python3
"""Derive the compilation database of /repo from its own build description.

Unit list: mtbl_libmtbl_la_SOURCES and the src_*_SOURCES of Makefile.am
(what the build covers; tests are out of scope).  Flags: the -D/-U/-I/-include
/-std options of the compile line `make -n` prints for one library object and
one tool object, united with the -D/-U options written in Makefile.am and
configure's CPPFLAGS/CFLAGS (so that a define added to the build description
is seen even if the generated Makefile is stale).
"""
import os, re, shlex, subprocess, sys, json, hashlib

REPO = os.environ.get("MTBL_REPO", "/repo")


class BrokenAnalysis(Exception):
    pass


def _am_vars(text):
    # join continuation lines
    text = re.sub(r"\\\n", " ", text)
    out = {}
    for m in re.finditer(r"^([A-Za-z_0-9]+)\s*(\+?=)\s*(.*)$", text, re.M):
        k, op, v = m.group(1), m.group(2), m.group(3).strip()
        if op == "+=" and k in out:
            out[k] += " " + v
        else:
            out[k] = v
    return out


def units():
    am = open(os.path.join(REPO, "Makefile.am")).read()
    v = _am_vars(am)
    lib = [s for s in v.get("mtbl_libmtbl_la_SOURCES", "").split() if s.endswith(".c")]
    tools = []
    for k, val in v.items():
        if re.match(r"src_[a-z_]+_SOURCES$", k):
            tools += [s for s in val.split() if s.endswith(".c")]
    if not lib:
        raise BrokenAnalysis("no library sources found in Makefile.am")
    for s in lib + tools:
        if not os.path.exists(os.path.join(REPO, s)):
            raise BrokenAnalysis("Makefile.am names missing source %s" % s)
    return lib, tools


def _flags_from_line(line):
    toks = shlex.split(line, posix=True)
    out = []
    i = 0
    while i < len(toks):
        t = toks[i]
        if t in ("-include", "-I", "-D", "-U", "-isystem") and i + 1 < len(toks):
            out += [t, toks[i + 1]]
            i += 2
            continue
        if re.match(r"-(D|U|I|std=|f(no-)?(un)?signed-char)", t):
            out.append(t)
        i += 1
    return out


def _make_flags(obj):
    try:
        p = subprocess.run(["make", "-n", "-B", "-o", "Makefile", "-o", "config.h", obj],
                           cwd=REPO, capture_output=True, text=True, timeout=60)
    except Exception as e:  # pragma: no cover
        raise BrokenAnalysis("make -n failed: %s" % e)
    for line in p.stdout.splitlines():
        m = re.search(r"\b(gcc|cc|clang)\b(.* -c .*)$", line)
        if m:
            l = m.group(2).rstrip("\\ &")
            l = l.replace("$depbase", "x")
            return _flags_from_line(l)
    return None


def flags():
    f = _make_flags("mtbl/writer.lo")
    if f is None:
        # no usable Makefile: fall back to the documented flag set
        f = ["-DHAVE_CONFIG_H", "-I.", "-include", "./config.h", "-I./mtbl"]
    # -D/-U mentioned in Makefile.am itself or in configure.ac AM_C*FLAGS
    am = _am_vars(open(os.path.join(REPO, "Makefile.am")).read())
    extra = []
    for k in ("AM_CPPFLAGS", "AM_CFLAGS", "mtbl_libmtbl_la_CPPFLAGS", "mtbl_libmtbl_la_CFLAGS"):
        for t in am.get(k, "").split():
            if re.match(r"-[DU]\w", t):
                extra.append(t)
    # config.status CFLAGS/CPPFLAGS (what configure was run with)
    cs = os.path.join(REPO, "config.status")
    if os.path.exists(cs):
        txt = open(cs, errors="replace").read()
        for var in ("CPPFLAGS", "CFLAGS"):
            m = re.search(r'^S\["%s"\]="(.*)"$' % var, txt, re.M)
            if m:
                for t in m.group(1).split():
                    if re.match(r"-[DU]\w", t):
                        extra.append(t)
    for t in extra:
        if t not in f:
            f.append(t)
    # absolutise
    out = []
    i = 0
    while i < len(f):
        t = f[i]
        if t in ("-include", "-I") and i + 1 < len(f):
            out += [t, os.path.normpath(os.path.join(REPO, f[i + 1]))]
            i += 2
            continue
        if t.startswith("-I") and len(t) > 2:
            out.append("-I" + os.path.normpath(os.path.join(REPO, t[2:])))
        else:
            out.append(t)
        i += 1
    if not any(t.startswith("-std=") for t in out):
        out.append("-std=gnu17")  # default of gcc 12 and clang 14 for C, stated explicitly
    if not os.path.exists(os.path.join(REPO, "config.h")):
        raise BrokenAnalysis("/repo/config.h missing (run ./configure)")
    return out


def source_hash(extra=()):
    h = hashlib.sha256()
    for root in ("mtbl", "libmy", "src"):
        d = os.path.join(REPO, root)
        for dp, dn, fn in sorted(os.walk(d)):
            dn.sort()
            for n in sorted(fn):
                if n.endswith((".c", ".h")):
                    p = os.path.join(dp, n)
                    h.update(p.encode())
                    h.update(open(p, "rb").read())
    for p in ("config.h", "Makefile.am", "Makefile"):
        q = os.path.join(REPO, p)
        if os.path.exists(q):
            h.update(open(q, "rb").read())
    for e in extra:
        h.update(str(e).encode())
    return h.hexdigest()[:20]


if __name__ == "__main__":
    lib, tools = units()
    print(json.dumps({"lib": lib, "tools": tools, "flags": flags(), "hash": source_hash()}, indent=1))
