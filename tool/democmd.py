#!/usr/bin/env python3
"""democmd.py <worktree>: print the build-and-run command a sub-agent documented at the top of SEED/demo.c
(or `sh SEED/demo.sh`), with absolute worktree paths made relative."""
import os, re, sys
d = sys.argv[1].rstrip("/")
sh = os.path.join(d, "SEED", "demo.sh")
c = os.path.join(d, "SEED", "demo.c")
if os.path.exists(c):
    head = open(c, errors="replace").read().split("\n")[:40]
    txt = []
    on = False
    for l in head:
        l2 = re.sub(r"^\s*(/\*+|\*+/?|//)\s?", "", l).rstrip()
        if not on and re.search(r"\b(cc|gcc|clang)\b .*(-o|demo\.c)", l2):
            on = True
        if on:
            txt.append(l2.rstrip("\\").strip())
            if re.search(r"SEED/demo(\s|$)", l2) and not l2.rstrip().endswith("\\") and "demo.c" not in l2.split("SEED/demo")[-1]:
                if re.search(r"(&&|;)\s*(\./)?SEED/demo\b(?!\.c)", " ".join(txt)):
                    break
    cmd = " ".join(x for x in txt if x)
    cmd = cmd.replace(d + "/", "").replace("-I" + d, "-I.")
    cmd = re.sub(r"\s+", " ", cmd).strip()
    m = re.search(r"^(.*?(?:&&|;)\s*(?:\./)?SEED/demo\b(?!\.c)[^&;]*)", cmd)
    print(m.group(1).strip() if m else cmd)
elif os.path.exists(sh):
    print("sh SEED/demo.sh")
else:
    print("")
