// mtblx - fact extractor for the mtbl static checks.
//
// One translation unit in, one JSON file out.  For every record, enum, global
// and function definition that does not come from a system header it emits the
// resolved AST (typed expression trees with resolved callees, member accesses
// as (record, field), declaration identities, constant-evaluated integers and
// macro provenance) and the clang::CFG of every function body (blocks,
// elements as references into the tree, terminators, ordered successors,
// NORETURN blocks, case labels).
//
// usage: mtblx <source.c> -o <out.json> -- <compiler flags>
//
#include "clang/AST/ASTConsumer.h"
#include "clang/AST/ASTContext.h"
#include "clang/AST/Attr.h"
#include "clang/AST/Decl.h"
#include "clang/AST/Expr.h"
#include "clang/AST/RecursiveASTVisitor.h"
#include "clang/AST/Stmt.h"
#include "clang/Analysis/CFG.h"
#include "clang/Basic/SourceManager.h"
#include "clang/Frontend/CompilerInstance.h"
#include "clang/Frontend/FrontendAction.h"
#include "clang/Lex/Lexer.h"
#include "clang/Tooling/Tooling.h"
#include "llvm/Support/raw_ostream.h"

#include <fstream>
#include <map>
#include <set>
#include <sstream>
#include <string>
#include <vector>

using namespace clang;

static std::string g_out;
static std::string g_src;

static std::string jstr(llvm::StringRef s) {
  std::string o = "\"";
  for (unsigned char c : s) {
    switch (c) {
    case '"': o += "\\\""; break;
    case '\\': o += "\\\\"; break;
    case '\n': o += "\\n"; break;
    case '\r': o += "\\r"; break;
    case '\t': o += "\\t"; break;
    default:
      if (c < 0x20 || c >= 0x7f) {
        char b[8];
        snprintf(b, sizeof b, "\\u%04x", c);
        o += b;
      } else
        o += (char)c;
    }
  }
  o += "\"";
  return o;
}

namespace {

class Extractor {
public:
  ASTContext &Ctx;
  SourceManager &SM;
  std::ostringstream os;

  // per function state
  std::map<const Stmt *, int> ids;
  std::map<const VarDecl *, int> localIds;
  int nextId = 0;
  const FunctionDecl *curFn = nullptr;

  explicit Extractor(ASTContext &C) : Ctx(C), SM(C.getSourceManager()) {}

  bool inSystem(SourceLocation L) {
    if (L.isInvalid())
      return true;
    SourceLocation E = SM.getExpansionLoc(L);
    if (SM.isInSystemHeader(E))
      return true;
    return false;
  }

  std::string fileOf(SourceLocation L) {
    SourceLocation E = SM.getExpansionLoc(L);
    PresumedLoc P = SM.getPresumedLoc(E);
    if (P.isInvalid())
      return "";
    return P.getFilename();
  }
  unsigned lineOf(SourceLocation L) {
    SourceLocation E = SM.getExpansionLoc(L);
    return SM.getExpansionLineNumber(E);
  }
  unsigned colOf(SourceLocation L) {
    SourceLocation E = SM.getExpansionLoc(L);
    return SM.getExpansionColumnNumber(E);
  }

  std::string tyStr(QualType T) { return T.getAsString(); }
  std::string ctyStr(QualType T) { return T.getCanonicalType().getAsString(); }

  std::string recName(const RecordDecl *RD) {
    if (!RD)
      return "";
    if (RD->getIdentifier())
      return RD->getName().str();
    if (const TypedefNameDecl *TD = RD->getTypedefNameForAnonDecl())
      return TD->getName().str();
    return "<anon@" + std::to_string(lineOf(RD->getLocation())) + ">";
  }
  std::string enumName(const EnumDecl *ED) {
    if (!ED)
      return "";
    if (ED->getIdentifier())
      return ED->getName().str();
    if (const TypedefNameDecl *TD = ED->getTypedefNameForAnonDecl())
      return TD->getName().str();
    return "<anon@" + std::to_string(lineOf(ED->getLocation())) + ">";
  }

  std::vector<std::string> macroStack(SourceLocation L) {
    std::vector<std::string> r;
    const LangOptions &LO = Ctx.getLangOpts();
    int guard = 0;
    while (L.isMacroID() && guard++ < 32) {
      // skip macro-argument expansions: the token was written by the caller
      if (SM.isMacroArgExpansion(L)) {
        L = SM.getImmediateSpellingLoc(L);
        continue;
      }
      llvm::StringRef n = Lexer::getImmediateMacroName(L, SM, LO);
      if (!n.empty())
        r.push_back(n.str());
      L = SM.getImmediateMacroCallerLoc(L);
    }
    return r;
  }

  // ---- expression / statement tree -------------------------------------

  void emitDeclRef(const ValueDecl *D) {
    if (const auto *P = dyn_cast<ParmVarDecl>(D)) {
      os << ",\"dk\":\"param\",\"idx\":" << P->getFunctionScopeIndex();
    } else if (const auto *V = dyn_cast<VarDecl>(D)) {
      if (V->isLocalVarDecl()) {
        auto it = localIds.find(V);
        int id;
        if (it == localIds.end()) {
          id = (int)localIds.size();
          localIds[V] = id;
        } else
          id = it->second;
        os << ",\"dk\":\"" << (V->isStaticLocal() ? "slocal" : "local") << "\",\"lid\":" << id;
      } else {
        os << ",\"dk\":\"global\"";
      }
    } else if (isa<FunctionDecl>(D)) {
      os << ",\"dk\":\"func\"";
    } else if (const auto *EC = dyn_cast<EnumConstantDecl>(D)) {
      os << ",\"dk\":\"enumconst\",\"enum\":"
         << jstr(enumName(dyn_cast<EnumDecl>(EC->getDeclContext())));
    } else {
      os << ",\"dk\":\"other\"";
    }
    os << ",\"name\":" << jstr(D->getName());
  }

  void emitVarDecl(const VarDecl *V) {
    int id;
    auto it = localIds.find(V);
    if (it == localIds.end()) {
      id = (int)localIds.size();
      localIds[V] = id;
    } else
      id = it->second;
    os << "{\"name\":" << jstr(V->getName()) << ",\"lid\":" << id
       << ",\"t\":" << jstr(tyStr(V->getType())) << ",\"ct\":" << jstr(ctyStr(V->getType()))
       << ",\"static\":" << (V->isStaticLocal() ? "true" : "false");
    if (V->hasInit()) {
      os << ",\"init\":";
      emitStmt(V->getInit(), {});
    }
    os << "}";
  }

  void emitStmt(const Stmt *S, const std::vector<std::string> &parentMacros) {
    if (!S) {
      os << "null";
      return;
    }
    int id = nextId++;
    ids[S] = id;
    os << "{\"id\":" << id << ",\"k\":" << jstr(S->getStmtClassName());
    SourceLocation B = S->getBeginLoc();
    os << ",\"line\":" << lineOf(B) << ",\"col\":" << colOf(B);
    std::vector<std::string> ms = macroStack(B);
    if (ms != parentMacros && !ms.empty()) {
      os << ",\"macro\":[";
      for (size_t i = 0; i < ms.size(); i++)
        os << (i ? "," : "") << jstr(ms[i]);
      os << "]";
    }
    std::vector<const Stmt *> kids;
    bool customKids = false;

    if (const auto *E = dyn_cast<Expr>(S)) {
      os << ",\"t\":" << jstr(tyStr(E->getType()));
      std::string ct = ctyStr(E->getType());
      if (ct != tyStr(E->getType()))
        os << ",\"ct\":" << jstr(ct);
      if (!E->isValueDependent() && E->getType()->isIntegralOrEnumerationType() &&
          !isa<InitListExpr>(E)) {
        Expr::EvalResult R;
        if (E->EvaluateAsInt(R, Ctx, Expr::SE_NoSideEffects)) {
          llvm::SmallString<40> sv;
          R.Val.getInt().toString(sv, 10);
          os << ",\"val\":" << sv.str().str();
        }
      } else if (!E->isValueDependent() && E->getType()->isPointerType()) {
        if (E->isNullPointerConstant(Ctx, Expr::NPC_ValueDependentIsNotNull))
          os << ",\"null\":true";
      }
    }

    if (const auto *DR = dyn_cast<DeclRefExpr>(S)) {
      emitDeclRef(DR->getDecl());
    } else if (const auto *ME = dyn_cast<MemberExpr>(S)) {
      const ValueDecl *MD = ME->getMemberDecl();
      os << ",\"field\":" << jstr(MD->getName())
         << ",\"arrow\":" << (ME->isArrow() ? "true" : "false");
      if (const auto *FD = dyn_cast<FieldDecl>(MD))
        os << ",\"rec\":" << jstr(recName(FD->getParent())) << ",\"fidx\":" << FD->getFieldIndex();
    } else if (const auto *CE = dyn_cast<CallExpr>(S)) {
      if (const FunctionDecl *FD = CE->getDirectCallee()) {
        os << ",\"callee\":" << jstr(FD->getName());
        if (FD->isNoReturn() || FD->hasAttr<NoReturnAttr>())
          os << ",\"noreturn\":true";
        if (unsigned bi = FD->getBuiltinID())
          os << ",\"builtin\":" << bi;
      }
      os << ",\"nargs\":" << CE->getNumArgs();
    } else if (const auto *BO = dyn_cast<BinaryOperator>(S)) {
      os << ",\"op\":" << jstr(BO->getOpcodeStr());
    } else if (const auto *UO = dyn_cast<UnaryOperator>(S)) {
      os << ",\"op\":" << jstr(UnaryOperator::getOpcodeStr(UO->getOpcode()))
         << ",\"prefix\":" << (UO->isPrefix() ? "true" : "false");
    } else if (const auto *IL = dyn_cast<IntegerLiteral>(S)) {
      (void)IL;
    } else if (const auto *SL = dyn_cast<StringLiteral>(S)) {
      if (SL->getCharByteWidth() == 1)
        os << ",\"str\":" << jstr(SL->getBytes());
    } else if (const auto *CL = dyn_cast<CharacterLiteral>(S)) {
      os << ",\"chr\":" << CL->getValue();
    } else if (const auto *CA = dyn_cast<CastExpr>(S)) {
      os << ",\"cast\":" << jstr(CA->getCastKindName());
    } else if (const auto *UE = dyn_cast<UnaryExprOrTypeTraitExpr>(S)) {
      os << ",\"trait\":" << (UE->getKind() == UETT_SizeOf ? "\"sizeof\"" : "\"other\"");
      if (UE->isArgumentType())
        os << ",\"argt\":" << jstr(tyStr(UE->getArgumentType()));
      customKids = true; // unevaluated operand: do not descend
    } else if (const auto *DS = dyn_cast<DeclStmt>(S)) {
      os << ",\"decls\":[";
      bool first = true;
      for (const Decl *D : DS->decls()) {
        if (const auto *V = dyn_cast<VarDecl>(D)) {
          if (!first)
            os << ",";
          first = false;
          emitVarDecl(V);
        }
      }
      os << "]";
      customKids = true;
    } else if (const auto *CS = dyn_cast<CaseStmt>(S)) {
      Expr::EvalResult R;
      if (CS->getLHS() && CS->getLHS()->EvaluateAsInt(R, Ctx)) {
        llvm::SmallString<40> sv;
        R.Val.getInt().toString(sv, 10);
        os << ",\"caseval\":" << sv.str().str();
      }
      if (const auto *CEx = dyn_cast<ConstantExpr>(CS->getLHS())) {
        const Expr *In = CEx->getSubExpr()->IgnoreParenImpCasts();
        if (const auto *DR = dyn_cast<DeclRefExpr>(In))
          os << ",\"casename\":" << jstr(DR->getDecl()->getName());
      } else if (const auto *DR = dyn_cast<DeclRefExpr>(CS->getLHS()->IgnoreParenImpCasts())) {
        os << ",\"casename\":" << jstr(DR->getDecl()->getName());
      }
      kids.push_back(CS->getSubStmt());
      customKids = true;
    } else if (const auto *IS = dyn_cast<IfStmt>(S)) {
      os << ",\"cond\":";
      emitStmt(IS->getCond(), ms);
      os << ",\"then\":";
      emitStmt(IS->getThen(), ms);
      os << ",\"else\":";
      emitStmt(IS->getElse(), ms);
      customKids = true;
    } else if (const auto *WS = dyn_cast<WhileStmt>(S)) {
      os << ",\"cond\":";
      emitStmt(WS->getCond(), ms);
      os << ",\"body\":";
      emitStmt(WS->getBody(), ms);
      customKids = true;
    } else if (const auto *DoS = dyn_cast<DoStmt>(S)) {
      os << ",\"body\":";
      emitStmt(DoS->getBody(), ms);
      os << ",\"cond\":";
      emitStmt(DoS->getCond(), ms);
      customKids = true;
    } else if (const auto *FS = dyn_cast<ForStmt>(S)) {
      os << ",\"init\":";
      emitStmt(FS->getInit(), ms);
      os << ",\"cond\":";
      emitStmt(FS->getCond(), ms);
      os << ",\"inc\":";
      emitStmt(FS->getInc(), ms);
      os << ",\"body\":";
      emitStmt(FS->getBody(), ms);
      customKids = true;
    } else if (const auto *SS = dyn_cast<SwitchStmt>(S)) {
      os << ",\"cond\":";
      emitStmt(SS->getCond(), ms);
      os << ",\"body\":";
      emitStmt(SS->getBody(), ms);
      customKids = true;
    } else if (const auto *ILE = dyn_cast<InitListExpr>(S)) {
      if (ILE->isSemanticForm() && ILE->getType()->isRecordType()) {
        const RecordDecl *RD = ILE->getType()->getAsRecordDecl();
        os << ",\"rec\":" << jstr(recName(RD));
      }
    } else if (const auto *AS = dyn_cast<GCCAsmStmt>(S)) {
      os << ",\"asm\":" << jstr(AS->getAsmString()->getString());
    } else if (const auto *DIE = dyn_cast<DesignatedInitExpr>(S)) {
      (void)DIE;
    }

    if (!customKids) {
      for (const Stmt *C : S->children())
        kids.push_back(C);
    }
    if (!kids.empty()) {
      os << ",\"kids\":[";
      for (size_t i = 0; i < kids.size(); i++) {
        if (i)
          os << ",";
        emitStmt(kids[i], ms);
      }
      os << "]";
    }
    os << "}";
  }

  // ---- CFG -----------------------------------------------------------------

  int idOf(const Stmt *S) {
    if (!S)
      return -1;
    auto it = ids.find(S);
    if (it == ids.end())
      return -1;
    return it->second;
  }

  void emitCFG(const FunctionDecl *FD) {
    CFG::BuildOptions BO;
    BO.PruneTriviallyFalseEdges = true;
    BO.AddEHEdges = false;
    BO.AddInitializers = false;
    BO.AddImplicitDtors = false;
    std::unique_ptr<CFG> cfg = CFG::buildCFG(FD, FD->getBody(), &Ctx, BO);
    if (!cfg) {
      os << "null";
      return;
    }
    os << "{\"entry\":" << cfg->getEntry().getBlockID()
       << ",\"exit\":" << cfg->getExit().getBlockID() << ",\"blocks\":[";
    bool firstB = true;
    llvm::DenseMap<const Stmt *, const Stmt *> synth;
    for (auto I = cfg->synthetic_stmt_begin(), E2 = cfg->synthetic_stmt_end(); I != E2; ++I)
      synth[I->first] = I->second;
    for (const CFGBlock *B : *cfg) {
      if (!firstB)
        os << ",";
      firstB = false;
      os << "{\"id\":" << B->getBlockID() << ",\"elems\":[";
      bool firstE = true;
      int lastDecl = -2;
      for (const CFGElement &E : *B) {
        if (auto CS = E.getAs<CFGStmt>()) {
          const Stmt *S = CS->getStmt();
          // a declaration statement with several declarators is split by the CFG builder into synthetic
          // one-declarator statements: report the statement that is in the AST, once per block
          auto syn = synth.find(S);
          if (syn != synth.end()) {
            S = syn->second;
            int id = idOf(S);
            if (id == lastDecl)
              continue;
            lastDecl = id;
          }
          if (!firstE)
            os << ",";
          firstE = false;
          os << idOf(S);
        }
      }
      os << "]";
      if (const Stmt *T = B->getTerminatorStmt()) {
        os << ",\"term\":" << idOf(T) << ",\"termk\":" << jstr(T->getStmtClassName());
        if (const Stmt *C = B->getTerminatorCondition(false))
          os << ",\"cond\":" << idOf(C);
      }
      if (B->hasNoReturnElement())
        os << ",\"noreturn\":true";
      if (const Stmt *L = B->getLabel()) {
        os << ",\"label\":" << idOf(L) << ",\"labelk\":" << jstr(L->getStmtClassName());
      }
      os << ",\"succs\":[";
      bool firstS = true;
      for (auto I = B->succ_begin(); I != B->succ_end(); ++I) {
        if (!firstS)
          os << ",";
        firstS = false;
        if (const CFGBlock *SB = I->getReachableBlock())
          os << SB->getBlockID();
        else
          os << "null";
      }
      os << "],\"psuccs\":[";
      firstS = true;
      for (auto I = B->succ_begin(); I != B->succ_end(); ++I) {
        if (!firstS)
          os << ",";
        firstS = false;
        if (const CFGBlock *SB = I->getPossiblyUnreachableBlock())
          os << SB->getBlockID();
        else
          os << "null";
      }
      os << "]}";
    }
    os << "]}";
  }

  // ---- top level -------------------------------------------------------------

  bool firstFn = true, firstRec = true, firstEnum = true, firstGlob = true, firstDecl = true;
  std::ostringstream recs, enums, globs, fns, decls;
  std::set<std::string> seenDecl;

  void doFunction(const FunctionDecl *FD) {
    if (inSystem(FD->getLocation()))
      return;
    if (!FD->doesThisDeclarationHaveABody()) {
      return;
    }
    ids.clear();
    localIds.clear();
    nextId = 0;
    curFn = FD;
    os.str("");
    os.clear();
    os << "{\"name\":" << jstr(FD->getName()) << ",\"file\":" << jstr(fileOf(FD->getLocation()))
       << ",\"line\":" << lineOf(FD->getLocation())
       << ",\"endline\":" << lineOf(FD->getEndLoc())
       << ",\"static\":" << (FD->getStorageClass() == SC_Static ? "true" : "false")
       << ",\"inline\":" << (FD->isInlineSpecified() ? "true" : "false")
       << ",\"ret\":" << jstr(tyStr(FD->getReturnType())) << ",\"cret\":" << jstr(ctyStr(FD->getReturnType()));
    os << ",\"attrs\":[";
    bool fa = true;
    for (const Attr *A : FD->attrs()) {
      if (!fa)
        os << ",";
      fa = false;
      os << jstr(A->getSpelling());
    }
    // attributes may sit on an earlier declaration
    os << "]";
    std::vector<std::string> ms = macroStack(FD->getLocation());
    if (!ms.empty()) {
      os << ",\"macro\":[";
      for (size_t i = 0; i < ms.size(); i++)
        os << (i ? "," : "") << jstr(ms[i]);
      os << "]";
    }
    os << ",\"params\":[";
    for (unsigned i = 0; i < FD->getNumParams(); i++) {
      const ParmVarDecl *P = FD->getParamDecl(i);
      if (i)
        os << ",";
      os << "{\"name\":" << jstr(P->getName()) << ",\"t\":" << jstr(tyStr(P->getType()))
         << ",\"ct\":" << jstr(ctyStr(P->getType())) << "}";
    }
    os << "],\"body\":";
    emitStmt(FD->getBody(), {});
    os << ",\"cfg\":";
    emitCFG(FD);
    os << ",\"nlocals\":" << localIds.size() << "}";
    if (!firstFn)
      fns << ",\n";
    firstFn = false;
    fns << os.str();
  }

  void doFunctionDecl(const FunctionDecl *FD) {
    // declarations (with or without body) of non-system functions, and of
    // system functions are not listed; used for parameter constness
    if (inSystem(FD->getLocation()))
      return;
    std::string n = FD->getName().str();
    if (seenDecl.count(n))
      return;
    seenDecl.insert(n);
    if (!firstDecl)
      decls << ",\n";
    firstDecl = false;
    decls << "{\"name\":" << jstr(n) << ",\"ret\":" << jstr(tyStr(FD->getReturnType()))
          << ",\"static\":" << (FD->getStorageClass() == SC_Static ? "true" : "false")
          << ",\"params\":[";
    for (unsigned i = 0; i < FD->getNumParams(); i++) {
      if (i)
        decls << ",";
      decls << jstr(tyStr(FD->getParamDecl(i)->getType()));
    }
    decls << "],\"attrs\":[";
    bool fa = true;
    for (const FunctionDecl *R : FD->redecls())
      for (const Attr *A : R->attrs()) {
        if (!fa)
          decls << ",";
        fa = false;
        decls << jstr(A->getSpelling());
      }
    decls << "]}";
  }

  void doRecord(const RecordDecl *RD) {
    if (!RD->isCompleteDefinition() || inSystem(RD->getLocation()))
      return;
    if (!firstRec)
      recs << ",\n";
    firstRec = false;
    recs << "{\"name\":" << jstr(recName(RD)) << ",\"file\":" << jstr(fileOf(RD->getLocation()))
         << ",\"line\":" << lineOf(RD->getLocation()) << ",\"union\":" << (RD->isUnion() ? "true" : "false")
         << ",\"fields\":[";
    bool ff = true;
    for (const FieldDecl *F : RD->fields()) {
      if (!ff)
        recs << ",";
      ff = false;
      recs << "{\"name\":" << jstr(F->getName()) << ",\"t\":" << jstr(tyStr(F->getType()))
           << ",\"ct\":" << jstr(ctyStr(F->getType())) << "}";
    }
    recs << "]}";
  }

  void doEnum(const EnumDecl *ED) {
    if (!ED->isCompleteDefinition() || inSystem(ED->getLocation()))
      return;
    if (!firstEnum)
      enums << ",\n";
    firstEnum = false;
    enums << "{\"name\":" << jstr(enumName(ED)) << ",\"file\":" << jstr(fileOf(ED->getLocation()))
          << ",\"consts\":[";
    bool ff = true;
    for (const EnumConstantDecl *C : ED->enumerators()) {
      if (!ff)
        enums << ",";
      ff = false;
      llvm::SmallString<40> sv;
      C->getInitVal().toString(sv, 10);
      enums << "{\"name\":" << jstr(C->getName()) << ",\"val\":" << sv.str().str() << "}";
    }
    enums << "]}";
  }

  void flatten(const APValue &V, std::ostringstream &o, bool &first, unsigned &count) {
    if (V.isInt()) {
      if (!first)
        o << ",";
      first = false;
      llvm::SmallString<40> sv;
      V.getInt().toString(sv, 10);
      o << sv.str().str();
      count++;
    } else if (V.isArray()) {
      for (unsigned i = 0; i < V.getArrayInitializedElts(); i++)
        flatten(V.getArrayInitializedElt(i), o, first, count);
    }
  }

  bool flattenInit(const Expr *E, std::ostringstream &o, bool &first, unsigned &count) {
    E = E->IgnoreParenImpCasts();
    if (const auto *IL = dyn_cast<InitListExpr>(E)) {
      const InitListExpr *Sem = IL->isSemanticForm() ? IL : (IL->getSemanticForm() ? IL->getSemanticForm() : IL);
      for (const Expr *C : Sem->inits())
        if (!flattenInit(C, o, first, count))
          return false;
      if (Sem->hasArrayFiller())
        return false;
      return true;
    }
    Expr::EvalResult R;
    if (E->getType()->isIntegralOrEnumerationType() && E->EvaluateAsInt(R, Ctx)) {
      if (!first)
        o << ",";
      first = false;
      llvm::SmallString<40> sv;
      R.Val.getInt().toString(sv, 10);
      o << sv.str().str();
      count++;
      return true;
    }
    return false;
  }

  void doGlobal(const VarDecl *VD) {
    if (inSystem(VD->getLocation()) || !VD->isFileVarDecl())
      return;
    if (!VD->isThisDeclarationADefinition() && !VD->hasExternalStorage())
      return;
    if (!firstGlob)
      globs << ",\n";
    firstGlob = false;
    globs << "{\"name\":" << jstr(VD->getName()) << ",\"file\":" << jstr(fileOf(VD->getLocation()))
          << ",\"line\":" << lineOf(VD->getLocation())
          << ",\"t\":" << jstr(tyStr(VD->getType())) << ",\"ct\":" << jstr(ctyStr(VD->getType()))
          << ",\"const\":" << (VD->getType().isConstQualified() ||
                                       (VD->getType()->isArrayType() &&
                                        Ctx.getBaseElementType(VD->getType()).isConstQualified())
                                   ? "true"
                                   : "false")
          << ",\"static\":" << (VD->getStorageClass() == SC_Static ? "true" : "false")
          << ",\"extern\":" << (VD->hasExternalStorage() ? "true" : "false")
          << ",\"def\":" << (VD->isThisDeclarationADefinition() ? "true" : "false");
    if (VD->hasInit()) {
      const Expr *I = VD->getInit();
      if (VD->getType()->isArrayType() && Ctx.getBaseElementType(VD->getType())->isIntegerType()) {
        std::ostringstream o;
        bool first = true;
        unsigned count = 0;
        bool ok = flattenInit(I, o, first, count);
        if (ok)
          globs << ",\"ints\":[" << o.str() << "]";
      } else {
        ids.clear();
        localIds.clear();
        nextId = 0;
        os.str("");
        os.clear();
        emitStmt(I, {});
        globs << ",\"init\":" << os.str();
      }
    }
    globs << "}";
  }

  void run(TranslationUnitDecl *TU) {
    for (Decl *D : TU->decls()) {
      if (auto *FD = dyn_cast<FunctionDecl>(D)) {
        doFunctionDecl(FD);
        doFunction(FD);
      } else if (auto *RD = dyn_cast<RecordDecl>(D)) {
        doRecord(RD);
      } else if (auto *ED = dyn_cast<EnumDecl>(D)) {
        doEnum(ED);
      } else if (auto *VD = dyn_cast<VarDecl>(D)) {
        doGlobal(VD);
      }
    }
    // macros of interest defined on the command line / config
    std::ofstream out(g_out);
    out << "{\"unit\":" << jstr(g_src) << ",\n\"records\":[\n" << recs.str() << "],\n\"enums\":[\n"
        << enums.str() << "],\n\"globals\":[\n" << globs.str() << "],\n\"decls\":[\n" << decls.str()
        << "],\n\"functions\":[\n" << fns.str() << "]}\n";
    out.close();
  }
};

class Consumer : public ASTConsumer {
public:
  void HandleTranslationUnit(ASTContext &Ctx) override {
    if (Ctx.getDiagnostics().hasErrorOccurred())
      return;
    Extractor X(Ctx);
    X.run(Ctx.getTranslationUnitDecl());
  }
};

class Action : public ASTFrontendAction {
public:
  std::unique_ptr<ASTConsumer> CreateASTConsumer(CompilerInstance &, llvm::StringRef) override {
    return std::make_unique<Consumer>();
  }
};

} // namespace

int main(int argc, char **argv) {
  std::vector<std::string> flags;
  int i = 1;
  for (; i < argc; i++) {
    std::string a = argv[i];
    if (a == "--") {
      i++;
      break;
    }
    if (a == "-o" && i + 1 < argc) {
      g_out = argv[++i];
      continue;
    }
    g_src = a;
  }
  for (; i < argc; i++)
    flags.push_back(argv[i]);
  if (g_src.empty() || g_out.empty()) {
    llvm::errs() << "usage: mtblx <src.c> -o <out.json> -- <flags>\n";
    return 2;
  }
  std::ifstream in(g_src);
  if (!in) {
    llvm::errs() << "cannot read " << g_src << "\n";
    return 2;
  }
  std::stringstream buf;
  buf << in.rdbuf();
  flags.push_back("-fsyntax-only");
  flags.push_back("-w");
  flags.push_back("-resource-dir=/usr/lib/llvm-14/lib/clang/14.0.6");
  bool ok = tooling::runToolOnCodeWithArgs(std::make_unique<Action>(), buf.str(), flags, g_src, "mtblx");
  if (!ok)
    return 2;
  // the consumer writes nothing when a hard error occurred
  std::ifstream chk(g_out);
  if (!chk)
    return 2;
  return 0;
}
