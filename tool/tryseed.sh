#!/bin/sh
# tryseed.sh <patch.diff> [ids...] : apply a seeded change to /repo, run the checks (evidence and reports go
# to .scratch, not to the real evidence), print one line per check, and ALWAYS restore /repo.
patch=$1; shift
cd /verif
if ! git -C /repo diff --quiet; then echo "/repo has uncommitted changes; refusing"; exit 2; fi
git -C /repo apply "$patch" || { echo "patch does not apply"; exit 2; }
trap 'git -C /repo checkout -- . ; git -C /repo status --short | grep -v "^??" ' EXIT INT TERM
ids="$@"
[ -z "$ids" ] && ids=$(python3 -c "import json;print(' '.join(x['property_id'] for x in json.load(open('MANIFEST.json'))['checks']))")
# warm the fact cache once (one extraction), then run the checks in parallel
VERIF_SELFTEST=1 ./check C20 > /dev/null 2>&1
echo $ids | tr ' ' '\n' | VERIF_SELFTEST=1 xargs -P 8 -I{} sh -c './check {} > .scratch/out_{}.txt 2>&1; echo "{} rc=$?"' | sort
for i in $ids; do grep -h "^  rule\|ANALYSIS-BROKEN" .scratch/out_$i.txt | cut -c1-260; done
