#!/usr/bin/env python3
"""Regenerates spec/t_known_funcs.json: the names of all functions defined in the library and tool sources of the
pinned tree.  A static function of a .c file whose name is NOT in this table is an *unknown helper* (extracted by a
later refactoring); the framework treats it as transparent: its body is analysed as part of its callers."""
import json, os, sys
sys.path.insert(0, os.path.dirname(os.path.dirname(os.path.abspath(__file__))))
from mtblcheck import facts
p = facts.extract("/repo", raw=True) if "raw" in facts.extract.__code__.co_varnames else facts.extract("/repo")
names = sorted(set(n for (u, n) in p.funcs))
json.dump({"_doc": __doc__.strip(), "functions": names}, open(os.path.join(facts.VERIF, "spec", "t_known_funcs.json"), "w"), indent=0)
print(len(names), "functions")
