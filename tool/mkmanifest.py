#!/usr/bin/env python3
"""Regenerates /verif/MANIFEST.json from the table below (kept next to the rules so
that the manifest never drifts from what ./check implements)."""
import json, os, sys

VERIF = os.path.dirname(os.path.dirname(os.path.abspath(__file__)))

# id -> (technique, level text, level note, design ref)
CLAIMED = {}
NOT_APPLICABLE = {}


def claim(pid, technique, text, note, ref=None):
    CLAIMED[pid] = (technique, text, note, ref or "DESIGN.md section 3, %s" % pid)


def na(pid, reason):
    NOT_APPLICABLE[pid] = reason


exec(open(os.path.join(VERIF, "tool", "manifest_table.py")).read())


def main():
    props = [json.loads(l)["id"] for l in open(os.path.join(VERIF, "properties.jsonl"))]
    checks = []
    for pid in props:
        if pid in CLAIMED:
            tech, text, note, ref = CLAIMED[pid]
            checks.append({
                "property_id": pid,
                "quick_cmd": "./check %s --tier quick" % pid,
                "thorough_cmd": "./check %s --tier thorough" % pid,
                "evidence_file": "/verif/evidence/%s.json" % pid,
                "replay_cmd_template": "./check %s --replay {path}" % pid,
                "engine": "mtblcheck",
                "level_claimed": {"category": "other", "text": text, "design_ref": ref},
                "level_note": note,
                "technique": tech,
            })
    nas = [{"property_id": pid, "reason": NOT_APPLICABLE.get(pid, "no static rule built yet for this property")}
           for pid in props if pid not in CLAIMED]
    m = {
        "version": 1,
        "setup_cmd": "make -C /verif",
        "hooks": {
            "guard": "MTBL_VERIF",
            "enable": "none needed: the checks read /repo's sources (clang AST + CFG with the build's own flags); "
                      "no instrumentation is compiled in",
            "baseline_off_cmd": "make -C /repo check",
            "source_commits": [],
            "add_only": True,
        },
        "engines": [{
            "name": "mtblcheck",
            "path": "/verif/check",
            "serves_properties": [c["property_id"] for c in checks],
            "kind_free_text": "static analysis: libTooling fact extractor (tool/mtblx.cc: resolved AST, clang::CFG, "
                              "constant evaluation, macro provenance) + Python rules (call graph, mod/ref summaries, "
                              "dominators, dataflow/typestate, abstract path evaluation against spec tables)",
        }],
        "checks": checks,
        "not_applicable": nas,
        "notes": "Every verdict is computed from /repo's current sources on each run; nothing executes mtbl code. "
                 "Exit 2 = analysis broken (anchor vanished / rule under its instance floor), never a pass. "
                 "Claims are for the named structural clauses only; see DESIGN.md per property for what is not decided.",
    }
    json.dump(m, open(os.path.join(VERIF, "MANIFEST.json"), "w"), indent=1)
    print("MANIFEST.json: %d checks, %d not applicable" % (len(checks), len(nas)))


if __name__ == "__main__":
    main()
