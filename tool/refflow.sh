#!/bin/sh
# refflow.sh <id> '<demo cmd>' <name> : a behaviour-preserving refactoring from a sub-agent.  Confirms in a fresh
# scratch worktree: demo passes unchanged, patch applies and builds without new warnings, make check 15/15, demo
# still passes.  Then runs every check against it: every check must stay silent.  Files it under /verif/refactors/<name>/.
id=$1; cmd=$2; name=${3:-$id}
P=${SEEDPREFIX:-/tmp/seed_}; src=$P$id/SEED
D=/tmp/vfy_$id
git -C /repo worktree remove --force $D 2>/dev/null
/verif/tool/scratch.sh $D HEAD >/dev/null 2>&1 || { echo "scratch build failed"; exit 2; }
cp -r $src $D/SEED
for f in $D/SEED/*.sh $D/SEED/*.c; do [ -f "$f" ] && sed -i "s#$P$id#$D#g" "$f"; done
cd $D
c=$(echo "$cmd" | sed "s#$P$id#$D#g")
sh -c "$c" > SEED/out_clean.txt 2>&1; rc0=$?
git apply SEED/patch.diff || { echo "PATCH DOES NOT APPLY"; cd /; git -C /repo worktree remove --force $D; exit 2; }
make -j16 > SEED/build.txt 2>&1 || { echo "BUILD FAILED"; tail -5 SEED/build.txt; }
nw=$(grep -c "warning:" SEED/build.txt)
tests=$(make check 2>&1 | grep -E "^# (PASS|FAIL)" | tr '\n' ' ')
sh -c "$c" > SEED/out_ref.txt 2>&1; rc1=$?
cd /; git -C /repo worktree remove --force $D
echo "$id: demo clean rc=$rc0, refactored rc=$rc1, $tests warnings=$nw"
ok=0; [ $rc0 -eq 0 ] && [ $rc1 -eq 0 ] && [ "$nw" = "0" ] && echo "$tests" | grep -q "PASS:  15" && ok=1
[ $ok -eq 1 ] || { echo "NOT A VERIFIED REFACTORING $id"; exit 1; }
res=$(python3 /verif/selftest/trypatch.py $src/patch.diff 2>&1)
echo "$res" | grep -v "rc=0" | cut -c1-330
dst=/verif/refactors/$name
mkdir -p $dst
cp $src/patch.diff $dst/
for f in $src/demo.c $src/demo.sh $src/notes.md; do [ -f "$f" ] && [ $(stat -c %s "$f") -lt 200000 ] && cp "$f" $dst/; done
python3 - "$id" "$cmd" "$dst" <<PY
import sys, json, re
id_, cmd, dst = sys.argv[1:4]
res = """$res"""
rcs = dict(re.findall(r"^(C\d+) rc=(\d+)", res, re.M))
meta = {"property": re.match(r"C\d+", id_).group(0), "kind": "behaviour-preserving refactoring",
        "origin": "independent sub-agent given only the property text and a scratch worktree",
        "verified": {"how": "fresh scratch worktree: demo passes before and after, builds without new warnings, make check 15/15", "demo_cmd": cmd},
        "checks_at_adoption": {"alarms": sorted(k for k, v in rcs.items() if v == "1"), "analysis_broken": sorted(k for k, v in rcs.items() if v == "2"),
                               "rules": sorted(set(re.findall(r"rule (C\d+\.[A-Za-z0-9.]+) ", res)))}}
json.dump(meta, open(dst + "/meta.json", "w"), indent=1)
print("adopted refactoring", id_, "alarms:", meta["checks_at_adoption"]["alarms"], "broken:", meta["checks_at_adoption"]["analysis_broken"])
PY
