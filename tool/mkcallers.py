#!/usr/bin/env python3
"""Regenerates spec/t_callers.json: for every function of the pinned tree, the functions of the same unit that call it.
When a later change removes a function a rule's table names (inlined into its caller, split, renamed by moving its body),
what the table granted to or demanded of that function passes to its former callers (rules/common.py: heirs)."""
import json, os, sys
sys.path.insert(0, os.path.dirname(os.path.dirname(os.path.abspath(__file__))))
from mtblcheck import facts
p = facts.extract("/repo")
out = {}
for (u, n), f in p.funcs.items():
    for c in f.calls():
        cal = c.get("callee")
        if cal and (u, cal) in p.funcs and cal != n:
            out.setdefault("%s:%s" % (u, cal), set()).add(n)
json.dump({"_doc": __doc__.strip(), "callers": {k: sorted(v) for k, v in sorted(out.items())}},
          open(os.path.join(facts.VERIF, "spec", "t_callers.json"), "w"), indent=0)
print(len(out), "called functions")
