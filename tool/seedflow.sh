#!/bin/sh
# seedflow.sh <id> '<demo cmd>' '<what it needs to manifest>' : verify a sub-agent's seeded change in a fresh
# worktree, run every check against it, and file it under /verif/seeded/<id>/.
id=$1; cmd=$2; needs=$3; name=${4:-$id}
out=$(/verif/tool/verifyseed.sh $id "$cmd" 2>&1); echo "$out" | tail -12
echo "$out" | grep -q "^VERIFIED $id" || { echo "not adopting"; exit 1; }
res=$(python3 /verif/selftest/trypatch.py ${SEEDPREFIX:-/tmp/seed_}$id/SEED/patch.diff 2>&1)   # on a scratch copy: /repo itself is never touched
echo "$res" | grep -v "rc=0"
dst=/verif/seeded/$name
mkdir -p $dst
cp ${SEEDPREFIX:-/tmp/seed_}$id/SEED/patch.diff $dst/
for f in ${SEEDPREFIX:-/tmp/seed_}$id/SEED/demo* ${SEEDPREFIX:-/tmp/seed_}$id/SEED/notes.md ${SEEDPREFIX:-/tmp/seed_}$id/SEED/*.sh ${SEEDPREFIX:-/tmp/seed_}$id/SEED/*.py; do [ -f "$f" ] && [ $(stat -c %s "$f") -lt 200000 ] && cp "$f" $dst/ ; done
rm -f $dst/demo $dst/*.o
python3 - "$id" "$cmd" "$needs" "$dst" <<PY
import sys, json, re
id_, cmd, needs, dst = sys.argv[1:5]
res = """$res"""
rcs = dict(re.findall(r"^(C\d+) rc=(\d+)", res, re.M))
rules = sorted(set(re.findall(r"rule (C\d+\.[A-Za-z0-9]+) ", res)))
broken = sorted(k for k, v in rcs.items() if v == "2")
meta = {"property": id_, "origin": "independent sub-agent given only the property text and a scratch worktree",
        "needs_to_manifest": needs,
        "verified": {"how": "fresh scratch worktree of /repo HEAD: demo passes unchanged; patch applies, builds without new warnings, make check 15/15; demo fails with the change",
                     "demo_cmd": cmd},
        "checks_at_adoption": {"reported_by_rules": rules, "checks_exit_1": sorted(k for k, v in rcs.items() if v == "1"), "analysis_broken": broken}}
json.dump(meta, open(dst + "/meta.json", "w"), indent=1)
print("adopted", id_, "caught by", rules, "broken", broken)
PY
