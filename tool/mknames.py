#!/usr/bin/env python3
"""Write spec/t_names.json: the reference names of parameters and locals of every function, by role
(parameter index; for locals: canonical type + ordinal among locals of that type in declaration order).
The facts loader renames variables of the tree under analysis back to these reference names, so that a
pure renaming of a variable neither silences nor alarms a rule.  Regenerate only when rules are rewritten
against new names:  python3 tool/mknames.py"""
import json, os, sys
sys.path.insert(0, os.path.dirname(os.path.dirname(os.path.abspath(__file__))))
from mtblcheck import facts

facts.NAMES = {}          # no renaming while generating
prog = facts.extract()
out = {}
for (u, name), f in sorted(prog.funcs.items()):
    out["%s:%s" % (u, name)] = facts.var_roles(f.d)
json.dump(out, open(os.path.join(facts.VERIF, "spec", "t_names.json"), "w"), indent=0, sort_keys=True)
print("functions:", len(out))
