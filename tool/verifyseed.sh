#!/bin/sh
# verifyseed.sh <id> '<demo command, run from the worktree root; may mention /tmp/seed_<id>>'
# Confirms in a fresh scratch worktree of /repo HEAD: demo passes without the change, the change applies and
# builds, make check still passes 15/15, demo fails with the change.  Removes the worktree afterwards.
id=$1; cmd=$2
P=${SEEDPREFIX:-/tmp/seed_}; src=$P$id/SEED
D=/tmp/vfy_$id
git -C /repo worktree remove --force $D 2>/dev/null
/verif/tool/scratch.sh $D HEAD >/dev/null 2>&1 || { echo "scratch build failed"; exit 2; }
cp -r $src $D/SEED
for f in $D/SEED/*.sh $D/SEED/*.c; do [ -f "$f" ] && sed -i "s#$P$id#$D#g" "$f"; done
cd $D
c=$(echo "$cmd" | sed "s#$P$id#$D#g")
echo "== demo on unchanged code"; sh -c "$c" > SEED/out_clean.txt 2>&1; rc0=$?; tail -3 SEED/out_clean.txt; echo "rc=$rc0"
git apply SEED/patch.diff || { echo "PATCH DOES NOT APPLY"; cd /; git -C /repo worktree remove --force $D; exit 2; }
make -j16 > SEED/build.txt 2>&1 || { echo "BUILD FAILED"; tail -5 SEED/build.txt; }
nw=$(grep -c "warning:" SEED/build.txt)
make check 2>&1 | grep -E "^# (PASS|FAIL)" | tr '\n' ' '; echo " (warnings in build: $nw)"
echo "== demo with the change"; sh -c "$c" > SEED/out_seeded.txt 2>&1; rc1=$?; tail -3 SEED/out_seeded.txt; echo "rc=$rc1"
cd /; git -C /repo worktree remove --force $D
[ $rc0 -eq 0 ] && [ $rc1 -ne 0 ] && echo "VERIFIED $id" || echo "NOT VERIFIED $id (clean rc=$rc0 seeded rc=$rc1)"
