#!/bin/sh
# scratch.sh <dir> [commit] : create a git worktree of /repo at <commit> in <dir>, copy the generated
# autotools files (untracked in git), configure and build it.
# Remove with: git -C /repo worktree remove --force <dir>
set -e
dir=$1; commit=${2:-HEAD}
git -C /repo worktree add -q --detach "$dir" "$commit"
for f in configure Makefile.in aclocal.m4 config.h.in build-aux m4; do
  [ -e /repo/$f ] && cp -r /repo/$f "$dir/" 
done
cd "$dir"
./configure >/dev/null 2>&1
make -j16 >/dev/null 2>&1
echo built $dir at $(git rev-parse --short HEAD)
