#!/usr/bin/env python3
"""Sensitivity suite: apply semantic patches to a scratch copy of the *current*
/repo sources (outside /repo and /verif), run the property's rules on the copy
and compare with the expectation of each variant.

  selftest/run.py [C20 C08 ...] [-v]

variants/<prop>.json: [{"name", "file", "old", "new" (or "edits": [[old, new], ...]), "expect": "<rule id>" | null, "count": 1}]
  expect = rule id  -> the check must exit 1 and report that rule
  expect = null     -> behaviour-preserving variant: the check must exit 0
Nothing here influences a property's verdict.
"""
import json, os, shutil, subprocess, sys, tempfile

HERE = os.path.dirname(os.path.abspath(__file__))
VERIF = os.path.dirname(HERE)
REPO = "/repo"
KEEP = ("mtbl", "libmy", "src", "Makefile.am", "Makefile", "config.h", "configure.ac", "config.status")


def make_scratch():
    d = tempfile.mkdtemp(prefix="mtbl-selftest-")
    for k in KEEP:
        s = os.path.join(REPO, k)
        if os.path.isdir(s):
            shutil.copytree(s, os.path.join(d, k),
                            ignore=shutil.ignore_patterns("*.o", "*.lo", "*.la", ".libs", ".deps", "*.a", ".dirstamp"))
        elif os.path.exists(s):
            shutil.copy2(s, os.path.join(d, k))
    return d


def run_check(prop, repo):
    env = dict(os.environ, MTBL_REPO=repo, VERIF_SELFTEST="1")
    p = subprocess.run([sys.executable, os.path.join(VERIF, "check"), prop], env=env,
                       capture_output=True, text=True, cwd=VERIF)
    return p.returncode, p.stdout + p.stderr


def main():
    args = [a for a in sys.argv[1:] if not a.startswith("-")]
    verbose = "-v" in sys.argv
    vdir = os.path.join(HERE, "variants")
    props = args or sorted(f[:-5] for f in os.listdir(vdir) if f.endswith(".json"))
    total = fails = 0
    summary = {}
    for prop in props:
        path = os.path.join(vdir, prop + ".json")
        if not os.path.exists(path):
            continue
        variants = json.load(open(path))
        base = make_scratch()
        try:
            rc, out = run_check(prop, base)
            ok = rc == 0
            total += 1
            if not ok:
                fails += 1
            print("%s base copy: %s" % (prop, "silent" if ok else "NOT SILENT rc=%d\n%s" % (rc, out)))
            summary[prop] = {"base_silent": ok, "variants": []}
            for v in variants:
                src = os.path.join(base, v["file"])
                orig = open(src).read()
                edits = v.get("edits") or [[v["old"], v["new"]]]     # "edits": several replacements in the same file
                cnt = min(orig.count(o_) for o_, n_ in edits)
                if any(orig.count(o_) != v.get("count", 1) for o_, n_ in edits):
                    print("  %-45s STALE (pattern occurs %d times)" % (v["name"], cnt))
                    fails += 1
                    total += 1
                    summary[prop]["variants"].append({"name": v["name"], "result": "stale"})
                    continue
                text = orig
                for o_, n_ in edits:
                    text = text.replace(o_, n_)
                open(src, "w").write(text)
                try:
                    rc, out = run_check(prop, base)
                finally:
                    open(src, "w").write(orig)
                exp = v.get("expect")
                if exp is None:
                    good = rc == 0
                    what = "silent" if good else "FALSE ALARM rc=%d" % rc
                else:
                    rules = exp if isinstance(exp, list) else [exp]
                    good = rc == 1 and any(("rule %s " % r) in out for r in rules)
                    what = "caught by %s" % exp if good else "MISSED (rc=%d)" % rc
                total += 1
                if not good:
                    fails += 1
                print("  %-45s %s" % (v["name"], what))
                if verbose or not good:
                    print("    " + "\n    ".join(out.strip().splitlines()[-8:]))
                summary[prop]["variants"].append({"name": v["name"], "expect": exp, "result": what})
        finally:
            shutil.rmtree(base, ignore_errors=True)
    print("selftest: %d runs, %d unexpected" % (total, fails))
    json.dump(summary, open(os.path.join(HERE, "last_summary.json"), "w"), indent=1)
    return 1 if fails else 0


if __name__ == "__main__":
    sys.exit(main())
