/* positive example for C13.R9: a work function that hands its own pool to a nested writer */
struct mtbl_threadpool; struct mtbl_writer_options; struct mtbl_sorter_options;
void mtbl_writer_options_set_threadpool(struct mtbl_writer_options *, struct mtbl_threadpool *);
void mtbl_sorter_options_set_threadpool(struct mtbl_sorter_options *, struct mtbl_threadpool *);
struct job { struct mtbl_threadpool *pool; struct mtbl_writer_options *wopt; struct mtbl_sorter_options *sopt; };
void *work(void *arg) {
	struct job *j = arg;
	mtbl_writer_options_set_threadpool(j->wopt, j->pool);
	mtbl_sorter_options_set_threadpool(j->sopt, j->pool);
	mtbl_writer_options_set_threadpool(j->wopt, (void *)0);   /* allowed: no pool */
	return arg;
}
