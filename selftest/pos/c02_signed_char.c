/* positive example for C02.R3: a key comparison on plain char bytes */
#include <stddef.h>
int bad_compare(const char *a, const char *b, size_t n);
int bad_compare(const char *a, const char *b, size_t n)
{
	for (size_t i = 0; i < n; i++) {
		if (a[i] < b[i])
			return -1;
		if (a[i] > b[i])
			return 1;
	}
	return 0;
}
