/* positive example for rules/widths.py: every construct below must be reported */
#include <stdint.h>
struct mtbl_metadata { uint64_t index_block_offset, data_block_size, compression_algorithm, count_entries, count_data_blocks,
	bytes_data_blocks, bytes_index_block, bytes_keys, bytes_values; };
struct mtbl_writer { struct mtbl_metadata m; uint64_t last_offset; uint64_t pending_offset; };
struct mtbl_reader { struct mtbl_metadata m; uint64_t len_data; };
struct reader_iter { uint64_t block_offset; };
struct mtbl_sorter_options { uint64_t max_memory; };
struct mtbl_sorter { uint64_t entry_bytes; struct mtbl_sorter_options opt; };
int narrow_sorter(struct mtbl_sorter *s) { unsigned used = s->entry_bytes; unsigned lim = s->opt.max_memory; return used >= lim; }
static void sink32(uint32_t x) { (void)x; }
unsigned narrow_return(const struct mtbl_metadata *m) { return m->count_entries; }
void narrow_local(struct mtbl_writer *w, struct mtbl_reader *r, struct reader_iter *it) {
	uint32_t off = w->pending_offset;        /* narrowing initialiser + narrow wide local */
	uint64_t len = r->len_data;
	unsigned short s = (unsigned short)len;  /* explicit narrowing of a wide local */
	sink32(it->block_offset);                /* narrowing at a call */
	sink32(r->m.index_block_offset + r->m.bytes_index_block);
	(void)off; (void)s;
}
