#!/usr/bin/env python3
"""trypatch.py <patch.diff> [check ids...]: run checks against a patch on a scratch copy of /repo's sources
(never touches /repo).  Prints one line per check and the reported rules."""
import os, re, shutil, subprocess, sys
from concurrent.futures import ThreadPoolExecutor
HERE = os.path.dirname(os.path.abspath(__file__))
sys.path.insert(0, HERE)
from run import make_scratch  # noqa: E402
from seeded import checks, run_one  # noqa: E402


def main():
    pf = os.path.abspath(sys.argv[1])
    props = sys.argv[2:] or checks()
    base = make_scratch()
    try:
        a = subprocess.run(["patch", "-p1", "-s", "-i", pf], cwd=base, capture_output=True, text=True)
        if a.returncode != 0:
            print("patch does not apply:", a.stdout.strip()[:300])
            return 2
        run_one((props[0], base))
        with ThreadPoolExecutor(max_workers=8) as ex:
            results = list(ex.map(run_one, [(p, base) for p in props]))
        for p, rc, out in results:
            print("%s rc=%d" % (p, rc))
        for p, rc, out in results:
            for line in out.splitlines():
                if line.startswith("  rule") or "ANALYSIS-BROKEN" in line:
                    print(line.replace(base, "")[:400])
    finally:
        shutil.rmtree(base, ignore_errors=True)
    return 0


if __name__ == "__main__":
    sys.exit(main())
