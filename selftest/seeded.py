#!/usr/bin/env python3
"""Run every check against every kept seeded change (/verif/seeded/<id>/patch.diff), on a scratch
copy of the current /repo sources (never on /repo itself), and print which rules report it.

  selftest/seeded.py [ids...]      exit 1 if a seed is missed, is reported only by checks of other properties, or an expected rule no longer fires
Writes selftest/seeded_summary.json.  Not part of any verdict.
"""
import json, os, shutil, subprocess, sys, re
from concurrent.futures import ThreadPoolExecutor

HERE = os.path.dirname(os.path.abspath(__file__))
VERIF = os.path.dirname(HERE)
sys.path.insert(0, HERE)
from run import make_scratch  # noqa: E402


def checks():
    m = json.load(open(os.path.join(VERIF, "MANIFEST.json")))
    return [c["property_id"] for c in m["checks"]]


def run_one(args):
    prop, repo = args
    env = dict(os.environ, MTBL_REPO=repo, VERIF_SELFTEST="1")
    p = subprocess.run([sys.executable, os.path.join(VERIF, "check"), prop], env=env, capture_output=True, text=True, cwd=VERIF)
    return prop, p.returncode, p.stdout + p.stderr


def main():
    sd = os.path.join(VERIF, "seeded")
    ids = [a for a in sys.argv[1:] if not a.startswith("-")] or sorted(os.listdir(sd))
    props = checks()
    summary = {}
    bad = 0
    for sid in ids:
        d = os.path.join(sd, sid)
        pf = os.path.join(d, "patch.diff")
        if not os.path.exists(pf):
            continue
        meta = json.load(open(os.path.join(d, "meta.json")))
        base = make_scratch()
        try:
            a = subprocess.run(["patch", "-p1", "-s", "-i", pf], cwd=base, capture_output=True, text=True)
            if a.returncode != 0:
                print("%-6s patch does not apply to the current tree: %s" % (sid, a.stdout.strip()[:200]))
                summary[sid] = {"applies": False}
                bad += 1
                continue
            # warm the fact cache once, then run all checks in parallel
            run_one((props[0], base))
            with ThreadPoolExecutor(max_workers=8) as ex:
                results = list(ex.map(run_one, [(p, base) for p in props]))
            rules = sorted(set(r for _, _, out in results for r in re.findall(r"rule (C\d+\.[A-Za-z0-9.]+) ", out)))
            broken = sorted(p for p, rc, _ in results if rc == 2)
            want = meta.get("expected_rules", [])
            missed = [w for w in want if w not in rules]
            own = re.match(r"C\d+", sid).group(0)
            own_rc = [rc for p_, rc, _ in results if p_ == own]
            own_hit = bool(own_rc) and own_rc[0] == 1
            status = ("caught by its own check" if own_hit else "caught by other checks only") if rules else "MISSED"
            if rules and not own_hit:
                bad += 1
            if missed:
                status = "REGRESSION (expected %s)" % missed
                bad += 1
            if not rules:
                bad += 1
            print("%-6s (%s) %-28s %s%s" % (sid, own, status, rules, "  analysis-broken: %s" % broken if broken else ""))
            summary[sid] = {"property": own, "own_check_reports": own_hit, "rules": rules, "analysis_broken": broken, "expected_rules": want}
        finally:
            shutil.rmtree(base, ignore_errors=True)
    json.dump(summary, open(os.path.join(HERE, "seeded_summary.json"), "w"), indent=1)
    return 1 if bad else 0


if __name__ == "__main__":
    sys.exit(main())
