#!/usr/bin/env python3
"""Run every check against every kept behaviour-preserving refactoring (/verif/refactors/<id>/patch.diff) on a scratch
copy of the current /repo sources.  Every check must stay silent (exit 0).

  selftest/refactors.py [ids...]     exit 1 if any check raises an alarm or cannot analyse a refactored tree
Writes selftest/refactors_summary.json.  Not part of any verdict."""
import json, os, shutil, subprocess, sys, re
from concurrent.futures import ThreadPoolExecutor

HERE = os.path.dirname(os.path.abspath(__file__))
VERIF = os.path.dirname(HERE)
sys.path.insert(0, HERE)
from run import make_scratch  # noqa: E402
from seeded import checks, run_one  # noqa: E402


def main():
    rd = os.path.join(VERIF, "refactors")
    ids = [a for a in sys.argv[1:] if not a.startswith("-")] or sorted(os.listdir(rd))
    only = [a[2:] for a in sys.argv[1:] if a.startswith("--")]
    props = only or checks()
    summary = {}
    bad = 0
    for rid in ids:
        pf = os.path.join(rd, rid, "patch.diff")
        if not os.path.exists(pf):
            continue
        base = make_scratch()
        try:
            a = subprocess.run(["patch", "-p1", "-s", "-i", pf], cwd=base, capture_output=True, text=True)
            if a.returncode != 0:
                print("%-6s patch does not apply: %s" % (rid, a.stdout.strip()[:200]))
                bad += 1
                continue
            run_one((props[0], base))
            with ThreadPoolExecutor(max_workers=8) as ex:
                results = list(ex.map(run_one, [(p, base) for p in props]))
            alarms = sorted(p for p, rc, _ in results if rc == 1)
            broken = sorted(p for p, rc, _ in results if rc == 2)
            rules = sorted(set(r for _, rc, out in results for r in re.findall(r"rule (C\d+\.[A-Za-z0-9.]+) ", out) if ".D." not in r))
            why = {p: (re.findall(r"ANALYSIS-BROKEN[^\n]*", out) or [""])[0][:160] for p, rc, out in results if rc == 2}
            status = "silent" if not alarms and not broken else "FALSE ALARM" if alarms else "analysis broken"
            if alarms or broken:
                bad += 1
            print("%-6s %-16s alarms=%s rules=%s broken=%s" % (rid, status, alarms, rules, why))
            summary[rid] = {"alarms": alarms, "rules": rules, "analysis_broken": broken}
        finally:
            shutil.rmtree(base, ignore_errors=True)
    json.dump(summary, open(os.path.join(HERE, "refactors_summary.json"), "w"), indent=1)
    print("refactorings: %d, not silent: %d" % (len(summary), bad))
    return 1 if bad else 0


if __name__ == "__main__":
    sys.exit(main())
