# setup: build the libTooling extractor (offline; links libclang-cpp by path)
LLVM_CXXFLAGS := $(shell llvm-config-14 --cxxflags)
LLVM_LIBS := /usr/lib/llvm-14/lib/libclang-cpp.so.14 /usr/lib/llvm-14/lib/libLLVM-14.so

all: tool/mtblx

tool/mtblx: tool/mtblx.cc
	clang++ $(LLVM_CXXFLAGS) -fno-rtti -O1 $< -o $@ $(LLVM_LIBS)

clean:
	rm -rf tool/mtblx .facts reports

.PHONY: all clean
