"""C17 - mtbl_crc32c is the standard CRC-32C on every buffer, both implementations.

R1 tables (complete for this clause): all 2048 constants of the slicing tables equal the
   Castagnoli tables recomputed here from the reflected polynomial 0x82F63B78
   (thorough: also the byte-reversed tables under -DWORDS_BIGENDIAN).
R2 byte accounting by path sums: SSE4.2 main loop consumes 8 bytes per step len/8 times, each
   tail case n consumes exactly n bytes, every step reads at cursor + bytes already consumed and
   feeds the running crc; slicing: head 1 byte per step until aligned or exhausted, main loop
   len/8 x (4+4) bytes with table k serving byte 7-k, tail len&7 single bytes.
R3 initial value 0xFFFFFFFF and final complement in both; the wrapper forwards (buf,size);
   only the two implementations (and the first-call trampoline) are ever installed.
"""
import re
from .common import *

EXPLANATION = ("static rules: the 2048 table constants as they appear in the AST are compared with tables recomputed from the Castagnoli "
               "polynomial; byte accounting of both implementations by abstract path evaluation (widths of the CRC steps along every tail "
               "case sum to the case label and read at the running offset); structural recognition of the slicing-by-8 combination; "
               "see DESIGN 3 C17")
DESIGN_REF = "DESIGN.md section 3, C17"
COMPLETE = ("C17.R1 all 2048 slicing-table constants",)
POLY = 0x82F63B78
WIDTH = {"my_asm_crc32_u8": 1, "my_asm_crc32_u16": 2, "my_asm_crc32_u32": 4, "my_asm_crc32_u64": 8}


def castagnoli_tables():
    t0 = []
    for i in range(256):
        c = i
        for _ in range(8):
            c = (c >> 1) ^ POLY if c & 1 else c >> 1
        t0.append(c)
    T = [t0]
    for k in range(1, 8):
        prev = T[k - 1]
        T.append([(prev[i] >> 8) ^ t0[prev[i] & 0xFF] for i in range(256)])
    return T


def bswap32(x):
    return ((x & 0xFF) << 24) | ((x & 0xFF00) << 8) | ((x >> 8) & 0xFF00) | ((x >> 24) & 0xFF)


def run(ctx, res):
    prog, cg = ctx.prog, ctx.cg
    su = "libmy/crc32c-slicing.c"
    g = prog.globals.get((su, "g_crc_slicing"))
    if g is None or "ints" not in g:
        raise BrokenAnalysis("g_crc_slicing initialiser not found")
    ints = g["ints"]
    T = castagnoli_tables()
    res.floor("C17.R1", 8)
    if len(ints) != 2048:
        res.bad("C17.R1", "g_crc_slicing:size", "table has %d constants, expected 8 x 256" % len(ints))
    else:
        for k in range(8):
            diffs = [i for i in range(256) if ints[k * 256 + i] != T[k][i]]
            res.check(not diffs, "C17.R1", "g_crc_slicing[%d]" % k, "256 constants equal the recomputed Castagnoli table %d" % k,
                      "table %d differs from the CRC-32C table at %d entr%s, first at index %d: 0x%08x instead of 0x%08x" %
                      (k, len(diffs), "y" if len(diffs) == 1 else "ies", diffs[0] if diffs else 0,
                       ints[k * 256 + diffs[0]] if diffs else 0, T[k][diffs[0]] if diffs else 0), g["file"] + ":%d" % g["line"])
    res.check(g.get("const") and g.get("static"), "C17.R1", "g_crc_slicing:const", "tables are static const", "tables are not const: they can be modified at run time")
    if ctx.tier == "thorough":
        from mtblcheck import facts as F
        try:
            pb = F.extract(repo=prog.repo, extra_flags=("-DWORDS_BIGENDIAN=1",), tag="-be")
            gb = pb.globals.get((su, "g_crc_slicing"))
            ib = gb["ints"]
            for k in range(8):
                diffs = [i for i in range(256) if ib[k * 256 + i] != bswap32(T[k][i])]
                res.check(not diffs, "C17.R1", "g_crc_slicing[%d]:bigendian" % k, "big-endian table %d is the byte-reversed Castagnoli table" % k,
                          "big-endian table %d differs at %d entries" % (k, len(diffs)))
        except BrokenAnalysis as e:
            res.notes.append("big-endian pass skipped: %s" % e)

    # ---- R2 SSE4.2 -------------------------------------------------------------------
    res.floor("C17.R2", 12)
    f = prog.func("my_crc32c_sse42", "libmy/crc32c-sse42.c")
    if f is None:
        raise BrokenAnalysis("my_crc32c_sse42 not compiled in this configuration")
    res.saw(f)
    bufp, lenp = f.params[0]["name"], f.params[1]["name"]
    # Shape-independent byte accounting: the function is evaluated abstractly with the length fixed to each of
    # 0..39 (data bytes stay symbolic); for every length the CRC steps must consume exactly that many bytes, each at
    # the running offset with the operand width of the step, chained through the running crc.
    NLEN = 40 if ctx.tier == "quick" else 200
    for n in range(NLEN):
        ev = APE.APE(prog, cg, f, bound=8, start_env={lenp: ("c", n)}, max_paths=200000)
        ev.run()
        done = [p for p in ev.paths if p.end == "exit"]
        sig = site(f, "len=%d(mod 8=%d)" % (n, n % 8)) if n < 16 else site(f, "len>=16:residue=%d" % (n % 8))
        if not done:
            res.bad("C17.R2", sig, "with the length fixed to %d no path returns (%d paths, ends %s)"
                    % (n, len(ev.paths), sorted(set(p.end for p in ev.paths))), f.loc(f.body))
            continue
        for p in done:
            off = 0
            steps = []
            crc = None
            okchain = True
            for e in p.events:
                if e.kind == "store" and e.a == "p":
                    b, o = APE.split_off(e.b)
                    if b == bufp:
                        off = o
                elif e.kind == "call" and e.a in WIDTH:
                    data = call_args(e.node)[1]
                    post = any(x["k"] == "UnaryOperator" and x.get("op") == "++" and not x.get("prefix", True) for x in walk(data))
                    rd = off - 1 if post else off
                    d = strip(data)
                    t = d.get("ct", d.get("t", ""))
                    wbytes = {"unsigned char": 1, "unsigned short": 2, "unsigned int": 4, "unsigned long": 8}.get(t.replace("const ", ""))
                    steps.append((WIDTH[e.a], rd, wbytes))
                    if crc is not None and APE.vstr(e.b[0]) != APE.vstr(crc):
                        okchain = False
                    crc = e.c
            total = sum(s_[0] for s_ in steps)
            contiguous = True
            cur = 0
            for w, rd, wb in steps:
                if rd != cur or wb != w:
                    contiguous = False
                cur += w
            res.check(total == n and contiguous and okchain, "C17.R2", sig,
                      "a buffer of %d bytes is consumed exactly once, in order, through chained CRC steps" % n,
                      "for a buffer of %d bytes the SSE4.2 path consumes %d byte(s) with steps (width, offset, operand width) %s%s: such buffers get a wrong checksum "
                      "(or memory outside the buffer is read)" % (n, total, steps[-6:], "" if okchain else ", crc chain broken"), f.loc(f.body), p.describe(f))
    # ---- R2 slicing ---------------------------------------------------------------------
    s = prog.need("my_crc32c_slicing", su)
    res.saw(s)
    # main loop combination
    terms = []
    for n in walk(s.body):
        if n["k"] == "ArraySubscriptExpr":
            inner = strip(n["kids"][0])
            if inner["k"] == "ArraySubscriptExpr" and canon(inner["kids"][0]) == "g_crc_slicing":
                k = const_val(inner["kids"][1])
                idx = canon(n["kids"][1])
                terms.append((k, idx, n))
    main_terms = [(k, idx) for k, idx, n in terms if "^" not in idx]
    byte_terms = [(k, idx) for k, idx, n in terms if "^" in idx]
    want = {}
    for j, (var, sh) in enumerate([("crc", 0), ("crc", 8), ("crc", 16), ("crc", 24), ("next", 0), ("next", 8), ("next", 16), ("next", 24)]):
        want[7 - j] = (var, sh)
    got = {}
    for k, idx in main_terms:
        m = re.match(r"^\(?\(?(\w+)(?:>>#(\d+))?\)?(?:&#255)?\)?$", idx)
        if m:
            got[k] = (m.group(1), int(m.group(2) or 0))
    res.check(got == want and len(main_terms) == 8, "C17.R2", site(s, "slicing-combination"),
              "table k serves byte 7-k of the 8-byte group (crc^word0: tables 7..4, word1: tables 3..0), shifts 0/8/16/24",
              "slicing-by-8 combination is %s, expected %s" % (got, want), s.loc(s.body))
    res.check(len(byte_terms) == 2 and all(k == 0 and re.search(r"\(crc\^\*p\)&#255", idx) for k, idx in byte_terms), "C17.R2", site(s, "byte-steps"),
              "head and tail byte steps use table 0 with (crc ^ byte) & 0xFF", "byte steps are %s" % byte_terms, s.loc(s.body))
    # byte steps: crc = T0[..] ^ (crc >> 8)
    bsteps = [n for n in walk(s.body) if n["k"] == "BinaryOperator" and n.get("op") == "=" and canon(n["kids"][0]) == "crc"
              and re.match(r"^\(g_crc_slicing\[#0\]\[\(\(crc\^\*p\)&#255\)\]\^\(crc>>#8\)\)$", canon(n["kids"][1]))]
    res.check(len(bsteps) == 2, "C17.R2", site(s, "byte-step-shape"), "byte step: crc = T0[(crc ^ b) & 0xFF] ^ (crc >> 8)", "byte steps have another shape", s.loc(s.body))
    loops = [n for n in walk(s.body) if n["k"] == "ForStmt"]
    res.check(len(loops) == 3, "C17.R2", site(s, "three-phases"), "head, main and tail loops", "%d loops" % len(loops))
    if len(loops) == 3:
        head, mainl, taill = loops
        hc = canon(head["cond"])
        res.check("&#3" in hc.replace(" ", "") and "len>#0" in hc and canon(head["inc"]).replace(" ", "") in ("(++p,--len)",), "C17.R2", site(s, "head-loop"),
                  "head: one byte per step until 4-byte aligned or exhausted", "head loop is %s / %s" % (hc, canon(head["inc"])), s.loc(head))
        mi = canon(mainl["init"]) if mainl.get("init") else ""
        reads = [n for n in walk(mainl["body"]) if n["k"] == "UnaryOperator" and n.get("op") == "*" and "p" == canon(n["kids"][0])]
        adv = [n for n in walk(mainl["body"]) if n["k"] == "CompoundAssignOperator" and canon(n["kids"][0]) == "p" and const_val(n["kids"][1]) == 4]
        res.check(mi == "(nqwords=(len/#8))" and canon(mainl["inc"]) == "nqwords--" and len(reads) == 2 and len(adv) == 2, "C17.R2", site(s, "main-loop"),
                  "main: len/8 steps, two 4-byte reads, cursor advanced by 4 after each", "main loop init %s, %d reads, %d advances" % (mi, len(reads), len(adv)), s.loc(mainl))
        ti = canon(taill["init"]) if taill.get("init") else ""
        res.check(ti == "(len&=#7)" and canon(taill["cond"]) == "(len>#0)" and canon(taill["inc"]).replace(" ", "") in ("(++p,len--)",), "C17.R2", site(s, "tail-loop"),
                  "tail: len & 7 single bytes", "tail loop is %s / %s / %s" % (ti, canon(taill["cond"]), canon(taill["inc"])), s.loc(taill))

    # ---- R3 ---------------------------------------------------------------------------------
    res.floor("C17.R3", 5)
    for fn, g_ in (("my_crc32c_sse42", f), ("my_crc32c_slicing", s)):
        inits = decl_inits(g_)
        ini_ok = any(const_val(v) == 0xFFFFFFFF for v in inits.values()) or \
            any(n["k"] == "BinaryOperator" and n.get("op") == "=" and const_val(n["kids"][1]) == 0xFFFFFFFF for n in walk(g_.body))
        rets = [n for n in walk(g_.body) if n["k"] == "ReturnStmt"]
        fin_ok = len(rets) == 1 and strip(kids(rets[0])[0])["k"] == "UnaryOperator" and strip(kids(rets[0])[0])["op"] == "~"
        res.check(ini_ok, "C17.R3", site(g_, "init"), "running value starts at 0xFFFFFFFF", "initial value is not 0xFFFFFFFF", g_.loc(g_.body))
        res.check(fin_ok, "C17.R3", site(g_, "final"), "result is the complement of the running value", "result is not complemented", g_.loc(g_.body))
    w = prog.need("mtbl_crc32c", "mtbl/crc32c_wrap.c")
    c = [n for n in w.calls() if not n.get("callee")]
    okw = len(c) == 1 and canon(c[0]["kids"][0]).endswith("my_crc32c") and [arg_role(w, a) for a in c[0]["kids"][1:]] == [("param", 0), ("param", 1)]
    res.check(okw, "C17.R3", site(w, "forward"), "mtbl_crc32c forwards (buf, size) to the installed implementation", "wrapper does not forward (buf,size)", w.loc(w.body))
    vals = cg.global_funcs.get("my_crc32c", set())
    res.check(vals == {"my_crc32c_sse42", "my_crc32c_slicing", "my_crc32c_first"}, "C17.R3", "my_crc32c:targets",
              "only the two implementations and the first-call trampoline are installed", "installed targets are %s" % sorted(vals))
