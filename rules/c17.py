"""C17 - mtbl_crc32c is the standard CRC-32C on every buffer, both implementations.

R1 tables (complete for this clause): all 2048 constants of the slicing tables equal the
   Castagnoli tables recomputed here from the reflected polynomial 0x82F63B78
   (thorough: also the byte-reversed tables under -DWORDS_BIGENDIAN).
R2 both implementations equal the standard CRC-32C for every content: decided over GF(2) by interpreting them on
   buffers of symbolic bits (rules/crcrule.py) for every length 0..26 (72 thorough) and alignment; covers initial value,
   polynomial, bit and byte order, the slicing combination, every tail length and the final complement.
R3 the wrapper forwards (buf,size); only the two implementations (and the first-call trampoline) are ever installed.
"""
import re
from .common import *

EXPLANATION = ("static rules: the 2048 table constants as they appear in the AST are compared with tables recomputed from the Castagnoli "
               "polynomial; both implementations interpreted over GF(2) on buffers of symbolic bits (exclusive-or, shifts, masks and lookups in "
               "affine tables are exact there) and compared, as 32 affine forms per length and alignment, with the standard algorithm; "
               "see DESIGN 3 C17")
DESIGN_REF = "DESIGN.md section 3, C17"
COMPLETE = ("C17.R1 all 2048 slicing-table constants",)
POLY = 0x82F63B78
WIDTH = {"my_asm_crc32_u8": 1, "my_asm_crc32_u16": 2, "my_asm_crc32_u32": 4, "my_asm_crc32_u64": 8}


def castagnoli_tables():
    t0 = []
    for i in range(256):
        c = i
        for _ in range(8):
            c = (c >> 1) ^ POLY if c & 1 else c >> 1
        t0.append(c)
    T = [t0]
    for k in range(1, 8):
        prev = T[k - 1]
        T.append([(prev[i] >> 8) ^ t0[prev[i] & 0xFF] for i in range(256)])
    return T


def bswap32(x):
    return ((x & 0xFF) << 24) | ((x & 0xFF00) << 8) | ((x >> 8) & 0xFF00) | ((x >> 24) & 0xFF)


def run(ctx, res):
    prog, cg = ctx.prog, ctx.cg
    su = "libmy/crc32c-slicing.c"
    g = prog.globals.get((su, "g_crc_slicing"))
    if g is None or "ints" not in g:
        raise BrokenAnalysis("g_crc_slicing initialiser not found")
    ints = g["ints"]
    T = castagnoli_tables()
    res.floor("C17.R1", 8)
    if len(ints) != 2048:
        res.bad("C17.R1", "g_crc_slicing:size", "table has %d constants, expected 8 x 256" % len(ints))
    else:
        for k in range(8):
            diffs = [i for i in range(256) if ints[k * 256 + i] != T[k][i]]
            res.check(not diffs, "C17.R1", "g_crc_slicing[%d]" % k, "256 constants equal the recomputed Castagnoli table %d" % k,
                      "table %d differs from the CRC-32C table at %d entr%s, first at index %d: 0x%08x instead of 0x%08x" %
                      (k, len(diffs), "y" if len(diffs) == 1 else "ies", diffs[0] if diffs else 0,
                       ints[k * 256 + diffs[0]] if diffs else 0, T[k][diffs[0]] if diffs else 0), g["file"] + ":%d" % g["line"])
    res.check(g.get("const") and g.get("static"), "C17.R1", "g_crc_slicing:const", "tables are static const", "tables are not const: they can be modified at run time")
    if ctx.tier == "thorough":
        from mtblcheck import facts as F
        try:
            pb = F.extract(repo=prog.repo, extra_flags=("-DWORDS_BIGENDIAN=1",), tag="-be")
            gb = pb.globals.get((su, "g_crc_slicing"))
            ib = gb["ints"]
            for k in range(8):
                diffs = [i for i in range(256) if ib[k * 256 + i] != bswap32(T[k][i])]
                res.check(not diffs, "C17.R1", "g_crc_slicing[%d]:bigendian" % k, "big-endian table %d is the byte-reversed Castagnoli table" % k,
                          "big-endian table %d differs at %d entries" % (k, len(diffs)))
        except BrokenAnalysis as e:
            res.notes.append("big-endian pass skipped: %s" % e)

    # ---- R2 / R3 both implementations are the standard CRC-32C, decided over GF(2) (rules/crcrule.py) -------------
    # (replaces the earlier byte-accounting and shape rules: initial value, polynomial, bit order, final complement, byte
    # order of the loads, the slicing combination and every tail length are all part of the one equality of affine forms)
    from . import crcrule
    f = prog.func("my_crc32c_sse42", "libmy/crc32c-sse42.c")
    if f is None:
        raise BrokenAnalysis("my_crc32c_sse42 not compiled in this configuration")
    s = prog.need("my_crc32c_slicing", su)
    try:
        crcrule.check(ctx, res, "C17.R2", [("my_crc32c_sse42", "libmy/crc32c-sse42.c"), ("my_crc32c_slicing", su)])
    except BrokenAnalysis as e:
        # the interpretation cannot be carried through (for example a lookup table that is not affine - which R1 reports as
        # the wrong constant it is): no verdict from R2; whatever the other rules found stands
        res.undecided("C17.R2", str(e))

    # ---- R3 ---------------------------------------------------------------------------------
    res.floor("C17.R3", 2)
    w = prog.need("mtbl_crc32c", "mtbl/crc32c_wrap.c")
    c = [n for n in w.calls() if not n.get("callee")]
    okw = len(c) == 1 and canon(c[0]["kids"][0]).endswith("my_crc32c") and [arg_role(w, a) for a in c[0]["kids"][1:]] == [("param", 0), ("param", 1)]
    res.check(okw, "C17.R3", site(w, "forward"), "mtbl_crc32c forwards (buf, size) to the installed implementation", "wrapper does not forward (buf,size)", w.loc(w.body))
    vals = cg.global_funcs.get("my_crc32c", set())
    res.check(vals == {"my_crc32c_sse42", "my_crc32c_slicing", "my_crc32c_first"}, "C17.R3", "my_crc32c:targets",
              "only the two implementations and the first-call trampoline are installed", "installed targets are %s" % sorted(vals))
