"""What the writer hands to the file per block, and the bookkeeping around it (shared by C09.R1, C09.R5 and C10.R2).

Decided on the paths of the two functions that put blocks into the file - the data-block writer and the finishing
function - with every hand-written static function of writer.c evaluated as part of them and the retrying write loop kept
as a call (its contract, "all of (buf, size) reaches the descriptor", is C20's).  Nothing here depends on which helper
does the framing, on whether a helper reports the bytes written through a return value, a struct or an out-parameter, or
on what the cursor field is called:

  bytes   every buffer handed to the write loop is decomposed into *pieces*: a local buffer is the concatenation of what
          the codecs put into it (varint / fixed-width encodes, contiguous from offset 0, lengths adding up to the length
          written); anything else is raw bytes.  The piece sequence of a path must parse as
              ( varint64(X.len_data)  crc(X)  raw(X.data, X.len_data) )*   [ trailer ]
          where crc(X) is the four raw bytes of X.crc, or the little-endian encoding of the value of X.crc.
  cursor  the writer field that init_fd sets from lseek() is the file cursor.  After each frame it is stored exactly once
          as (value before the frame) + (bytes of the frame).
  index   the index entry of a data block is (X.last_key, X.len_last_key, varint64(cursor value before the frame)).
  stats   bytes_data_blocks += bytes of the frame, count_data_blocks += 1; index_block_offset := cursor value before the
          index frame, bytes_index_block := its bytes; join < index frame < trailer image < trailer write.
"""
import re
from .common import *

W = "mtbl/writer.c"
ENCODERS = {"mtbl_varint_encode64": None, "mtbl_varint_encode32": None, "mtbl_fixed_encode32": 4, "mtbl_fixed_encode64": 8}
_cache = {}


def retry_writer(prog):
    """The function of the library that calls write(2) in a loop (see C20.R1)."""
    sites = lib_calls(prog, "write")
    cands = []
    for f, n in sites:
        B = f.block_of(n)
        if B is not None and len(f.params) >= 3 and any(B.id in CFG.reachable_from(f, s, ()) for s in CFG.succs(f, B.id)):
            cands.append(f)
    if len(set(c.name for c in cands)) != 1:
        raise BrokenAnalysis("the retrying write loop is not a single (descriptor, buffer, size) function: %s" % sorted(set(c.name for c in cands)))
    return cands[0]


def _linadd(a, b):
    t = dict(a[0])
    for k, v in b[0].items():
        t[k] = t.get(k, 0) + v
    return {k: v for k, v in t.items() if v}, a[1] + b[1]


def _lin(v):
    return linsum(APE.vstr(v) if not isinstance(v, str) else v, tags=True)


def _base_off(v):
    """(base symbol, offset as linear form) of an address value: a term that is not a number plus the rest."""
    t, c = _lin(v)
    names = [k for k, n in t.items() if n == 1 and re.match(r"^&?[A-Za-z_$][\w$.>#@\-\[\]]*$", k) and "(" not in k]
    if len(names) == 1 or (len(names) > 1 and len(t) == len(names)):
        # prefer the term that looks like a buffer name (no call result)
        b = names[0]
        rest = dict(t)
        del rest[b]
        return b, (rest, c)
    if len(t) == 1 and list(t.values()) == [1]:
        return list(t)[0], ({}, c)
    return None, (t, c)


class Frame:
    def __init__(self):
        self.obj = None
        self.first = None      # index (in the path's event list) of the first write of the frame
        self.last = None
        self.total = ({}, 0)
        self.crc_mode = None
        self.ok = True
        self.why = ""


class PathFacts:
    def __init__(self, p, evs):
        self.p = p
        self.evs = evs
        self.frames = []
        self.trailer = None     # (event index, buffer value)
        self.junk = []          # pieces that are neither a frame nor the trailer


def _pieces(evs, i, wall_name):
    """Pieces of the buffer written by event i (a call of the write loop)."""
    e = evs[i]
    ptr, ln = e.b[1], e.b[2]
    base, off = _base_off(ptr)
    sp = strip_tags(APE.vstr(ptr))
    m = re.match(r"^&(.*)(?:->|\.)crc$", sp)
    if m and ln == ("c", 4):
        return [("crcraw", m.group(1))]
    encs = []
    if base is not None and not base.startswith("&"):
        for j in range(i):
            x = evs[j]
            if x.kind == "call" and x.a in ENCODERS and x.b:
                b2, o2 = _base_off(x.b[0])
                if b2 == base:
                    encs.append((j, x, o2))
    if not encs:
        mv = re.match(r"^&([A-Za-z_]\w*)$", APE.vstr(ptr))
        if mv and ln == ("c", 4):
            # the four bytes of a local (a by-value parameter of a helper, a temporary): what it holds
            held = None
            for x in evs[:i]:
                if x.kind in ("store", "bind") and x.a == mv.group(1):
                    held = x.b
            if held is not None:
                return [("rawval", held, ("c", 4))]
        return [("raw", ptr, ln)]
    # the buffer is what the codecs put into it: contiguous from the address written, lengths adding up
    run = off
    out = []
    for j, x, o2 in encs:
        if o2 != run:
            # an encode below the written address (or a stale one): not part of these bytes
            continue
        size = ENCODERS[x.a]
        ln_x = ({}, size) if size is not None else _lin(x.c)
        kind = "varint" if size is None else "le%d" % (size * 8)
        out.append((kind, x.b[1], x.c if size is None else ("c", size)))
        run = _linadd(run, ln_x)
    want = _linadd(off, _lin(ln))
    if not out or run != want:
        return [("raw", ptr, ln)]
    return out


def _parse(p, wall_name, trailer_size):
    evs = [e for e in p.events if e.kind != "branch"]
    pf = PathFacts(p, evs)
    seq = []      # (piece, event index)
    for i, e in enumerate(evs):
        if e.kind == "call" and e.a == wall_name and len(e.b) >= 3:
            for pc in _pieces(evs, i, wall_name):
                seq.append((pc, i))
    k = 0
    while k < len(seq):
        pc, i = seq[k]
        if pc[0] == "varint" and k + 2 < len(seq):
            crc, dat = seq[k + 1][0], seq[k + 2][0]
            L = strip_tags(APE.vstr(pc[1]))

            def holders(v, field):
                """Objects X such that X.field holds value v when the frame is written: v is a read of X.field, or the
                last store to X.field before the frame stored v."""
                out = set()
                m_ = re.match(r"^(.*)(?:->|\.)%s$" % field, strip_tags(APE.vstr(v)))
                if m_:
                    out.add(m_.group(1))
                last = {}
                for x in evs[:i]:
                    if x.kind == "store":
                        m2 = re.match(r"^(.*)(?:->|\.)%s$" % field, strip_tags(x.a))
                        if m2:
                            last[m2.group(1)] = x.b
                for obj_, val_ in last.items():
                    if val_ == v:
                        out.add(obj_)
                return out
            objs = holders(pc[1], "len_data")
            fr = Frame()
            fr.first, fr.last = i, seq[k + 2][1]
            okcrc = False
            if crc[0] == "crcraw":
                objs &= {crc[1]}
                okcrc = bool(objs)
                fr.crc_mode = "raw"
            elif crc[0] == "le32":
                objs &= holders(crc[1], "crc")
                okcrc = bool(objs)
                fr.crc_mode = "encoded"
            elif crc[0] == "rawval":
                # the bytes of a local holding the block's checksum: the crc field's value, or the checksum computed over
                # exactly this frame's payload (byte order of what the local holds: C09.R2 at its definition)
                hc = holders(crc[1], "crc")
                if hc:
                    objs &= hc
                    okcrc = bool(objs)
                else:
                    cvs = APE.vstr(crc[1])
                    mw = re.match(r"^__uint32_identity\((.*)\)(?:[#@]\d+)?$", cvs)      # htole32 on a little-endian host
                    if mw:
                        cvs = mw.group(1)
                    okcrc = any(x.kind == "call" and x.a == "mtbl_crc32c" and APE.vstr(x.c) == cvs and len(x.b) == 2 and dat[0] == "raw" and
                                x.b[0] == dat[1] and x.b[1] == dat[2] for x in evs[:i])
                    fr.crc_local = okcrc
                fr.crc_mode = "raw"
            okdat = dat[0] == "raw" and dat[2] == pc[1]
            if okdat and not getattr(fr, "crc_local", False):
                objs &= holders(dat[1], "data")
                okdat = bool(objs)
            elif okdat:
                objs = objs or {"(block)"}       # a frame assembled from locals: length, checksum and payload tied by value
            mL = bool(objs)
            fr.obj = sorted(objs)[0] if objs else None
            fr.ok = bool(mL) and okcrc and okdat
            if not fr.ok:
                fr.why = "length %s, checksum piece %s, payload %s" % (L, crc[:2] if crc[0] != "le32" else ("le32", APE.vstr(crc[1])),
                                                                      (dat[0], APE.vstr(dat[1]), APE.vstr(dat[2])) if dat[0] == "raw" else dat[0])
            fr.total = _linadd(_linadd(_lin(pc[2]), ({}, 4)), _lin(pc[1]))
            pf.frames.append(fr)
            k += 3
            continue
        if pc[0] == "raw" and pc[2] == ("c", trailer_size):
            pf.trailer = (i, pc[1])
            k += 1
            continue
        pf.junk.append((pc, i))
        k += 1
    return pf


def analyse(ctx):
    prog, cg = ctx.prog, ctx.cg
    key = (id(prog), ctx.tier)
    if key in _cache:
        return _cache[key]
    wall = retry_writer(prog)
    returns_size = (wall.d.get("cret") or wall.d.get("ret") or "void").strip() != "void"
    T = ctx.spec("t_meta")
    tsize = T["magic"]["offset"] + 4
    out = {"wall": wall, "paths": {}, "tsize": tsize}
    ini = prog.need("mtbl_writer_init_fd", W)
    # the cursor: the writer field set from lseek() at init
    cursor = None
    evi = APE.run(prog, cg, ini, bound=APE.BOUND, opaque_calls=("lseek", "dup"))
    init_ok = []
    for p in evi.paths:
        if p.end != "exit":
            continue
        ls = p.calls("lseek")
        st = [e for e in p.events if e.kind == "store" and ls and e.b == ls[0].c and re.match(r"^\w+->\w+$", strip_tags(e.a))]
        good = len(ls) == 1 and len(st) >= 1 and ls[0].b[1] == ("c", 0) and ls[0].b[2] == ("c", 1)
        if st:
            cursor = strip_tags(st[-1].a).split("->", 1)[1]
        init_ok.append((p, good))
    out["init"] = (ini, init_ok)
    out["cursor_from_lseek"] = cursor is not None
    if cursor is None:
        # not initialised from lseek(): recognise the cursor as the 64-bit writer field that is advanced (field := field + ...)
        # in the data-block writer; the missing initialisation is reported by offsets()
        wdb = prog.need("_mtbl_writer_write_data_block", W)
        rec = prog.record("mtbl_writer", W)
        wide = set(f_["name"] for f_ in rec["fields"] if (f_.get("ct") or f_.get("t")) in ("unsigned long", "uint64_t", "unsigned long long")) if rec else set()
        for p in APE.run(prog, cg, wdb, bound=1, inline=("*static",), opaque_calls=(wall.name,)).paths:
            for e in p.events:
                m_ = re.match(r"^(\w+)->(\w+)$", strip_tags(e.a)) if e.kind == "store" else None
                if m_ and m_.group(2) in wide and ("%s->%s@" % (m_.group(1), m_.group(2))) in APE.vstr(e.b):
                    cursor = m_.group(2)
    if cursor is None:
        raise BrokenAnalysis("the writer's file cursor is not recognised (no field set from lseek() at init, none advanced per data block)")
    out["cursor"] = cursor
    for fn in ("_mtbl_writer_write_data_block", "_mtbl_writer_finish"):
        f = prog.need(fn, W)
        ev = APE.run(prog, cg, f, bound=APE.BOUND, inline=("*static",), opaque_calls=(wall.name,),
                     call_returns=({wall.name: 2} if returns_size else None), max_paths=20000)
        out["paths"][fn] = (f, [_parse(p, wall.name, tsize) for p in ev.paths if p.end == "exit"])
    _cache[key] = out
    return out


def _cursor_store(pf, fr, cursor, nxt_first):
    """The store that advances the cursor for frame fr.  Returns (ok, old, event, count): old is the linear form of
    (stored value - bytes of the frame); ok when that is the cursor's value before the frame - what the last cursor store
    before the frame stored, or, without one, a read of the cursor field."""
    cand = []
    for j, e in enumerate(pf.evs):
        if e.kind == "store" and re.match(r"^\w+->%s$" % re.escape(cursor), strip_tags(e.a)) and (nxt_first is None or j < nxt_first) and j > fr.first:
            cand.append((j, e))
    if len(cand) != 1:
        return False, None, (cand[0][1] if cand else None), len(cand)
    j, e = cand[0]
    t, c = _lin(e.b)
    tt, tc = fr.total
    rest = dict(t)
    for k, v in tt.items():
        rest[k] = rest.get(k, 0) - v
    old = ({k: v for k, v in rest.items() if v}, c - tc)
    before = [x for x in pf.evs[:fr.first] if x.kind == "store" and re.match(r"^\w+->%s$" % re.escape(cursor), strip_tags(x.a))]
    if before:
        ok = _lin(before[-1].b) == old
    else:
        ok = old[1] == 0 and len(old[0]) == 1 and list(old[0].values()) == [1] and \
            re.match(r"^\w+->%s@\d+$" % re.escape(cursor), list(old[0])[0]) is not None
    return ok, old, e, 1


def _with_prev(pf):
    prev = -1
    for fr in pf.frames:
        fr.prev_last = prev
        prev = fr.last


def frames(ctx, res, rule):
    """C09.R1 (framing part): every buffer that reaches the file is a frame or the trailer."""
    A = analyse(ctx)
    n = 0
    for fn, (f, pfs) in A["paths"].items():
        res.saw(f)
        for pf in pfs:
            for fr in pf.frames:
                n += 1
                res.check(fr.ok, rule, site(f, "frame"), "framed block = varint64 stored length, 4-byte CRC, stored bytes, in that order, all of the same block",
                          "block framing differs: %s" % fr.why, f.loc(pf.evs[fr.first].node), pf.p.describe(f))
            for pc, i in pf.junk:
                res.bad(rule, site(f, "frame"), "bytes are written that are neither a block frame nor the trailer: %s" %
                        str((pc[0], APE.vstr(pc[1])[:60], APE.vstr(pc[2])[:60]) if pc[0] == "raw" else (pc[0],)), f.loc(pf.evs[i].node), pf.p.describe(f))
            if fn == "_mtbl_writer_write_data_block":
                res.check(len(pf.frames) == 1 and pf.trailer is None, rule, site(f, "one-frame"), "one frame per data block",
                          "a data block is written as %d frame(s)" % len(pf.frames), f.loc(f.body), pf.p.describe(f))
    if n == 0:
        raise BrokenAnalysis("no block frame recognised on any path of the block-writing functions")
    return A


def crc_mode(ctx):
    """How the checksum goes to the file: {"raw"} (the field's bytes as stored) and/or {"encoded"} (little-endian encode)."""
    A = analyse(ctx)
    modes = set()
    for fn, (f, pfs) in A["paths"].items():
        for pf in pfs:
            for fr in pf.frames:
                if fr.ok:
                    modes.add(fr.crc_mode)
    return modes


def offsets(ctx, res, rule):
    """C09.R5: cursor bookkeeping and index entries."""
    A = analyse(ctx)
    prog = ctx.prog
    cursor = A["cursor"]
    ini, init_ok = A["init"]
    res.saw(ini)
    if not A["cursor_from_lseek"]:
        res.bad(rule, site(ini, "initial-offset"), "the file cursor (%s) is not initialised from the descriptor's current offset: writing does not start at the "
                "current file offset" % cursor, ini.loc(ini.body))
    for p, good in init_ok:
        if not A["cursor_from_lseek"]:
            break
        res.check(good, rule, site(ini, "initial-offset"), "the file cursor (%s) starts at the descriptor's current offset (bytes before it are left alone)" % cursor,
                  "writing does not start at the current file offset", ini.loc(ini.body), p.describe(ini))
    f, pfs = A["paths"]["_mtbl_writer_write_data_block"]
    for pf in pfs:
        _with_prev(pf)
        if len(pf.frames) != 1:
            continue
        fr = pf.frames[0]
        ok, old, e, cnt = _cursor_store(pf, fr, cursor, None)
        good = ok
        adds = [x for x in pf.evs if x.kind == "call" and x.a == "block_builder_add" and x.b and strip_tags(APE.vstr(x.b[0])).endswith("->index")]
        enc = None
        if good:
            good = len(adds) == 1 and len(adds[0].b) == 5
        if good:
            a = adds[0]
            encs = [x for x in pf.evs if x.kind == "call" and x.a == "mtbl_varint_encode64" and x.c == a.b[4] and x.b[0] == a.b[3]]
            good = len(encs) == 1 and _lin(encs[0].b[1]) == old and fr.obj is not None and \
                strip_tags(APE.vstr(a.b[1])) in (fr.obj + "->last_key", fr.obj + ".last_key") and \
                strip_tags(APE.vstr(a.b[2])) in (fr.obj + "->len_last_key", fr.obj + ".len_last_key")
            enc = encs[0] if encs else None
        res.check(good, rule, site(f, "index-entry"),
                  "index entry (separator key, varint64 of the offset the block started at); the cursor advances once by the bytes written",
                  "index entry / offset bookkeeping differs: %d cursor store(s)%s, entry offset %s" % (
                      cnt, (" := %s" % APE.vstr(e.b)[:80]) if e is not None else "", APE.vstr(enc.b[1]) if enc else None),
                  f.loc(f.body), pf.p.describe(f))
    # who may move the cursor: the three functions and what they call inside writer.c
    allowed = set()
    roots = [ini] + [A["paths"][k][0] for k in A["paths"]]
    stack = list(roots)
    while stack:
        g = stack.pop()
        if g.name in allowed:
            continue
        allowed.add(g.name)
        for c in g.calls():
            h = prog.func(c.get("callee"), W) if c.get("callee") else None
            if h is not None and h.d.get("static") and h.file.endswith("writer.c"):
                stack.append(h)
    writers = set()
    for g in prog.unit_funcs(W, helpers=True):
        for n, lhs in field_stores(g, "mtbl_writer", cursor):
            writers.add(g.name)
    res.check(writers <= allowed, rule, "%s:writers" % cursor, "the file cursor changes only at init, per data block and for the index block",
              "the file cursor is also changed by %s" % sorted(writers - allowed))


def counters(ctx, res, rule):
    """C10.R2 (block part): per-block statistics and the index block's offset / size, order of the finishing steps."""
    A = analyse(ctx)
    cursor = A["cursor"]
    f, pfs = A["paths"]["_mtbl_writer_write_data_block"]
    for pf in pfs:
        _with_prev(pf)
        if len(pf.frames) != 1:
            res.bad(rule, site(f, "framing-call"), "a data block is framed %d times on one path" % len(pf.frames), f.loc(f.body), pf.p.describe(f))
            continue
        fr = pf.frames[0]
        for fld, add in (("count_data_blocks", ({}, 1)), ("bytes_data_blocks", fr.total)):
            st = [e for e in pf.evs if e.kind == "store" and strip_tags(e.a).endswith("m." + fld)]
            good = len(st) == 1
            if good:
                t, c = _lin(st[0].b)
                rest = dict(t)
                for k, v in add[0].items():
                    rest[k] = rest.get(k, 0) - v
                rest = {k: v for k, v in rest.items() if v}
                good = c == add[1] and len(rest) == 1 and list(rest.values()) == [1] and re.search(r"m\.%s@\d+$" % fld, list(rest)[0]) is not None
            res.check(good, rule, site(f, fld), "%s += %s exactly once per written block" % (fld, "bytes written" if fld.startswith("bytes") else 1),
                      "per written data block %s is updated %d time(s) with %s" % (fld, len(st), [APE.vstr(x.b)[:90] for x in st]),
                      f.loc(st[0].node) if st else f.loc(f.body), pf.p.describe(f))
    f, pfs = A["paths"]["_mtbl_writer_finish"]
    for pf in pfs:
        _with_prev(pf)
        evs = pf.evs
        join = [i for i, e in enumerate(evs) if e.kind == "call" and e.a == "result_handler_destroy"]
        mwc = [i for i, e in enumerate(evs) if e.kind == "call" and e.a == "metadata_write"]
        ibo = [i for i, e in enumerate(evs) if e.kind == "store" and strip_tags(e.a).endswith("m.index_block_offset")]
        bib = [i for i, e in enumerate(evs) if e.kind == "store" and strip_tags(e.a).endswith("m.bytes_index_block")]
        if not pf.frames or len(join) != 1 or len(mwc) != 1 or len(ibo) != 1 or len(bib) != 1 or pf.trailer is None:
            res.bad(rule, site(f, "shape"), "finish does not join, frame the index once, record its offset and size once and "
                    "write the trailer once (join %d, frames %d, trailer image %d, trailer write %s, offset %d, size %d)" %
                    (len(join), len(pf.frames), len(mwc), pf.trailer is not None, len(ibo), len(bib)), f.loc(f.body), pf.p.describe(f))
            continue
        fr = pf.frames[-1]
        res.check(join[0] < fr.first and ibo[0] < mwc[0] and bib[0] < mwc[0] and fr.last < pf.trailer[0] and mwc[0] < pf.trailer[0] and
                  evs[mwc[0]].b[1] == pf.trailer[1], rule, site(f, "order"),
                  "join < index block write; offset and size recorded < trailer image < trailer write (of that image)",
                  "finish records the index block before joining the result handler, or builds / writes the trailer out of order", f.loc(evs[ibo[0]].node), pf.p.describe(f))
        ok, old, e, cnt = _cursor_store(pf, fr, cursor, pf.trailer[0])
        v = APE.vstr(evs[ibo[0]].b)
        if cnt == 0:
            # the cursor is not advanced after the last block (nothing reads it any more): the recorded offset must be a read of it
            good = re.match(r"^\w+->%s@\d+$" % re.escape(cursor), v) is not None and \
                not any(x.kind == "store" and re.match(r"^\w+->%s$" % re.escape(cursor), strip_tags(x.a)) for x in evs[:fr.first])
        else:
            good = ok and _lin(evs[ibo[0]].b) == old
        res.check(good, rule, site(f, "index_block_offset"),
                  "index_block_offset := the cursor value the index bytes were written at (the value the advance starts from)",
                  "index_block_offset := %s, which is not the cursor value the index block was written at" % v[:90], f.loc(evs[ibo[0]].node), pf.p.describe(f))
        res.check(_lin(evs[bib[0]].b) == fr.total, rule, site(f, "bytes_index_block"),
                  "bytes_index_block := bytes of the index block's frame",
                  "bytes_index_block := %s" % APE.vstr(evs[bib[0]].b)[:90], f.loc(evs[bib[0]].node), pf.p.describe(f))
