"""C08 - writer accepts only strictly increasing keys and never overwrites a file.

R1 gate decision table (APE on the add function): the add proceeds iff no entry yet or
   sign(key, last accepted key) = GT; operands resolved by identity.
R2 refusal is pure: on every failure-return path no store to caller-visible memory and no
   call that may write any (mod/ref).
R3 last-key typestate: on every success path the content of w->last_key at return is exactly
   (key, len_key); only add/constructor/destructor modify it.
R4 exclusive create: every open() that can create a file in the library's writer carries
   O_CREAT|O_EXCL, the failed-open edge returns NULL with no other effect; no other
   file-creating call exists in the unit.
D  rests on: C02 C02.R3 (the ordering gate is exactly as good as the byte comparison it calls) - re-run here as <id>.D.<rule>.
"""
import re
from .common import *

EXPLANATION = ("static decision-table and effect rules over the resolved AST/CFG of the writer's add and init functions: "
               "ordering gate sign table, purity of the refusal path (mod/ref), last-key content typestate, "
               "constant evaluation of the open(2) flags; see DESIGN 3 C08")
DESIGN_REF = "DESIGN.md section 3, C08"
COMPLETE = ("C08.R2 refusal performs no store", "C08.R4 exclusive-create flag constant")

CREATORS = {"fopen", "creat", "mkstemp", "mkostemp", "openat", "open64", "freopen", "mkstemps", "tmpfile"}


def cmp_call_roles(f, p, e, key_params, field):
    """For the evaluated call bytes_compare(a, la, b, lb) decide orientation from the *values* of its arguments on path p:
    +1 if (key, last_key), -1 if mirrored, 0 unknown.  (key, len) are the function's parameters; the last key is
    (ubuf_data(X), ubuf_size(X)) for one and the same X whose value is the writer's `field` - however X is spelled."""
    a = e.b
    if len(a) != 4:
        return 0
    kn, ln = f.params[key_params[0]]["name"], f.params[key_params[1]]["name"]

    def is_key(pv, lv):
        return pv == ("s", kn) and lv == ("s", ln)

    def producer(v, names):
        for e2 in p.events:
            if e2.kind == "call" and e2.c == v and e2.a in names and e2.b:
                return e2.b[0]
        return None

    def is_last(pv, lv):
        x, y = producer(pv, ("ubuf_data",)), producer(lv, ("ubuf_size", "ubuf_bytes"))
        return x is not None and x == y and re.match(r"^%s->%s$" % (re.escape(f.params[0]["name"]), field), strip_tags(APE.vstr(x))) is not None

    if is_key(a[0], a[1]) and is_last(a[2], a[3]):
        return 1
    if is_last(a[0], a[1]) and is_key(a[2], a[3]):
        return -1
    return 0


def run(ctx, res):
    prog, cg = ctx.prog, ctx.cg
    mres = prog.enums.get("mtbl_res")
    if not mres:
        raise BrokenAnalysis("enum mtbl_res not found")
    OKV, FAILV = mres["mtbl_res_success"], mres["mtbl_res_failure"]
    f = prog.need("mtbl_writer_add", "mtbl/writer.c")
    res.saw(f)
    ev = APE.run(prog, cg, f, bound=APE.BOUND)
    res.floor("C08.R1", 3)
    res.floor("C08.R2", 1)
    res.floor("C08.R3", 2)
    paths = [p for p in ev.paths if p.end == "exit"]
    if not paths:
        raise BrokenAnalysis("no normal path through mtbl_writer_add")
    n_fail = 0
    for p in paths:
        r = p.ret()
        if r is None or r[0] != "c" or r[1] not in (OKV, FAILV):
            raise BrokenAnalysis("mtbl_writer_add returns a non-constant result on some path")
        success = r[1] == OKV
        # the comparison evaluated on this path
        cmps = [e for e in p.calls("bytes_compare")]
        orient = None
        cons = None
        for e in cmps:
            o = cmp_call_roles(f, p, e, (1, 2), "last_key")
            if o:
                orient = o
                cons = p.cons.get((APE.vstr(e.c), "#0"))
                if cons is not None and o < 0:
                    cons = APE.mirror(cons)
        # count atom
        cnt = None
        for (a, b), v in p.cons.items():
            if "count_entries" in a and b == "#0":
                cnt = v
        sig = site(f, "gate[%s]" % ("cmp=" + "".join(sorted(cons)) if cons else "first-entry" if orient is None else "cmp-unconstrained"))
        if orient is not None and cons is not None:
            if success:
                res.check(cons <= frozenset((GT,)), "C08.R1", sig,
                          "add proceeds only with sign(key,last_key)=GT",
                          "add is accepted although sign(key,last_key) may be %s" % sorted(cons - {GT}),
                          f.loc(cmps[0].node), p.describe(f))
            else:
                n_fail += 1
                res.check(GT not in cons, "C08.R1", sig, "refusal only when sign(key,last_key) in {LT,EQ}",
                          "a strictly greater key is refused", f.loc(cmps[0].node), p.describe(f))
        elif orient is not None and cons is None:
            res.bad("C08.R1", sig, "key comparison evaluated but its result does not decide the outcome",
                    f.loc(cmps[0].node), p.describe(f))
        else:
            # no comparison on this path: only legal when no entry has been accepted yet
            if success:
                res.check(cnt is not None and cnt <= frozenset((LT, EQ)), "C08.R1", sig,
                          "ungated add only when count_entries == 0",
                          "an add succeeds without comparing against the last accepted key although entries exist "
                          "(count constraint %s)" % (sorted(cnt) if cnt else None), f.loc(f.body), p.describe(f))
            else:
                res.bad("C08.R1", sig, "add refused without comparing keys", f.loc(f.body), p.describe(f))
        # ---- R2 purity of refusal ----
        if not success:
            dirty = []
            for e in p.events:
                if e.kind == "store" and not e.a.isidentifier():
                    dirty.append("store to %s" % e.a)
                if e.kind == "call":
                    widx, other = cg.written_args(f.unit, e.node, f)
                    args = call_args(e.node)
                    wr = []
                    for i in widx:
                        if i < len(args):
                            a = strip(args[i])
                            if a["k"] == "UnaryOperator" and a.get("op") == "&" and strip(a["kids"][0])["k"] == "DeclRefExpr" \
                                    and strip(a["kids"][0]).get("dk") == "local":
                                continue
                            wr.append(i)
                    if wr or other:
                        dirty.append("call %s may write caller-visible memory" % e.a)
            res.check(not dirty, "C08.R2", site(f, "refusal-path"), "no store and no writing call between entry and the failure return",
                      "refused add has effects: %s" % "; ".join(dirty), f.loc(p.events[-1].node), p.describe(f))
        # ---- R3 last key content ----
        if success:
            content = "unknown"
            for e in p.events:
                if e.kind != "call":
                    continue
                args = call_args(e.node)
                # by value: any spelling of the writer's last-key vector (w->last_key, a local copy of the pointer, ...)
                tgt = [i for i, v in enumerate(e.b) if re.match(r"^%s->last_key$" % re.escape(f.params[0]["name"]), strip_tags(APE.vstr(v)))]
                if not tgt:
                    continue
                widx, other = cg.written_args(f.unit, e.node, f)
                if not (set(tgt) & set(widx)):
                    continue
                if e.a == "ubuf_reset" or (e.a == "ubuf_clip" and len(e.b) > 1 and e.b[1] == ("c", 0)):
                    content = []
                elif e.a == "ubuf_append" and isinstance(content, list) and len(e.b) >= 3:
                    role = lambda v: ("param", [q["name"] for q in f.params].index(v[1])) if v[0] == "s" and v[1] in [q["name"] for q in f.params] else ("other", APE.vstr(v))
                    content = content + [(role(e.b[1]), role(e.b[2]))]
                else:
                    content = "unknown"
            res.check(content == [(("param", 1), ("param", 2))], "C08.R3", site(f, "success-path:last_key"),
                      "at return last_key holds exactly (key,len_key)",
                      "on a success path the remembered last key is %s, not the key just added" % (content,),
                      f.loc(f.body), p.describe(f))
    if n_fail == 0:
        res.bad("C08.R1", site(f, "gate"), "no path refuses an add: ordering is not enforced", f.loc(f.body))

    # who may modify the last key
    allowed = set()
    writers = {}
    for g in prog.unit_funcs("mtbl/writer.c"):
        for n in walk(g.body):
            if n["k"] == "CallExpr":
                args = n["kids"][1:]
                widx, other = cg.written_args(g.unit, n, g)
                for i in widx:
                    if i < len(args):
                        a = strip(args[i])
                        if a["k"] == "UnaryOperator" and a.get("op") == "&":
                            a = strip(a["kids"][0])
                        if a["k"] == "MemberExpr" and a["field"] == "last_key" and a.get("rec") == "mtbl_writer":
                            writers.setdefault(g.name, []).append(n.get("callee"))
        for n, lhs in field_stores(g, "mtbl_writer", "last_key"):
            allowed.add(g.name)  # constructor: assigns the buffer itself
        for n in g.calls("ubuf_destroy"):
            a = strip(call_args(n)[0])
            if a["k"] == "UnaryOperator" and strip(a["kids"][0]).get("field") == "last_key":
                allowed.add(g.name)
    for g, callees in writers.items():
        ok = g in allowed or g == f.name
        res.check(ok, "C08.R3", "%s:writes-last_key" % g, "last_key modified only by add, constructor, destructor",
                  "%s modifies the writer's last key via %s" % (g, callees))

    # ---- R4 exclusive create ----------------------------------------------
    res.floor("C08.R4", 2)
    init = prog.need("mtbl_writer_init", "mtbl/writer.c")
    res.saw(init)
    opens = init.calls("open")
    if not opens:
        raise BrokenAnalysis("mtbl_writer_init no longer calls open()")
    for n in opens:
        flags = call_args(n)[1]
        v = const_val(flags)
        macs = set()
        vals = {}
        for x in walk(flags):
            for m in init.macros(x):
                macs.add(m)
                if x["k"] == "IntegerLiteral":
                    vals[m] = x.get("val")
        if v is None:
            res.bad("C08.R4", site(init, "open"), "open() flags are not a compile-time constant", init.loc(n))
            continue
        o_creat = vals.get("O_CREAT", 0o100)
        o_excl = vals.get("O_EXCL", 0o200)
        res.check(bool(v & o_creat) and bool(v & o_excl), "C08.R4", site(init, "open:flags"),
                  "flags constant 0%o has O_CREAT and O_EXCL" % v,
                  "open() flags 0%o lack %s: an existing file would be opened and truncated" %
                  (v, "O_EXCL" if not (v & o_excl) else "O_CREAT"), init.loc(n))
    ev2 = APE.run(prog, cg, init, bound=APE.BOUND, opaque_calls=("open",))
    seen_fail = False
    for p in ev2.paths:
        oc = p.calls("open")
        if not oc:
            continue
        cons = p.cons.get((APE.vstr(oc[0].c), "#0"))
        if cons is not None and cons <= frozenset((LT,)):
            seen_fail = True
            after = p.events[p.events.index(oc[0]) + 1:]
            extra = [e for e in after if e.kind == "call" or (e.kind == "store" and not e.a.isidentifier())]
            r = p.ret()
            res.check(not extra and r == ("c", 0), "C08.R4", site(init, "open-failed-edge"),
                      "fd < 0 returns NULL with no other call or store",
                      "failed open does not simply return NULL (%s, returns %s)" % ([repr(e) for e in extra], APE.vstr(r) if r else None),
                      init.loc(oc[0].node), p.describe(init))
        elif cons is None or LT in cons:
            if p.end == "exit" and (cons is None):
                res.bad("C08.R4", site(init, "open-failed-edge"), "result of open() is not tested before use",
                        init.loc(oc[0].node), p.describe(init))
    if not seen_fail:
        res.bad("C08.R4", site(init, "open-failed-edge"), "no path handles a failing open()", init.loc(opens[0]))
    others = [(g, n) for g in prog.unit_funcs("mtbl/writer.c") for n in g.calls(CREATORS | {"open"})
              if not (g.name == init.name)]
    for g, n in others:
        if n["callee"] == "open":
            v = const_val(call_args(n)[1])
            if v is not None and not (v & 0o100):
                continue
        res.bad("C08.R4", site(g, n["callee"]), "writer unit creates files outside mtbl_writer_init", g.loc(n))
    if not others:
        res.ok("C08.R4", "mtbl/writer.c:file-creators", "mtbl_writer_init holds the unit's only file-creating call")

    # ---- properties this one rests on (re-run here, labelled <this>.D.<rule>) ------------------
    depends(ctx, res, 'C09', ('C09.R6',), 'the finished file holds the accepted entries only if its index keys bound their blocks')
    depends(ctx, res, 'C02', ('C02.R3',), 'the ordering gate is exactly as good as the byte comparison it calls')
