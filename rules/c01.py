"""C01 - round trip: a written table reads back exactly what was added.

R1 entry codec agreement: writer emit sequence and reader parse sequence both equal the
   entry row of T-format (hence each other).
R2 exactly-once pass-through: every success path of mtbl_writer_add contains exactly one
   block_builder_add(w->data, key, len_key, val, len_val) with the function's own parameters,
   after any flush; no failure path contains it.
R3 block life cycle: finish(X) is followed by reset(X) before X is used again; finish order:
   flush < join < index block < trailer.
R4 reader block walk: when a block is exhausted next advances the index iterator once, loads
   the block it names, seeks it to its first entry; failure iff the index is exhausted.
R5 mtbl_dump filter truth table.
R6 emptiness witness: the quantity block_builder_empty tests is emptied by reset and grows by a
   provably positive amount on every path of block_builder_add (else a block is silently skipped).
D  rests on: C20 (every byte the writer produces must reach the file whatever write(2) does); C16 (lengths and offsets in the file are written and read with these codecs) - re-run here as <id>.D.<rule>.
R7 container contract (rules/vecrule.py): libmy/vector.h keeps its invariants, element preservation, post-conditions and memory safety in every scenario (every buffer of the writer and the block builder is one of these vectors).
R8 dispatch wiring (rules/dispatch.py): the mtbl_iter / mtbl_source function tables are registered, called (own closure, own slot, parameters forwarded in order) and filled at every construction site without cross-wiring slots of equal signature.
R9 block builder under tight buffers (rules/bbrule.py): with the entry buffer tightened to size + d bytes (d = 0..11, 0..23 thorough) before every add and before finish, every write stays inside the allocation and the finished size is entries + 4 per restart + 4.
"""
import re
from .common import *
from . import fmt

EXPLANATION = ("static necessary-condition rules for the round trip: writer/reader entry codec agreement against the format table, "
               "exactly-once pass-through of accepted entries, builder life cycle and finish ordering, the reader's block walk, and "
               "mtbl_dump's filter decision table (abstract path evaluation); equality of sequences over all inputs is not decided; "
               "see DESIGN 3 C01")
DESIGN_REF = "DESIGN.md section 3, C01"
W = "mtbl/writer.c"


def run(ctx, res):
    prog, cg = ctx.prog, ctx.cg
    mres = prog.enums["mtbl_res"]
    OKV, FAILV = mres["mtbl_res_success"], mres["mtbl_res_failure"]
    res.floor("C01.R1", 8)
    from . import bbrule as _bb
    _bb.entry_encoding(ctx, res, "C01.R1")      # the entry row and block trailer, decided on the bytes produced (was: a shape recogniser)
    fmt.entry_parse_check(ctx, res, "C01.R1")

    # ---- R2 ------------------------------------------------------------------------
    res.floor("C01.R2", 3)
    add = prog.need("mtbl_writer_add", W)
    res.saw(add)
    ev = APE.run(prog, cg, add, bound=APE.BOUND)
    pn = [p["name"] for p in add.params]
    for p in ev.paths:
        if p.end != "exit":
            continue
        evs = [e for e in p.events if e.kind == "call"]
        adds = [e for e in evs if e.a == "block_builder_add"]
        fl = [e for e in evs if e.a == "_mtbl_writer_flush"]
        if p.ret() == ("c", OKV):
            good = len(adds) == 1 and canon(call_args(adds[0].node)[0]) == "w->data" and list(adds[0].b[1:]) == [("s", n) for n in pn[1:]]
            good = good and all(evs.index(f_) < evs.index(adds[0]) for f_ in fl)
            res.check(good, "C01.R2", site(add, "pass-through"),
                      "an accepted entry goes to the data block builder exactly once, unchanged, after any block cut",
                      "an accepted entry is handed to the block builder %d time(s) with %s%s" %
                      (len(adds), [APE.vstr(x) for x in adds[0].b[1:]] if adds else None, " before the block is cut" if adds and fl and not good else ""),
                      add.loc(add.body), p.describe(add))
        else:
            res.check(not adds, "C01.R2", site(add, "refused-not-stored"), "a refused entry never reaches the block builder",
                      "a refused entry is stored anyway", add.loc(add.body), p.describe(add))

    # ---- R3 -------------------------------------------------------------------------
    res.floor("C01.R3", 3)
    # a finished builder is fit for the next block: decided by interpretation (rules/bbrule.py: reuse)
    from . import bbrule as _bbr
    _bbr.reuse(ctx, res, "C01.R3")
    fin = prog.need("_mtbl_writer_finish", W)
    evp = APE.run(prog, cg, fin, bound=APE.BOUND)
    for p in evp.paths:
        if p.end != "exit":
            continue
        names = [e.a for e in p.events if e.kind == "call"]
        order = ["_mtbl_writer_flush", "result_handler_destroy", "_mtbl_writer_write_block", "metadata_write", "_write_all"]
        idx = [names.index(n) if n in names else None for n in order]
        good = None not in idx and idx == sorted(idx) and names.count("_mtbl_writer_write_block") == 1
        res.check(good, "C01.R3", site(fin, "order"), "finish: flush < join < index block < trailer",
                  "finish performs %s" % [n for n in names if n in order], fin.loc(fin.body), p.describe(fin))
        wa = [e for e in p.events if e.kind == "call" and e.a == "_write_all"]
        res.check(len(wa) == 1 and wa[0].b[2] == ("c", 512), "C01.R3", site(fin, "trailer-512"), "exactly one 512-byte trailer is written",
                  "trailer write is %s" % [[APE.vstr(x) for x in w.b] for w in wa], fin.loc(fin.body))
    # flush hands the finished data block to exactly one of: the pool, or compress+write inline
    fl = prog.need("_mtbl_writer_flush", W)
    evp = APE.run(prog, cg, fl, bound=APE.BOUND)
    for p in evp.paths:
        if p.end != "exit":
            continue
        names = [e.a for e in p.events if e.kind == "call"]
        if "block_builder_finish" not in names:
            emp = [v for (a, b), v in p.cons.items() if a.startswith("block_builder_empty(")]
            res.check(bool(emp) and all(EQ not in v for v in emp), "C01.R3", site(fl, "skip-empty"), "nothing is written only when the builder is empty",
                      "flush returns without writing a non-empty block", fl.loc(fl.body), p.describe(fl))
            continue
        n_disp = names.count("threadpool_dispatch")
        n_inl = names.count("_mtbl_writer_write_data_block")
        n_cmp = names.count("_mtbl_writer_compress_block")
        good = (n_disp == 1 and n_inl == 0 and n_cmp == 0) or (n_disp == 0 and n_inl == 1 and n_cmp == 1 and
                                                               names.index("_mtbl_writer_compress_block") < names.index("_mtbl_writer_write_data_block"))
        res.check(good, "C01.R3", site(fl, "one-destination"), "a finished block is dispatched once, or compressed and then written once inline",
                  "a finished data block is dispatched %d time(s), compressed %d and written inline %d time(s)" % (n_disp, n_cmp, n_inl), fl.loc(fl.body), p.describe(fl))

    # ---- R4 --------------------------------------------------------------------------
    res.floor("C01.R4", 2)
    nxt = prog.need("reader_iter_next", "mtbl/reader.c")
    res.saw(nxt)
    # decided by value on the paths of next with the file's internal functions evaluated as part of it, except the leaf block
    # loaders (static functions returning a block), which stay calls
    RU = "mtbl/reader.c"
    loaders = [g for g in prog.unit_funcs(RU, helpers=True) if g.file.endswith("reader.c") and g.d.get("static")
               and (g.d.get("cret") or g.d.get("ret") or "").replace(" ", "") == "structblock*"]
    lnames = set(g.name for g in loaders)
    leaf = [g.name for g in loaders if not any(c.get("callee") in lnames and c.get("callee") != g.name for c in g.calls())]
    if not leaf:
        raise BrokenAnalysis("no block-loading function (static, returning struct block *) found in reader.c")
    evp = APE.run(prog, cg, nxt, bound=APE.BOUND, inline=("*static",), opaque_calls=tuple(leaf))
    seen = 0
    for p in evp.paths:
        if p.end != "exit":
            continue
        evs = [e for e in p.events if e.kind != "branch"]
        calls = [(i, e) for i, e in enumerate(evs) if e.kind == "call"]
        gets = [(i, e) for i, e in calls if e.a == "block_iter_get" and e.b and held_in(evs, i, e.b[0], "bi")]
        if not gets:
            continue
        c0 = p.cons.get((APE.vstr(gets[0][1].c), "#0"))
        if c0 != frozenset((EQ,)):
            continue
        # block exhausted
        seen += 1
        i0 = gets[0][0]
        after = [(i, e) for i, e in calls if i > i0]
        names = [e.a for i, e in after]
        adv = [(i, e) for i, e in after if e.a == "block_iter_next" and e.b and held_in(evs, i, e.b[0], "index_iter")]
        if len(adv) != 1:
            res.bad("C01.R4", site(nxt, "advance-index"), "an exhausted block advances the index iterator %d times" % len(adv), nxt.loc(nxt.body), p.describe(nxt))
            continue
        ia, ea = adv[0]
        ca = p.cons.get((APE.vstr(ea.c), "#0"))
        if ca == frozenset((EQ,)):
            res.check(p.ret() == ("c", FAILV), "C01.R4", site(nxt, "index-exhausted"), "no further block: failure", "end of table does not return failure", None, p.describe(nxt))
            continue
        # block_iter_next() returned true: the iterator has an entry (its contract, rules/readrule.py); a path on which the
        # following block_iter_get() of the same iterator fails does not exist
        if any(e.a == "block_iter_get" and i > ia and e.b and e.b[0] == ea.b[0] and p.cons.get((APE.vstr(e.c), "#0")) == frozenset((EQ,)) for i, e in after):
            seen -= 1
            continue
        ld = [(i, e) for i, e in after if e.a in leaf and i > ia]
        init = [(i, e) for i, e in after if e.a == "block_iter_init" and i > ia]
        first = [(i, e) for i, e in after if e.a == "block_iter_seek_to_first" and i > ia]
        good = len(ld) == 1 and len(init) == 1 and len(first) == 1
        if good:
            (il, el), (ii, ei), (if_, ef) = ld[0], init[0], first[0]
            # the offset the block is loaded from: decoded from the value of the index entry the advance moved to
            gl = prog.func(el.a, RU)
            offs = [el.b[k] for k, prm in enumerate(gl.params) if k < len(el.b) and
                    (prm.get("ct") or prm.get("t") or "") in ("unsigned long", "uint64_t", "unsigned long long", "size_t")]
            src = False
            for i, e in after:
                if e.a == "block_iter_get" and ia < i < il and e.b and held_in(evs, i, e.b[0], "index_iter") and e.outs.get(3) is not None:
                    for j, d_ in after:
                        if d_.a == "mtbl_varint_decode64" and i < j < il and d_.b and d_.b[0] == e.outs.get(3) and offs and d_.outs.get(1) == offs[0]:
                            src = True
            good = src and ei.b[0] == el.c and ef.b[0] == ei.c and ia < il < ii < if_
            rel = [e.a for i, e in after if i < il]
            good = good and "block_destroy" in rel and "block_iter_destroy" in rel
        res.check(good, "C01.R4", site(nxt, "next-block"), "next block: old block released, index advanced once, block it names loaded, positioned at its first entry",
                  "block walk does %s" % names[:10], nxt.loc(nxt.body), p.describe(nxt))
    if seen == 0:
        raise BrokenAnalysis("reader_iter_next: exhausted-block path not recognised")

    # ---- R5 mtbl_dump ------------------------------------------------------------------
    res.floor("C01.R5", 8)
    d = prog.func("dump", "src/mtbl_dump.c")
    if d is None:
        raise BrokenAnalysis("dump() not found in src/mtbl_dump.c")
    res.saw(d)
    evp = APE.run(prog, ctx.cg_all, d, bound=APE.BOUND)
    pn = {p["name"]: i for i, p in enumerate(d.params)}
    n_iter = 0
    for p in evp.paths:
        evs = list(p.events)
        # first loop iteration: from the first successful mtbl_iter_next to the next one
        nx = [i for i, e in enumerate(evs) if e.kind == "call" and e.a == "mtbl_iter_next"]
        if not nx:
            continue
        c = None
        for e in evs[nx[0]:nx[0] + 3]:
            if e.kind == "branch" and isinstance(e.a, tuple) and e.a[0] == APE.vstr(evs[nx[0]].c):
                c = e.b
        if c is None or EQ in c:
            continue
        end = nx[1] if len(nx) > 1 else len(evs)
        it = evs[nx[0] + 1:end]
        if len(nx) < 2 and p.end != "cut":
            continue
        n_iter += 1
        printed = any(e.kind == "call" and e.a in ("print_string", "print_hex_string") for e in it)
        A = {}
        for e in it:
            if e.kind != "branch" or not isinstance(e.a, tuple):
                continue
            a, b = e.a
            if a == "silent":
                A["silent"] = EQ not in e.b
            elif a == "key_prefix" and b == "#0":
                A["kp"] = EQ not in e.b
            elif a == "val_prefix" and b == "#0":
                A["vp"] = EQ not in e.b
            elif re.match(r"^mtbl_iter_next\.out2#\d+$", a) and b == "key_prefix_len":
                A["kshort"] = e.b == frozenset((LT,))
            elif re.match(r"^mtbl_iter_next\.out4#\d+$", a) and b == "val_prefix_len":
                A["vshort"] = e.b == frozenset((LT,))
            elif a.startswith("bcmp(mtbl_iter_next.out1") and ",key_prefix,key_prefix_len)" in a and b == "#0":
                A["kdiff"] = EQ not in e.b
            elif a.startswith("bcmp(mtbl_iter_next.out3") and ",val_prefix,val_prefix_len)" in a and b == "#0":
                A["vdiff"] = EQ not in e.b
            elif a.startswith("memcmp(mtbl_iter_next.out1") and "key_prefix" in a and b == "#0":
                A["kdiff"] = EQ not in e.b
            elif a.startswith("memcmp(mtbl_iter_next.out3") and "val_prefix" in a and b == "#0":
                A["vdiff"] = EQ not in e.b
            elif re.match(r"^mtbl_iter_next\.out2#\d+$", a) and b == "key_min_len":
                A["kmin"] = e.b == frozenset((LT,))
            elif re.match(r"^mtbl_iter_next\.out4#\d+$", a) and b == "val_min_len":
                A["vmin"] = e.b == frozenset((LT,))

        def T(k):
            return A.get(k)
        # three-valued evaluation of the specification
        def NOT(x):
            return None if x is None else (not x)

        def OR(*xs):
            if any(x is True for x in xs):
                return True
            if all(x is False for x in xs):
                return False
            return None

        def AND(*xs):
            if any(x is False for x in xs):
                return False
            if all(x is True for x in xs):
                return True
            return None
        key_ok = OR(NOT(T("kp")), AND(NOT(T("kshort")), NOT(T("kdiff"))))
        val_ok = OR(NOT(T("vp")), AND(NOT(T("vshort")), NOT(T("vdiff"))))
        spec = AND(NOT(T("silent")), key_ok, val_ok, NOT(T("kmin")), NOT(T("vmin")))
        tag = ",".join("%s=%s" % (k, {True: "T", False: "F"}[v]) for k, v in sorted(A.items()))
        if spec is None:
            res.bad("C01.R5", site(d, "filter[%s]" % tag), "the print decision is taken without evaluating the filter formula (%s)" % ("prints" if printed else "skips"),
                    d.loc(d.body), p.describe(d))
        else:
            res.check(printed == spec, "C01.R5", site(d, "filter[%s]" % tag),
                      "printed iff not silent and key/value prefixes match (length and bytes) and minimum lengths are met",
                      "mtbl_dump %s an entry where the options say it should %s" % ("prints" if printed else "skips", "be printed" if spec else "be skipped"),
                      d.loc(d.body), p.describe(d))
    if n_iter == 0:
        raise BrokenAnalysis("dump(): loop iteration not recognised")


    # ---- R6 emptiness witness ---------------------------------------------------------------
    _emptiness_witness(ctx, res)


    # ---- properties this one rests on (re-run here, labelled <this>.D.<rule>) ------------------
    depends(ctx, res, 'C20', None, 'every byte the writer produces must reach the file whatever write(2) does')
    depends(ctx, res, 'C16', None, 'lengths and offsets in the file are written and read with these codecs')
    depends(ctx, res, 'C10', ('C10.R1', 'C10.R2'), 'the reader finds the index block through the trailer: its offset and size fields must be the place and extent the index was written at')

    # ---- block builder under tight buffers
    from . import bbrule
    bbrule.check(ctx, res, "C01.R9")

    # ---- container contract ---------------------------------------------------------------------
    from . import vecrule
    vecrule.check(ctx, res, "C01.R7")

    # ---- dispatch wiring --------------------------------------------------------------------------
    from . import dispatch
    dispatch.check(ctx, res, "C01.R8")

GROW = {"ubuf_advance": 1, "ubuf_append": 2, "ubuf_add": None}
SHRINK = ("ubuf_reset", "ubuf_clip", "ubuf_detach", "ubuf_destroy")
POSITIVE_CALLS = ("mtbl_varint_encode32", "mtbl_varint_encode64", "mtbl_fixed_encode32", "mtbl_fixed_encode64")


def _emptiness_witness(ctx, res):
    """The writer skips the flush of a data block iff block_builder_empty() says so.  Whatever quantity that
    predicate tests must (a) be emptied by block_builder_reset, (b) grow by a provably positive amount on every
    path of block_builder_add and never shrink there.  Otherwise some entry leaves the builder looking empty and
    its block is never written."""
    prog, cg = ctx.prog, ctx.cg
    BBU = "mtbl/block_builder.c"
    res.floor("C01.R6", 3)
    emp = prog.need("block_builder_empty", BBU)
    add = prog.need("block_builder_add", BBU)
    rst = prog.need("block_builder_reset", BBU)
    for g in (emp, add, rst):
        res.saw(g)
    flds = sorted(set(n["field"] for n in walk(emp.body) if n["k"] == "MemberExpr" and n.get("rec") == "block_builder"))
    if len(flds) != 1:
        res.bad("C01.R6", site(emp, "witness"), "block_builder_empty tests %s: cannot name the quantity that witnesses emptiness" % flds, emp.loc(emp.body))
        return
    X = flds[0]
    pn = add.params[0]["name"]

    def is_x(v):
        return re.sub(r"@\d+", "", APE.vstr(v)) == "%s->%s" % (pn, X)

    ev = APE.run(prog, cg, add, bound=1)
    bad_path = None
    shrink = None
    n = 0
    for p in ev.paths:
        if p.end != "exit":
            continue
        n += 1
        grew = False
        for e in p.events:
            if e.kind == "call" and e.b and is_x(e.b[0]):
                if e.a in GROW:
                    k = GROW[e.a]
                    if k is None:
                        grew = True
                    elif k < len(e.b):
                        amt = e.b[k]
                        if (amt[0] == "c" and amt[1] > 0) or (amt[0] == "s" and amt[1].startswith(tuple(c + "(" for c in POSITIVE_CALLS))):
                            grew = True
                elif e.a in SHRINK:
                    shrink = (p, e)
            elif e.kind == "store" and re.sub(r"@\d+", "", e.a) == "%s->%s" % (pn, X):
                v = e.b
                if v is not None and v[0] == "s" and re.match(r"^\(%s->%s(@\d+)?\+#[1-9]\d*\)$" % (pn, X), v[1]):
                    grew = True
                else:
                    shrink = (p, e)
        if not grew and bad_path is None:
            bad_path = p
    if n == 0:
        raise BrokenAnalysis("no normal path through block_builder_add")
    res.check(bad_path is None, "C01.R6", site(add, "witness-grows:%s" % X),
              "every add grows %s, the quantity block_builder_empty tests, by a provably positive amount (%d paths)" % (X, n),
              "block_builder_empty tests %s, which an add does not provably grow (an entry with an empty key or value leaves it at 0): the builder "
              "then looks empty, the writer skips its flush and the block with that entry is never written" % X,
              emp.loc(emp.body), bad_path.describe(add) if bad_path is not None else None)
    res.check(shrink is None, "C01.R6", site(add, "witness-monotonic:%s" % X), "no add shrinks or resets %s" % X,
              "block_builder_add resets or overwrites %s, the quantity block_builder_empty tests: a non-empty builder can look empty" % X,
              add.loc(shrink[1].node) if shrink else None, shrink[0].describe(add) if shrink else None)
    rp = rst.params[0]["name"]
    emptied = any((c.get("callee") in ("ubuf_reset",) and canon(call_args(c)[0]) == "%s->%s" % (rp, X)) or
                  (c.get("callee") == "ubuf_clip" and canon(call_args(c)[0]) == "%s->%s" % (rp, X) and const_val(call_args(c)[1]) == 0)
                  for c in walk(rst.body) if c["k"] == "CallExpr") or \
        any(lhs["field"] == X and const_val(n_["kids"][1]) == 0 for n_, lhs in field_stores(rst, "block_builder"))
    res.check(emptied, "C01.R6", site(rst, "witness-reset:%s" % X), "block_builder_reset empties %s" % X,
              "block_builder_reset does not empty %s: a reset builder does not look empty" % X, rst.loc(rst.body))
