"""Width flow (shared by C06.R6, C10.R3 and C19.R3): quantities that are 64-bit in the file format - the
trailer fields, the writer's offset cursor, the reader's file length and block offsets - stay
64 bits wide on every def-use step inside the library.

Rule.  Sources are reads of the fields listed in spec/t_width.json.  A local, parameter or
function result is *wide* when it is assigned / bound / returned from an expression that mentions a
source or another wide name (fixpoint over the library's call graph, resolved callees).  Then:
  (a) every source field and every wide local / parameter / function result has a declared
      integer type of at least 64 bits;
  (b) no integral conversion to fewer than 64 bits (implicit or explicit) is applied to a
      non-constant expression that mentions a source or a wide name - except as the operand of a
      comparison-free truncation the table names (none today) and except where the narrowed
      expression is bounded by construction: `x % c`, `x & c` with a constant below 2^32.
A narrowing breaks the property only for files beyond 4 GiB or counts beyond 2^32: exactly the
inputs no test contains.
"""
from .common import *
from mtblcheck.bits import tparse


def _int_width(t):
    ti = tparse(t or "")
    if ti and ti[0] == "int":
        return ti[1]
    return None


def _mentions(n, sources, wide, fname, ret_wide):
    """Does expression n mention a source field, a wide name of function fname or a wide-returning call?
    Sub-expressions that are pure sizes of other things (arguments of calls) are not followed."""
    stack = [n]
    while stack:
        x = stack.pop()
        if x is None:
            continue
        k = x.get("k")
        if k == "MemberExpr" and (x.get("rec"), x.get("field")) in sources:
            return "%s.%s" % (x.get("rec"), x.get("field"))
        if k == "DeclRefExpr" and x.get("dk") in ("local", "param") and (fname, x.get("name")) in wide:
            return x.get("name")
        if k == "CallExpr":
            if x.get("callee") in ret_wide:
                return x.get("callee") + "()"
            continue   # the result of another call is a new quantity
        if k in ("UnaryExprOrTypeTraitExpr",):
            continue
        if k == "ArraySubscriptExpr":
            # the element, not the index, carries the value
            stack.append(x["kids"][0])
            continue
        if k == "ConditionalOperator":
            stack.extend(x["kids"][1:])
            continue
        if k == "BinaryOperator" and x.get("op") in ("==", "!=", "<", "<=", ">", ">=", "&&", "||"):
            continue   # a truth value
        if k == "BinaryOperator" and x.get("op") in ("%", "&"):
            c = const_val(x["kids"][1])
            if c is None:
                c = const_val(x["kids"][0]) if x.get("op") == "&" else None
            if c is not None and 0 <= c < (1 << 32):
                continue   # bounded by construction
        if k == "BinaryOperator" and x.get("op") == ">>":
            pass
        stack.extend(kids(x))
    return None


def all_funcs(prog):
    seen = set()
    out = []
    for (u, nm), f in prog.funcs.items():
        key = (f.file, f.line, f.name)
        if key not in seen:
            seen.add(key)
            out.append(f)
    return out


class _PosProg:
    """Just enough of a Program for width_flow over one stand-alone file."""

    def __init__(self, path):
        import json, os
        from mtblcheck import facts
        fl = facts.extract_file(path)
        dd = json.load(open(os.path.join(facts.FACTS_ROOT, "pos", os.path.basename(path) + ".json")))
        self.repo = os.path.dirname(path)
        self.funcs = {(f.unit, f.name): f for f in fl}
        self._records = {r["name"]: r for r in dd.get("records", [])}

    def record(self, name, unit=None):
        return self._records.get(name)


class _PosCtx:
    def __init__(self, ctx, prog):
        self.prog, self.cg, self.tier = prog, None, ctx.tier
        self.spec = ctx.spec


def selftest(ctx, prop):
    """The matcher must report the constructs of the positive example (expected count on the tree is zero)."""
    import os
    from mtblcheck import report
    from mtblcheck.facts import VERIF
    pos = _PosProg(os.path.join(VERIF, "selftest", "pos", "width_narrow.c"))
    r = report.Result(prop, ctx.tier)
    width_flow(_PosCtx(ctx, pos), r, "POS", prop)
    n = len(r.viol)
    need = {"C10": 4, "C19": 3, "C06": 2}.get(prop, 2)
    if n < need:
        raise BrokenAnalysis("width matcher reports %d construct(s) of the positive example, expected at least %d: blind" % (n, need))
    return n


def width_flow(ctx, res, rule, prop):
    prog, cg = ctx.prog, ctx.cg
    T = ctx.spec("t_width")
    rows = [r for r in T["fields"] if prop in r["props"]]
    if not rows:
        raise BrokenAnalysis("no width rows for %s" % prop)
    sources = set()
    missing = []
    for r in rows:
        rec = prog.record(r["rec"])
        if rec is None:
            raise BrokenAnalysis("record %s vanished (T-width)" % r["rec"])
        fld = [f for f in rec["fields"] if f["name"] == r["field"]]
        if not fld:
            if r["rec"] == "mtbl_metadata":
                raise BrokenAnalysis("trailer field %s.%s vanished (T-width)" % (r["rec"], r["field"]))
            # an internal cursor that was removed or renamed: a field that does not exist cannot be narrow; whatever replaced it
            # joins the wide set through the backward step below when it feeds a trailer field or a 64-bit encoder
            missing.append("%s.%s" % (r["rec"], r["field"]))
            continue
        w = _int_width(fld[0].get("ct") or fld[0].get("t"))
        res.check(w is not None and w >= 64, rule, "%s.%s:declared-width" % (r["rec"], r["field"]),
                  "declared %s: 64 bits" % fld[0].get("t"),
                  "%s.%s is declared %s (%s bits): %s beyond 2^32 are truncated" % (r["rec"], r["field"], fld[0].get("t"), w, r["what"]),
                  "%s:%s" % (rec["file"].replace(prog.repo + "/", ""), rec["line"]))
        sources.add((r["rec"], r["field"]))
    if len(missing) > max(1, len(rows) // 3):
        raise BrokenAnalysis("T-width: %d of %d listed fields vanished (%s)" % (len(missing), len(rows), ", ".join(missing)))
    if missing:
        res.notes.append("T-width fields no longer present (skipped): %s" % ", ".join(missing))
    funcs = all_funcs(prog)
    sinks = set(e["name"] for e in ctx.spec("t_codec")["functions"].values())   # serialisers: their bit routing is C16's business
    # backward step: a struct field declared 64 bits wide whose value is stored into a format-wide field joins the sources
    # (the writer's offset cursor under whatever name: it is what index_block_offset and the index entries are made of)
    grew = True
    while grew:
        grew = False
        for f in funcs:
            for n in walk(f.body):
                if n.get("k") in ("BinaryOperator", "CompoundAssignOperator") and n.get("op") in MR.STORE_OPS:
                    lhs = strip(n["kids"][0])
                    if lhs is None or lhs["k"] != "MemberExpr" or (lhs.get("rec"), lhs.get("field")) not in sources:
                        continue
                    stack = [n["kids"][1]]
                    while stack:
                        x = stack.pop()
                        if x is None:
                            continue
                        if x.get("k") == "CallExpr" or (x.get("k") == "BinaryOperator" and x.get("op") in ("==", "!=", "<", "<=", ">", ">=", "&&", "||", "%", "&")):
                            continue
                        if x.get("k") == "MemberExpr" and x.get("rec") and (x.get("rec"), x.get("field")) not in sources \
                                and _int_width(x.get("ct") or x.get("t")) is not None and _int_width(x.get("ct") or x.get("t")) >= 64 \
                                and x.get("rec") in ("mtbl_writer", "mtbl_reader", "reader_iter"):
                            sources.add((x.get("rec"), x.get("field")))
                            grew = True
                        stack.extend(kids(x))
    byname = {}
    for f in funcs:
        byname.setdefault(f.name, []).append(f)
    wide = {}        # (function name, variable name) -> reason
    ret_wide = {}    # function name -> reason
    changed = True
    rounds = 0
    while changed and rounds < 12:
        changed = False
        rounds += 1
        for f in funcs:
            for n in walk(f.body):
                k = n.get("k")
                if k == "DeclStmt":
                    for d in n["decls"]:
                        if d.get("init") is not None and (f.name, d["name"]) not in wide and _int_width(d.get("ct") or d.get("t")) is not None:
                            m = _mentions(d["init"], sources, wide, f.name, ret_wide)
                            if m:
                                wide[(f.name, d["name"])] = (m, d, f)
                                changed = True
                elif k in ("BinaryOperator", "CompoundAssignOperator") and n.get("op") in MR.STORE_OPS:
                    lhs = strip(n["kids"][0])
                    if lhs["k"] == "DeclRefExpr" and lhs.get("dk") in ("local", "param") and (f.name, lhs["name"]) not in wide \
                            and _int_width(lhs.get("ct") or lhs.get("t")) is not None:
                        m = _mentions(n["kids"][1], sources, wide, f.name, ret_wide)
                        if m:
                            wide[(f.name, lhs["name"])] = (m, lhs, f)
                            changed = True
                elif k == "ReturnStmt" and f.name not in ret_wide:
                    ks = kids(n)
                    if ks and _int_width(f.d.get("cret") or f.d.get("ret")) is not None:
                        m = _mentions(ks[0], sources, wide, f.name, ret_wide)
                        if m:
                            ret_wide[f.name] = (m, f)
                            changed = True
                elif k == "CallExpr" and n.get("callee") in byname and n.get("callee") not in sinks:
                    args = call_args(n)
                    for g in byname[n["callee"]]:
                        for i, a in enumerate(args):
                            if i < len(g.params) and (g.name, g.params[i]["name"]) not in wide \
                                    and _int_width(g.params[i].get("ct") or g.params[i].get("t")) is not None:
                                m = _mentions(a, sources, wide, f.name, ret_wide)
                                if m:
                                    wide[(g.name, g.params[i]["name"])] = ("%s in %s" % (m, f.name), g.params[i], g)
                                    changed = True
    # (a) declared widths of wide names
    for (fn, name), (why, decl, f) in sorted(wide.items(), key=lambda kv: kv[0]):
        w = _int_width(decl.get("ct") or decl.get("t"))
        res.check(w is None or w >= 64, rule, "%s:%s:declared-width" % (fn, name), "holds %s in %s bits" % (why, w),
                  "%s in %s holds %s but is declared %s (%s bits)" % (name, fn, why, decl.get("t"), w), f.loc(f.body))
    for fn, (why, f) in sorted(ret_wide.items()):
        w = _int_width(f.d.get("cret") or f.d.get("ret"))
        res.check(w is None or w >= 64, rule, "%s:return:declared-width" % fn, "returns %s in %s bits" % (why, w),
                  "%s returns %s as %s (%s bits)" % (fn, why, f.d.get("ret"), w), f.loc(f.body))
    # (b) narrowing conversions
    ncast = 0
    for f in funcs:
        for n in walk(f.body):
            if n.get("k") in ("ImplicitCastExpr", "CStyleCastExpr") and n.get("cast") == "IntegralCast" and "val" not in n:
                to = _int_width(n.get("ct") or n.get("t"))
                kid = n["kids"][0]
                fr = _int_width(kid.get("ct") or kid.get("t"))
                if to is None or fr is None or to >= 64 or to >= fr:
                    continue
                m = _mentions(kid, sources, wide, f.name, ret_wide)
                if m:
                    ncast += 1
                    res.bad(rule, site(f, "narrow:%s" % canon(kid)[:60]),
                            "%s (carries %s) is converted to %d bits: truncated beyond 2^%d" % (canon(kid)[:80], m, to, to), f.loc(n))
    if ncast == 0:
      res.ok(rule, "library:narrowing-conversions", "no integral conversion below 64 bits is applied to a value derived from %d format-wide field(s) "
             "(%d wide locals/parameters, %d wide-returning functions followed through %d rounds)" % (len(sources), len(wide), len(ret_wide), rounds))
    res.tables.setdefault("wide_names", {})[rule] = sorted("%s:%s" % k for k in wide) + sorted("%s()" % k for k in ret_wide)
    return wide, ret_wide
