"""Block builder under tight buffers (C01.R9, C09.R8): every byte block_builder_add / block_builder_finish write
lies inside what they reserved first.

The builder writes through ubuf_ptr() after ubuf_reserve(); whether the reservation covers the writes shows only
when the buffer happens to be (nearly) full at that moment - a block size no test produces.  Decided with the
allocation-aware interpreter: the real code of the builder, of the vector macro and of the varint/fixed encoders is
interpreted on builders holding 0..3 small entries (concrete lengths, symbolic bytes, restart interval 1 and 16), and
before every add and before finish the entry buffer is *tightened* to exactly size + d bytes of capacity for every d in
0..23 - a state the vector's invariant allows.  Any access outside the allocation, failed assertion or wrong final
size (entries + 4 per restart + 4) is a violation.
"""
from .common import *
from mtblcheck import bits as B
from mtblcheck import memmodel as M

U = "mtbl/block_builder.c"
SEQS = [[(1, 0)], [(0, 0)], [(2, 3), (2, 1)], [(1, 1), (3, 0), (1, 2)], [(1, 20)], [(18, 0), (19, 17)]]


def _field(s, obj, name):
    return s.ext["heap"].fields.get(((obj.base, obj.off), name))


def _cnum(s, v):
    if isinstance(v, B.BV):
        v = s.nbits(v)
        return v.value() if v.is_const() else None
    return None


def tighten(s, ub, d):
    """Give the ubuf exactly size + d elements of capacity (at least 1), as a realloc to the exact size would."""
    h = s.ext["heap"]
    n = _cnum(s, _field(s, ub, "_n")) or 0
    v = _field(s, ub, "_v")
    cap = max(n + d, 1)
    h.fields[((ub.base, ub.off), "_n_alloced")] = B.const(cap, 64, False)
    h.allocs[v.base[1]][0] = cap


def check(ctx, res, rule):
    prog = ctx.prog
    init = prog.need("block_builder_init", U)
    add = prog.need("block_builder_add", U)
    fin = prog.need("block_builder_finish", U)
    for g in (init, add, fin):
        res.saw(g)
    res.floor(rule, 2)
    nrun = 0
    quick = ctx.tier != "thorough"
    D_ADD = (0, 15) if quick else (0, 1, 7, 14, 15, 16)
    D_FIN = range(0, 12) if quick else range(0, 24)
    for interval in (1, 16):
        problems = []
        for seq in SEQS:
            for d_add in D_ADD:
                if len(problems) > 6:
                    break
                I = M.MemInterp(prog, U)
                st = I.new_state()
                try:
                    outs = I.call(st, init, [interval])
                    if len(outs) != 1:
                        raise BrokenAnalysis("block_builder_init forks")
                    st, b = outs[0]
                    states = [st]
                    for k, (lk, lv) in enumerate(seq):
                        nxt = []
                        for s in states:
                            tighten(s, _field(s, b, "buf"), d_add)
                            for s2, _r in I.call(s, add, [b, B.Ptr(("p", 10 + 2 * k), 0), lk, B.Ptr(("p", 11 + 2 * k), 0), lv]):
                                nxt.append(s2)
                        states = nxt
                        if len(states) > 64:
                            raise BrokenAnalysis("block builder scenario forks into %d traces" % len(states))
                except M.MemFault as e:
                    problems.append("entries %s, buffer capacity = size + %d before each add: %s" % (seq, d_add, e))
                    continue
                for d_fin in D_FIN:
                    for s0 in states:
                        nrun += 1
                        s = s0.copy()
                        try:
                            ub = _field(s, b, "buf")
                            before = _cnum(s, _field(s, ub, "_n"))
                            nrest = _cnum(s, _field(s, _field(s, b, "restarts"), "_n"))
                            tighten(s, ub, d_fin)
                            h = s.ext["heap"]
                            k0 = h.next
                            h.allocs[k0] = [8, True, True]
                            h.allocs[k0 + 1] = [8, True, True]
                            h.next = k0 + 2
                            for s2, _r in I.call(s, fin, [b, B.Ptr(("A", k0), 0), B.Ptr(("A", k0 + 1), 0)]):
                                szb = []
                                for i in range(8):
                                    szb += list(s2.mem.get((("A", k0 + 1), i), (None,) * 8))
                                got = B.BV(szb).value() if all(x in (0, 1) for x in szb) else None
                                want = before + 4 * nrest + 4
                                if got != want:
                                    problems.append("finished block of %d entr%s reports %s bytes, expected %d (entries %d + %d restart(s) x 4 + 4)"
                                                    % (len(seq), "y" if len(seq) == 1 else "ies", got, want, before, nrest))
                        except M.MemFault as e:
                            problems.append("entries %s, buffer capacity = size + %d before finish (+%d before add): %s" % (seq, d_fin, d_add, e))
                    if len(problems) > 6:
                        break
        res.check(not problems, rule, "block_builder:tight-buffers:interval=%d" % interval,
                  "every write of add and finish stays inside the reserved buffer and the block size is entries + 4 per restart + 4, whatever room the buffer had",
                  "; ".join(problems[:2]), add.loc(add.body))
    res.tables.setdefault("block_builder_scenarios", {})[rule] = nrun


# ---------------------------------------------------------------------------------------------------------------------
ENC_SEQS = [[(0, 0)], [(1, 0), (2, 1)], [(3, 2), (3, 0), (4, 5)], [(2, 130)], [(130, 1), (131, 3)]]


def _byte(s, A, off):
    b = s.mem.get((A, off))
    if b is None:
        return None
    return tuple(s.norm(x) for x in b)


def _varint_at(s, A, off, limit):
    """(value, length) of a varint made of known bits at off, or None."""
    v = 0
    for k in range(5):
        if off + k >= limit:
            return None
        b = _byte(s, A, off + k)
        if b is None or any(x not in (0, 1) for x in b):
            return None
        byte = sum(bit << i for i, bit in enumerate(b))
        v |= (byte & 0x7f) << (7 * k)
        if not byte & 0x80:
            return v, k + 1
    return None


def entry_encoding(ctx, res, rule):
    """Block entry row and block trailer of T-format, decided on the bytes the builder produces.

    The real block_builder_add / block_builder_finish (with the vector macro and the codecs underneath) are interpreted on
    entries of concrete lengths and symbolic bytes.  A comparison of key bytes splits the trace, so each trace knows which
    leading bytes of consecutive keys are equal.  After every add the bytes appended must be
        varint(shared) varint(len_key - shared) varint(len_val) key[shared:] value
    with `shared` bytes of the key equal, on this trace, to the previous key's (0 at a restart point), and the restart array
    must have gained the entry's offset exactly at restart points; after finish the tail must be the restart offsets as
    32-bit little-endian words followed by their count.  Lengths below and above 127 are covered (multi-byte headers)."""
    prog = ctx.prog
    init = prog.need("block_builder_init", U)
    add = prog.need("block_builder_add", U)
    fin = prog.need("block_builder_finish", U)
    res.floor(rule, 2)
    ntr = 0
    for interval in (1, 16):
        problems = []
        for seq in ENC_SEQS:
            if len(problems) > 3:
                break
            if interval == 1 and max(l for l, _ in seq) > 100:
                continue
            I = M.MemInterp(prog, U)
            I.max_paths = 20000
            I.fuel = 600
            st = I.new_state()
            try:
                outs = I.call(st, init, [interval])
                st, b = outs[0]
                states = [(st, [0], [])]        # state, restart offsets, entries so far as (offset, key buffer id, lk)
                for k, (lk, lv) in enumerate(seq):
                    nxt = []
                    for s, rst, ents in states:
                        ub = _field(s, b, "buf")
                        n0 = _cnum(s, _field(s, ub, "_n")) or 0
                        kb, vb = ("p", 10 + 2 * k), ("p", 11 + 2 * k)
                        for s2, _r in I.call(s, add, [b, B.Ptr(kb, 0), lk, B.Ptr(vb, 0), lv]):
                            ntr += 1
                            A = _field(s2, ub, "_v").base
                            n1 = _cnum(s2, _field(s2, ub, "_n"))
                            is_restart = (k % interval == 0)
                            where = "interval %d, entry %d of lengths %s" % (interval, k, seq)
                            h1 = _varint_at(s2, A, n0, n1)
                            h2 = _varint_at(s2, A, n0 + h1[1], n1) if h1 else None
                            h3 = _varint_at(s2, A, n0 + h1[1] + h2[1], n1) if h1 and h2 else None
                            if not (h1 and h2 and h3):
                                problems.append("%s: the entry does not start with three varints of known value" % where)
                                continue
                            shared, nonsh, vlen = h1[0], h2[0], h3[0]
                            pos = n0 + h1[1] + h2[1] + h3[1]
                            bad = None
                            if nonsh != lk - shared or shared > lk:
                                bad = "shared %d + non_shared %d is not the key length %d" % (shared, nonsh, lk)
                            elif vlen != lv:
                                bad = "value length field is %d, the value has %d bytes" % (vlen, lv)
                            elif n1 != pos + nonsh + lv:
                                bad = "the entry occupies %d bytes, header + suffix + value need %d" % (n1 - n0, pos - n0 + nonsh + lv)
                            elif is_restart and shared != 0:
                                bad = "a restart entry shares %d bytes with its predecessor" % shared
                            elif shared and not ents:
                                bad = "the first entry shares %d bytes with nothing" % shared
                            if bad is None and shared:
                                _o, pkb, plk = ents[-1]
                                if shared > plk:
                                    bad = "shares %d bytes with a previous key of %d bytes" % (shared, plk)
                                else:
                                    for i in range(shared):
                                        for j in range(8):
                                            if s2.norm(("d", kb, i, j)) != s2.norm(("d", pkb, i, j)):
                                                bad = "byte %d is counted as shared although this trace does not know it equals the previous key's" % i
                                                break
                                        if bad:
                                            break
                            if bad is None:
                                for i in range(nonsh):
                                    got = _byte(s2, A, pos + i)
                                    want = tuple(s2.norm(("d", kb, shared + i, j)) for j in range(8))
                                    if got != want:
                                        bad = "suffix byte %d is not key byte %d" % (i, shared + i)
                                        break
                            if bad is None:
                                for i in range(lv):
                                    got = _byte(s2, A, pos + nonsh + i)
                                    want = tuple(s2.norm(("d", vb, i, j)) for j in range(8))
                                    if got != want:
                                        bad = "value byte %d is not the value's" % i
                                        break
                            rv = _field(s2, b, "restarts")
                            nr = _cnum(s2, _field(s2, rv, "_n"))
                            rst2 = rst + [n0] if (is_restart and k > 0) else rst
                            if bad is None and nr != len(rst2):
                                bad = "the restart array has %s entries after this add, expected %d" % (nr, len(rst2))
                            if bad:
                                problems.append("%s: %s" % (where, bad))
                                continue
                            nxt.append((s2, rst2, ents + [(n0, kb, lk)]))
                    states = nxt[:40]
                for s, rst, ents in states[:6]:
                    ub = _field(s, b, "buf")
                    n0 = _cnum(s, _field(s, ub, "_n")) or 0
                    h = s.ext["heap"]
                    k0 = h.next
                    h.allocs[k0] = [8, True, True]
                    h.allocs[k0 + 1] = [8, True, True]
                    h.next = k0 + 2
                    A = _field(s, ub, "_v").base
                    for s2, _r in I.call(s, fin, [b, B.Ptr(("A", k0), 0), B.Ptr(("A", k0 + 1), 0)]):
                        out = s2.ext["heap"].pcells.get((("A", k0), 0))
                        OA = out.base if isinstance(out, B.Ptr) else A
                        words = rst + [len(rst)]
                        for wi, w in enumerate(words):
                            got = 0
                            okb = True
                            for bi_ in range(4):
                                bb = _byte(s2, OA, n0 + 4 * wi + bi_)
                                if bb is None or any(x not in (0, 1) for x in bb):
                                    okb = False
                                    break
                                got |= sum(bit << i for i, bit in enumerate(bb)) << (8 * bi_)
                            if not okb or got != w:
                                problems.append("interval %d, lengths %s: trailer word %d is %s, expected %d (restart offsets %s then their count)"
                                                % (interval, seq, wi, got if okb else "not a known value", w, rst))
                                break
            except M.MemFault as e:
                problems.append("interval %d, lengths %s: %s" % (interval, seq, e))
        res.check(not problems, rule, "block_builder:entry-encoding:interval=%d" % interval,
                  "every entry is varint(shared) varint(non_shared) varint(value_len) suffix value with truly shared bytes, restart points and the block trailer as in the format table",
                  "; ".join(problems[:2]), add.loc(add.body))
    res.tables.setdefault("entry_encoding_traces", {})[rule] = ntr


def reuse(ctx, res, rule):
    """A builder the writer has finished a block with is fit for the next block (C01.R3, C09.R3).

    From the writer's own paths: the calls it makes on a builder after block_builder_finish, up to the end of the function
    (today: block_builder_reset; none when finish resets the builder itself).  Then, with the allocation-aware interpreter:
    init, three adds, finish, exactly those calls, two more adds, finish - and the second block, read by the real block
    iterator (rules/readrule.py), must hold the two new entries and nothing else.  A builder left finished trips its own
    assertion on the next add; a reset that forgets the restart array or the counter yields a block the reader parses
    differently.  Either shows here, whichever function holds the state."""
    from . import readrule
    prog, cg = ctx.prog, ctx.cg
    WU = "mtbl/writer.c"
    init = prog.need("block_builder_init", U)
    add = prog.need("block_builder_add", U)
    fin = prog.need("block_builder_finish", U)
    res.floor(rule, 2)
    bbfuncs = set(g.name for g in prog.unit_funcs(U))
    seqs = {}
    for g in prog.unit_funcs(WU):
        if not g.calls("block_builder_finish"):
            continue
        res.saw(g)
        for p in APE.run(prog, cg, g, bound=APE.BOUND).paths:
            if p.end != "exit":
                continue
            evs = [e for e in p.events if e.kind == "call"]
            for i, e in enumerate(evs):
                if e.a != "block_builder_finish" or not e.b:
                    continue
                after = tuple(x.a for x in evs[i + 1:] if x.a in bbfuncs and x.b and x.b[0] == e.b[0] and len(x.b) == 1)
                seqs.setdefault((g.name, strip_tags(APE.vstr(e.b[0]))), set()).add(after)
    if not seqs:
        raise BrokenAnalysis("no function of the writer finishes a block builder")
    for (gname, who), alts in sorted(seqs.items()):
        for after in sorted(alts):
            problems = []
            und = None
            for interval in (2, 16):
                I = M.MemInterp(prog, U)
                I.max_paths = 20000
                I.fuel = 600
                st = I.new_state()
                try:
                    (st, b), = I.call(st, init, [interval])[:1]
                    states = [st]
                    for k, (lk, lv) in enumerate([(2, 1), (3, 0), (1, 2)]):
                        nxt = []
                        for s in states:
                            nxt += [s2 for s2, _ in I.call(s, add, [b, B.Ptr(("p", 10 + 2 * k), 0), lk, B.Ptr(("p", 11 + 2 * k), 0), lv])]
                        states = nxt[:3]

                    def finish(s):
                        h = s.ext["heap"]
                        k0 = h.next
                        h.allocs[k0] = [8, True, True]
                        h.allocs[k0 + 1] = [8, True, True]
                        h.next = k0 + 2
                        return [(s2, k0) for s2, _ in I.call(s, fin, [b, B.Ptr(("A", k0), 0), B.Ptr(("A", k0 + 1), 0)])]
                    states = [x for s in states for x in finish(s)][:3]
                    for fname in after:
                        g2 = prog.need(fname, U)
                        states = [(s2, k0) for s, k0 in states for s2, _ in I.call(s, g2, [b])][:3]
                    second = [(4, 2), (5, 1)]
                    st2 = [s for s, _k in states]
                    for k, (lk, lv) in enumerate(second):
                        nxt = []
                        for s in st2:
                            nxt += [s2 for s2, _ in I.call(s, add, [b, B.Ptr(("p", 30 + 2 * k), 0), lk, B.Ptr(("p", 31 + 2 * k), 0), lv])]
                        st2 = nxt[:3]
                    for s in st2[:2]:
                        for s2, k0 in finish(s):
                            out = s2.ext["heap"].pcells.get((("A", k0), 0))
                            size = readrule._num(s2, B.Ptr(("A", k0 + 1), 0))
                            if not isinstance(out, B.Ptr) or size is None:
                                problems.append("interval %d: the second finish does not hand out a block" % interval)
                                continue
                            # what the reader must see: the two new entries; a key byte counted as shared must be known equal
                            expect = []
                            prev = None
                            for k, (lk, lv) in enumerate(second):
                                kb, vb = ("p", 30 + 2 * k), ("p", 31 + 2 * k)
                                expect.append(([tuple(("d", kb, i, j) for j in range(8)) for i in range(lk)],
                                               [tuple(("d", vb, i, j) for j in range(8)) for i in range(lv)], lv))
                            I2 = M.MemInterp(prog, readrule.BL)
                            I2.max_paths = 20000
                            I2.fuel = 600
                            pr, _tr = readrule.read_block(I2, prog, s2, out, size, expect,
                                                          "second block of a reused builder (interval %d, after %s)" % (interval, "+".join(after) or "finish alone"))
                            problems += pr
                except M.MemFault as e:
                    problems.append("interval %d: %s" % (interval, e))
                except BrokenAnalysis as e:
                    und = "interval %d: %s" % (interval, e)
            if und and not problems:
                res.undecided(rule, "%s:%s: %s" % (gname, who, und))
                continue
            res.check(not problems, rule, "%s:%s:reuse-after-finish%s" % (gname, who, "+" + "+".join(after) if after else ""),
                      "after finish%s the builder produces a block holding exactly the next entries" % (" and " + ", ".join(after) if after else ""),
                      "a finished builder is not fit for the next block: %s" % "; ".join(problems[:2]), prog.need(gname, WU).loc(prog.need(gname, WU).body))
