"""Block builder under tight buffers (C01.R9, C09.R8): every byte block_builder_add / block_builder_finish write
lies inside what they reserved first.

The builder writes through ubuf_ptr() after ubuf_reserve(); whether the reservation covers the writes shows only
when the buffer happens to be (nearly) full at that moment - a block size no test produces.  Decided with the
allocation-aware interpreter: the real code of the builder, of the vector macro and of the varint/fixed encoders is
interpreted on builders holding 0..3 small entries (concrete lengths, symbolic bytes, restart interval 1 and 16), and
before every add and before finish the entry buffer is *tightened* to exactly size + d bytes of capacity for every d in
0..23 - a state the vector's invariant allows.  Any access outside the allocation, failed assertion or wrong final
size (entries + 4 per restart + 4) is a violation.
"""
from .common import *
from mtblcheck import bits as B
from mtblcheck import memmodel as M

U = "mtbl/block_builder.c"
SEQS = [[(1, 0)], [(0, 0)], [(2, 3), (2, 1)], [(1, 1), (3, 0), (1, 2)], [(1, 20)], [(18, 0), (19, 17)]]


def _field(s, obj, name):
    return s.ext["heap"].fields.get(((obj.base, obj.off), name))


def _cnum(s, v):
    if isinstance(v, B.BV):
        v = s.nbits(v)
        return v.value() if v.is_const() else None
    return None


def tighten(s, ub, d):
    """Give the ubuf exactly size + d elements of capacity (at least 1), as a realloc to the exact size would."""
    h = s.ext["heap"]
    n = _cnum(s, _field(s, ub, "_n")) or 0
    v = _field(s, ub, "_v")
    cap = max(n + d, 1)
    h.fields[((ub.base, ub.off), "_n_alloced")] = B.const(cap, 64, False)
    h.allocs[v.base[1]][0] = cap


def check(ctx, res, rule):
    prog = ctx.prog
    init = prog.need("block_builder_init", U)
    add = prog.need("block_builder_add", U)
    fin = prog.need("block_builder_finish", U)
    for g in (init, add, fin):
        res.saw(g)
    res.floor(rule, 2)
    nrun = 0
    quick = ctx.tier != "thorough"
    D_ADD = (0, 15) if quick else (0, 1, 7, 14, 15, 16)
    D_FIN = range(0, 12) if quick else range(0, 24)
    for interval in (1, 16):
        problems = []
        for seq in SEQS:
            for d_add in D_ADD:
                if len(problems) > 6:
                    break
                I = M.MemInterp(prog, U)
                st = I.new_state()
                try:
                    outs = I.call(st, init, [interval])
                    if len(outs) != 1:
                        raise BrokenAnalysis("block_builder_init forks")
                    st, b = outs[0]
                    states = [st]
                    for k, (lk, lv) in enumerate(seq):
                        nxt = []
                        for s in states:
                            tighten(s, _field(s, b, "buf"), d_add)
                            for s2, _r in I.call(s, add, [b, B.Ptr(("p", 10 + 2 * k), 0), lk, B.Ptr(("p", 11 + 2 * k), 0), lv]):
                                nxt.append(s2)
                        states = nxt
                        if len(states) > 64:
                            raise BrokenAnalysis("block builder scenario forks into %d traces" % len(states))
                except M.MemFault as e:
                    problems.append("entries %s, buffer capacity = size + %d before each add: %s" % (seq, d_add, e))
                    continue
                for d_fin in D_FIN:
                    for s0 in states:
                        nrun += 1
                        s = s0.copy()
                        try:
                            ub = _field(s, b, "buf")
                            before = _cnum(s, _field(s, ub, "_n"))
                            nrest = _cnum(s, _field(s, _field(s, b, "restarts"), "_n"))
                            tighten(s, ub, d_fin)
                            h = s.ext["heap"]
                            k0 = h.next
                            h.allocs[k0] = [8, True, True]
                            h.allocs[k0 + 1] = [8, True, True]
                            h.next = k0 + 2
                            for s2, _r in I.call(s, fin, [b, B.Ptr(("A", k0), 0), B.Ptr(("A", k0 + 1), 0)]):
                                szb = []
                                for i in range(8):
                                    szb += list(s2.mem.get((("A", k0 + 1), i), (None,) * 8))
                                got = B.BV(szb).value() if all(x in (0, 1) for x in szb) else None
                                want = before + 4 * nrest + 4
                                if got != want:
                                    problems.append("finished block of %d entr%s reports %s bytes, expected %d (entries %d + %d restart(s) x 4 + 4)"
                                                    % (len(seq), "y" if len(seq) == 1 else "ies", got, want, before, nrest))
                        except M.MemFault as e:
                            problems.append("entries %s, buffer capacity = size + %d before finish (+%d before add): %s" % (seq, d_fin, d_add, e))
                    if len(problems) > 6:
                        break
        res.check(not problems, rule, "block_builder:tight-buffers:interval=%d" % interval,
                  "every write of add and finish stays inside the reserved buffer and the block size is entries + 4 per restart + 4, whatever room the buffer had",
                  "; ".join(problems[:2]), add.loc(add.body))
    res.tables.setdefault("block_builder_scenarios", {})[rule] = nrun
