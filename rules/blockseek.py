"""In-block search (T-cmp rows 7-11), shared by C02.R4 and C03.R4: row 7 here, rows 8-11 in rules/seekrule.py."""
from .common import *

U = "mtbl/block.c"


def check(ctx, res, rule_search, rule_shortcut):
    prog, cg = ctx.prog, ctx.cg
    f = prog.need("block_iter_seek", U)
    crp = prog.need("compare_restart_point", U)
    res.saw(f)
    res.saw(crp)
    # row 7: compare_restart_point returns the comparison unchanged, operands (restart key, target)
    ev = APE.run(prog, cg, crp, bound=APE.BOUND)
    n7 = 0
    for p in ev.paths:
        if p.end != "exit":
            continue
        bc = p.calls("bytes_compare")
        a = [strip(x) for x in call_args(bc[0].node)] if bc else []
        good = len(bc) == 1 and p.ret() == bc[0].c and len(a) == 4 and \
            a[2]["k"] == "DeclRefExpr" and a[2].get("dk") == "param" and a[2]["idx"] == 2 and \
            a[3]["k"] == "DeclRefExpr" and a[3].get("dk") == "param" and a[3]["idx"] == 3 and \
            a[0]["k"] == "DeclRefExpr" and a[0].get("dk") == "local"
        n7 += 1
        res.check(good, rule_search, site(crp, "return"), "compare_restart_point returns sign(restart key, target) unchanged",
                  "compare_restart_point does not return bytes_compare(restart key, target): %s" % (APE.vstr(p.ret()) if p.ret() else None),
                  crp.loc(crp.body), p.describe(crp))
    if n7 == 0:
        raise BrokenAnalysis("compare_restart_point: no normal path")

    # rows 8-11 (galloping, bisection, continue-from-current shortcut, linear scan) are decided together, in the order
    # domain, for every small block, iterator state and target position: rules/seekrule.py
    from . import seekrule
    seekrule.check(ctx, res, rule_search, rule_shortcut)
