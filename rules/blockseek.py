"""Comparison sites of block_iter_seek (T-cmp rows 7-11), shared by C02.R4 and C03.R4."""
from .common import *

U = "mtbl/block.c"


def check(ctx, res, rule_search, rule_shortcut):
    prog, cg = ctx.prog, ctx.cg
    f = prog.need("block_iter_seek", U)
    crp = prog.need("compare_restart_point", U)
    res.saw(f)
    res.saw(crp)
    # row 7: compare_restart_point returns the comparison unchanged, operands (restart key, target)
    ev = APE.run(prog, cg, crp, bound=APE.BOUND)
    n7 = 0
    for p in ev.paths:
        if p.end != "exit":
            continue
        bc = p.calls("bytes_compare")
        a = [strip(x) for x in call_args(bc[0].node)] if bc else []
        good = len(bc) == 1 and p.ret() == bc[0].c and len(a) == 4 and \
            a[2]["k"] == "DeclRefExpr" and a[2].get("dk") == "param" and a[2]["idx"] == 2 and \
            a[3]["k"] == "DeclRefExpr" and a[3].get("dk") == "param" and a[3]["idx"] == 3 and \
            a[0]["k"] == "DeclRefExpr" and a[0].get("dk") == "local"
        n7 += 1
        res.check(good, rule_search, site(crp, "return"), "compare_restart_point returns sign(restart key, target) unchanged",
                  "compare_restart_point does not return bytes_compare(restart key, target): %s" % (APE.vstr(p.ret()) if p.ret() else None),
                  crp.loc(crp.body), p.describe(crp))
    if n7 == 0:
        raise BrokenAnalysis("compare_restart_point: no normal path")

    sites = compare_sites(prog, cg, f, {"compare_restart_point"})
    seen = set()
    for B, call, acc in sites:
        loopi = in_loop_cond(f, B)
        if loopi is not None and B.termk in ("WhileStmt", "ForStmt", "DoStmt"):
            # row 8 gallop: keep galloping iff LT
            cont = acc if loopi == 0 else ALL - acc
            seen.add(8)
            res.check(cont == frozenset((LT,)), rule_shortcut, site(f, "gallop:continue"),
                      "galloping continues iff restart key < target", "galloping continues on %s" % sorted(cont), f.loc(B.cond))
            acts, _ = edge_actions(f, B, loopi)
            st = [canon(a) for a in acts if a["k"] == "BinaryOperator" and a.get("op") == "="]
            res.check(any(s.startswith("(left=") for s in st), rule_shortcut, site(f, "gallop:left:=i"),
                      "a restart key below the target becomes the new left bound", "gallop body does not raise left (%s)" % st, f.loc(B.cond))
        else:
            # row 9 bisection
            seen.add(9)
            t_acts, _ = edge_actions(f, B, 0)
            f_acts, _ = edge_actions(f, B, 1)
            ts = [canon(a) for a in t_acts if a["k"] == "BinaryOperator"]
            fs = [canon(a) for a in f_acts if a["k"] == "BinaryOperator"]
            if any(s.startswith("(left=") for s in fs) and any(s.startswith("(right=") for s in ts):
                acc, ts, fs = ALL - acc, fs, ts
            res.check(acc == frozenset((LT,)) and "(left=mid)" in ts and "(right=(mid-#1))" in fs, rule_search, site(f, "bisection"),
                      "left := mid iff restart[mid] < target, else right := mid-1",
                      "bisection moves left on %s with %s / otherwise %s" % (sorted(acc), ts, fs), f.loc(B.cond))
    sites = compare_sites(prog, cg, f, {"bytes_compare"})
    inits = decl_inits(f)
    dom = CFG.dominators(f)
    short = {}
    for B, call, acc in sites:
        a = [canon(x) for x in call_args(call)]
        cur_vs_target = a[0].startswith("ubuf_data(bi->key") and a[2] == f.params[1]["name"] and a[3] == f.params[2]["name"]
        mirrored = a[2].startswith("ubuf_data(bi->key") and a[0] == f.params[1]["name"]
        if not (cur_vs_target or mirrored):
            res.bad(rule_search, site(f, "cmp-operands"), "in-block search compares %s" % a, f.loc(call))
            continue
        if mirrored:
            acc = APE.mirror(acc)
        acts, how = edge_actions(f, B, 0)
        holder = f.block_of(call)
        in_scan = any(B.id in CFG.reachable_from(f, s) for s in B.succs if s is not None)
        if in_scan:
            # row 11 linear scan: stop iff EQ/GT
            seen.add(11)
            stop = acc if how == "return" else ALL - acc
            res.check(stop == frozenset((EQ, GT)), rule_search, site(f, "linear-scan:stop"),
                      "scan stops at the first key >= target", "scan stops on %s" % sorted(stop), f.loc(B.cond))
        else:
            short[B.id] = (B, acc, acts, how, call)
    # row 10
    if short:
        seen.add(10)
        eq_ret = lt_cont = False
        guard_ok = True
        # cases already decided by a dominating site on the same comparison that returned
        decided = {}
        for bid, (B, acc, acts, how, call) in short.items():
            if how == "return":
                decided[bid] = acc
            elif edge_actions(f, B, 1)[1] == "return":
                decided[bid] = ALL - acc
        for bid, (B, acc, acts, how, call) in list(short.items()):
            for ob, dacc in decided.items():
                if ob != bid and ob in dom.get(bid, ()):
                    acc = acc - dacc
            short[bid] = (B, acc, acts, how, call)
        for bid, (B, acc, acts, how, call) in short.items():
            if bid in decided and decided[bid] == frozenset((EQ,)):
                eq_ret = True
            sts = [canon(x) for x in acts if x["k"] == "BinaryOperator"]
            if acc == frozenset((LT,)) and "(from_start=#0)" in sts:
                lt_cont = True
            elif "(from_start=#0)" in sts and acc != frozenset((LT,)):
                res.bad(rule_shortcut, site(f, "shortcut:continue-from-current"),
                        "search continues from the current entry although it may not be before the target (%s)" % sorted(acc), f.loc(B.cond))
                lt_cont = None
            # guard: dominated by the true edge of start_ri == left
            hb = f.block_of(call)
            g_ok = False
            for G in cond_blocks(f):
                c = canon(G.cond)
                if c in ("(start_ri==left)", "(left==start_ri)") and G.succs[0] is not None:
                    if G.succs[0] in dom.get(hb.id, ()) or G.succs[0] == hb.id:
                        ini = inits.get("start_ri")
                        if ini is not None and canon(ini) == "bi->restart_index":
                            g_ok = True
            guard_ok = guard_ok and g_ok
        res.check(eq_ret, rule_shortcut, site(f, "shortcut:EQ-returns"), "current entry equal to the target: stay", "EQ does not return at once")
        if lt_cont is not None:
            res.check(lt_cont, rule_shortcut, site(f, "shortcut:LT-continues"), "current entry before the target: scan on from it",
                      "the LT case does not continue from the current entry")
        res.check(guard_ok, rule_shortcut, site(f, "shortcut:guard"),
                  "shortcut considered only when the located run equals the run of the current entry (restart index at entry)",
                  "the current-entry shortcut is not guarded by start_ri == left (start_ri = restart index at entry)")
        # from_start decides the restart: seek_to_restart_point(bi, left) iff from_start
        ok_restart = False
        for G in cond_blocks(f):
            if canon(G.cond) == "from_start":
                acts, _ = edge_actions(f, G, 0)
                if any(is_call(x, "seek_to_restart_point") and canon(call_args(x)[1]) == "left" for x in acts):
                    ok_restart = True
        res.check(ok_restart, rule_shortcut, site(f, "restart-of-run"), "otherwise the scan restarts at the located run's restart point",
                  "no restart at restart point `left` when not continuing from the current entry")
    missing = {8, 9, 10, 11} - seen
    if missing:
        raise BrokenAnalysis("block_iter_seek: comparison sites for T-cmp rows %s not recognised" % sorted(missing))
