"""C02 - exact-match, prefix and range lookups return exactly the matching entries.

R1 end-of-result predicate per iterator kind (APE on the switch of reader_iter_next) and
   exhaustiveness of the switch over reader_iter_type.
R2 constructor table: seek key / bound / kind per lookup, by argument identity.
R3 truth table of bytes_compare (memcmp sign x length relation -> result sign), compared
   length = min, operand order; no relational operator on a plain/signed char key byte.
R4 in-block search sites (T-cmp rows 7, 9, 11) - shared helper with C03.R4.
R5 index separator coupling in mtbl_writer_add (separator computed iff a block is cut,
   immediately before the flush, before the last key is replaced).
R6 dispatch wiring (rules/dispatch.py): the mtbl_iter / mtbl_source function tables are registered, called (own closure, own slot, parameters forwarded in order) and filled at every construction site without cross-wiring slots of equal signature.
"""
import re
from .common import *
from . import blockseek

EXPLANATION = ("static decision-table rules: per-kind end-of-result predicate of reader_iter_next, lookup constructor argument "
               "identities, the 9-case truth table of bytes_compare, accept sets of the in-block search comparison sites, "
               "and the separator/flush coupling in the writer; see DESIGN 3 C02")
DESIGN_REF = "DESIGN.md section 3, C02"
U = "mtbl/reader.c"


def _role(v, pkey, plen):
    """What an argument *value* stands for, whoever computes it (the function itself or a helper it was moved into)."""
    t = strip_tags(APE.vstr(v))
    if t == "*" + pkey:
        return "key"
    if t == "*" + plen:
        return "len"
    if re.match(r"^ubuf_data\(\w+->k\)$", t):
        return "bound"
    if re.match(r"^ubuf_(size|bytes)\(\w+->k\)$", t):
        return "boundlen"
    return None


def key_vs_bound(ev, nxt):
    """+1 for bytes_compare(*key,*len_key, data(it->k), size(it->k)), -1 mirrored, 0 otherwise; decided on the values."""
    if len(ev.b) != 4:
        return 0
    pkey, plen = nxt.params[1]["name"], nxt.params[2]["name"]
    r = [_role(v, pkey, plen) for v in ev.b]
    if r == ["key", "len", "bound", "boundlen"]:
        return 1
    if r == ["bound", "boundlen", "key", "len"]:
        return -1
    return 0


def _kind_of_path(p, kinds):
    """The iterator kind a path of next() is specialised to - by a switch label or by a chain of comparisons of it_type with
    the enumeration's constants; "default" when the path excludes every constant it tested; None when it_type is untested."""
    byval = {"#%d" % v: k for k, v in kinds.items()}
    tag = None
    tested = False
    for (a, b), v in p.cons.items():
        if not re.search(r"(->|\.)it_type(@\d+)?$", a):
            continue
        if b == "switch":
            return list(v)[0]
        if b in byval:
            tested = True
            if v == frozenset((EQ,)):
                tag = byval[b]
    if tag is None and tested:
        return "default"
    return tag


def run(ctx, res):
    prog, cg = ctx.prog, ctx.cg
    mres = prog.enums["mtbl_res"]
    OKV, FAILV = mres["mtbl_res_success"], mres["mtbl_res_failure"]
    kinds = prog.enums.get("reader_iter_type")
    if not kinds:
        raise BrokenAnalysis("enum reader_iter_type not found")
    nxt = prog.need("reader_iter_next", U)
    res.saw(nxt)
    res.floor("C02.R1", 8)
    ev = APE.run(prog, cg, nxt, bound=APE.BOUND)
    seen_kinds = set()
    for p in ev.paths:
        tag = _kind_of_path(p, kinds)
        if tag is None:
            continue
        if p.end == "noreturn":
            res.check(tag == "default", "C02.R1", site(nxt, "switch:%s" % tag), "unknown kind stops the process", "kind %s aborts" % tag)
            continue
        if p.end != "exit":
            continue
        seen_kinds.add(tag)
        r = p.ret()
        success = r == ("c", OKV)
        evs = [e for e in p.events if e.kind == "call"]
        # comparison made inside the case (the last compare/memcmp events of the path)
        cmpc = None
        for e in evs:
            if e.a == "bytes_compare":
                o = key_vs_bound(e, nxt)
                if o:
                    c = p.cons.get((APE.vstr(e.c), "#0"))
                    if c is not None:
                        cmpc = c if o > 0 else APE.mirror(c)
        sig = site(nxt, "kind:%s:%s" % (tag, "".join(sorted(cmpc)) if cmpc else "-"))
        if tag == "READER_ITER_TYPE_ITER":
            res.check(success and cmpc is None, "C02.R1", sig, "full iteration never ends early", "ITER kind returns %s" % APE.vstr(r), None, p.describe(nxt))
        elif tag == "READER_ITER_TYPE_GET":
            if cmpc is None:
                res.bad("C02.R1", sig, "GET: the entry is not compared with the looked-up key", nxt.loc(nxt.body), p.describe(nxt))
            elif success:
                res.check(cmpc == frozenset((EQ,)), "C02.R1", sig, "GET returns an entry only when key == bound",
                          "GET returns an entry whose key may compare %s with the looked-up key" % sorted(cmpc - {EQ}), None, p.describe(nxt))
            else:
                res.check(EQ not in cmpc, "C02.R1", sig, "GET ends only when key != bound", "GET rejects the matching key", None, p.describe(nxt))
        elif tag == "READER_ITER_TYPE_GET_RANGE":
            if cmpc is None:
                res.bad("C02.R1", sig, "RANGE: the entry is not compared with the upper bound", nxt.loc(nxt.body), p.describe(nxt))
            elif success:
                res.check(cmpc <= frozenset((LT, EQ)), "C02.R1", sig, "RANGE returns entries with key <= key1",
                          "RANGE returns an entry beyond the upper bound", None, p.describe(nxt))
            else:
                res.check(cmpc == frozenset((GT,)), "C02.R1", sig, "RANGE ends only when key > key1",
                          "RANGE ends although the key may be %s the upper bound" % sorted(cmpc - {GT}), None, p.describe(nxt))
        elif tag == "READER_ITER_TYPE_GET_PREFIX":
            lenrel = None
            mem = None
            pkey, plen = nxt.params[1]["name"], nxt.params[2]["name"]
            for (a, b), v in p.cons.items():
                ra, rb = _role(("s", a), pkey, plen), _role(("s", b), pkey, plen)
                if ra == "boundlen" and rb == "len":
                    lenrel = v
                elif rb == "boundlen" and ra == "len":
                    lenrel = APE.mirror(v)
            for e in evs:
                if e.a in ("memcmp", "bcmp") and len(e.b) == 3:
                    rr = [_role(x, pkey, plen) for x in e.b]
                    good_args = sorted(str(x) for x in rr[:2]) == ["bound", "key"] and rr[2] == "boundlen"
                    mem = (p.cons.get((APE.vstr(e.c), "#0")), good_args, [strip_tags(APE.vstr(x)) for x in e.b])
            sig = site(nxt, "kind:%s:len%s:mem%s" % (tag, "".join(sorted(lenrel)) if lenrel else "-", "".join(sorted(mem[0])) if mem and mem[0] else "-"))
            if mem is not None and not mem[1]:
                res.bad("C02.R1", sig, "PREFIX compares %s, expected (bound bytes, key bytes, bound length)" % mem[2], nxt.loc(nxt.body))
            if success:
                good = lenrel is not None and lenrel <= frozenset((LT, EQ)) and mem is not None and mem[0] == frozenset((EQ,))
                res.check(good, "C02.R1", sig, "PREFIX returns an entry only when len(bound) <= len(key) and the first len(bound) bytes are equal",
                          "PREFIX returns an entry without establishing both the length test and byte equality (len %s, bytes %s)" %
                          (sorted(lenrel) if lenrel else None, sorted(mem[0]) if mem and mem[0] else None), None, p.describe(nxt))
            else:
                short = lenrel is not None and lenrel == frozenset((GT,))
                differ = mem is not None and mem[0] is not None and EQ not in mem[0]
                res.check(short or differ, "C02.R1", sig, "PREFIX ends only when the key is shorter than the bound or its first bytes differ",
                          "PREFIX rejects a key that may carry the prefix", None, p.describe(nxt))
    missing = set(kinds) - seen_kinds
    res.check(not missing, "C02.R1", site(nxt, "switch:exhaustive"), "every reader_iter_type constant has a case",
              "no case for %s" % sorted(missing), nxt.loc(nxt.body))

    # ---- R2 constructors ---------------------------------------------------------------
    # Decided at the entry points the reader installs in its source (slots of mtbl_source_init), on their paths with the
    # unit's internal functions evaluated as part of them - wherever the common work lives (a shared initialiser, a wrapping
    # helper, the entry point itself): the index iterator and then the block iterator are positioned at the lookup key, the
    # bound and the kind are stored, the iterator gets the reader's three callbacks and starts valid and first; NULL is
    # returned only when no block could be loaded.
    res.floor("C02.R2", 8)
    slots = {}
    for i, kind in ((0, "READER_ITER_TYPE_ITER"), (1, "READER_ITER_TYPE_GET"), (2, "READER_ITER_TYPE_GET_PREFIX"), (3, "READER_ITER_TYPE_GET_RANGE")):
        cands = [n_ for n_ in cg.param_funcs.get(("mtbl_source_init", i), ()) if prog.func(n_, U) is not None and prog.func(n_, U).file.endswith("reader.c")]
        if len(cands) != 1:
            raise BrokenAnalysis("reader source slot %d: expected one reader function, found %s" % (i, sorted(cands)))
        slots[kind] = prog.func(cands[0], U)
    cbs = cg.param_funcs
    for kind, f in slots.items():
        res.saw(f)
        pn = [q["name"] for q in f.params]
        if kind == "READER_ITER_TYPE_ITER":
            seekp, boundp = None, None
        elif kind == "READER_ITER_TYPE_GET_RANGE":
            seekp, boundp = (pn[1], pn[2]), (pn[3], pn[4])
        else:
            seekp, boundp = (pn[1], pn[2]), (pn[1], pn[2])
        evc = APE.run(prog, cg, f, bound=APE.BOUND, inline=("*static",))
        nok = 0
        for p in evc.paths:
            if p.end != "exit":
                continue
            stores = [e for e in p.events if e.kind == "store"]
            calls = [e for e in p.events if e.kind == "call"]

            def holder(v):
                """Field (of the iterator under construction) a value was read from or stored into on this path."""
                t = strip_tags(APE.vstr(v))
                m_ = re.search(r"->(\w+)$", t)
                if m_:
                    return m_.group(1)
                for e_ in stores:
                    if e_.b == v and "->" in e_.a:
                        return re.sub(r"@\d+", "", e_.a).rsplit("->", 1)[-1]
                return None
            if p.ret() == ("c", 0):
                blk = []
                for e_ in stores:
                    if re.sub(r"@\d+", "", e_.a).endswith("->b"):
                        c_ = p.cons.get((APE.vstr(e_.b), "#0"))
                        if e_.b[0] == "c":
                            c_ = frozenset((EQ,)) if e_.b[1] == 0 else frozenset((GT,))
                        if c_ is not None:
                            blk.append(c_)
                # no block was stored into the iterator at all (the index named none), or the last one stored is NULL
                anyb = [e_ for e_ in stores if re.sub(r"@\d+", "", e_.a).endswith("->b")]
                res.check((not anyb) or (bool(blk) and blk[-1] == frozenset((EQ,))), "C02.R2", site(f, "null-only-without-block"),
                          "the constructor returns NULL only when no block could be loaded",
                          "%s returns NULL although a block was loaded: a range/prefix lookup starting just behind a block's last key must continue in the next block"
                          % f.name, f.loc(f.body), p.describe(f))
                continue
            nok += 1
            last = {}
            for e_ in stores:
                if "->" in e_.a:
                    last[re.sub(r"@\d+", "", e_.a).rsplit("->", 1)[-1]] = e_.b
            res.check(last.get("valid") == ("c", 1) and last.get("first") == ("c", 1), "C02.R2", site(f, "starts-valid-and-first"),
                      "a new iterator starts with first = true and valid = true (next itself walks on when the seek ran off its block)",
                      "a new iterator starts with valid := %s, first := %s: a lookup that lands just behind a block's last key ends at once instead of continuing "
                      "in the next block" % (APE.vstr(last["valid"]) if "valid" in last else None, APE.vstr(last["first"]) if "first" in last else None),
                      f.loc(f.body), p.describe(f))
            mi = [e for e in calls if e.a == "mtbl_iter_init"]
            cbv = [strip_tags(APE.vstr(x)).lstrip("&") for x in mi[0].b[:3]] if len(mi) == 1 else None
            res.check(cbv == ["reader_iter_seek", "reader_iter_next", "reader_iter_free"] and p.ret() == mi[0].c, "C02.R2", site(f, "callbacks"),
                      "the iterator returned uses reader_iter_seek/next/free", "callbacks are %s" % cbv, f.loc(f.body), p.describe(f))
            kv = last.get("it_type")
            res.check(kv == ("c", kinds[kind]) or (kv is None and kinds[kind] == 0 and any(e.a in ("my_calloc", "calloc") for e in calls)),
                      "C02.R2", site(f, "kind"), "kind := %s" % kind,
                      "%s sets kind %s" % (f.name, APE.vstr(kv) if kv else None), f.loc(f.body), p.describe(f))
            if seekp is None:
                continue
            sk = [(holder(e.b[0]), tuple(e.b[1:3])) for e in calls if e.a == "block_iter_seek" and len(e.b) >= 3]
            want = [("index_iter", (("s", seekp[0]), ("s", seekp[1]))), ("bi", (("s", seekp[0]), ("s", seekp[1])))]
            res.check(sk == want, "C02.R2", site(f, "seek-key"), "index seek then in-block seek, both at parameters %s" % (seekp,),
                      "%s positions at %s" % (f.name, [(h, [APE.vstr(x) for x in a_]) for h, a_ in sk]), f.loc(f.body), p.describe(f))
            app = [e for e in calls if e.a == "ubuf_append" and len(e.b) == 3 and holder(e.b[0]) == "k"]
            ok2 = len(app) == 1 and tuple(app[0].b[1:3]) == (("s", boundp[0]), ("s", boundp[1]))
            res.check(ok2, "C02.R2", site(f, "bound"), "bound := parameters %s" % (boundp,),
                      "%s stores %s as its bound" % (f.name, [APE.vstr(x) for x in app[0].b[1:3]] if app else None), f.loc(f.body), p.describe(f))
        if nok == 0:
            res.bad("C02.R2", site(f, "constructs"), "%s has no path that returns an iterator" % f.name, f.loc(f.body))

    # ---- R3 bytes_compare ----------------------------------------------------------------
    # Decided by interpretation (allocation-aware interpreter, memcmp on known bytes): for every pair of byte strings of
    # length 0..2 (3 thorough) over {00, 7f, 80, ff} the sign of bytes_compare(a, b) is the sign of the unsigned
    # lexicographic comparison with the shorter string first on a common prefix - whatever the function looks like.
    res.floor("C02.R3", 5)
    bc = prog.need("bytes_compare", "mtbl/reader.c")
    res.saw(bc)
    from mtblcheck import bits as _B
    from mtblcheck import memmodel as _M
    import itertools
    alpha = [0x00, 0x7f, 0x80, 0xff]
    maxlen = 3 if ctx.tier == "thorough" else 2
    strs = [bytes(t) for n_ in range(maxlen + 1) for t in itertools.product(alpha, repeat=n_)]
    classes = {"lt": [], "eq": [], "gt": [], "prefix-lt": [], "prefix-gt": []}
    npairs = 0
    try:
        for x in strs:
            for y in strs:
                I = _M.MemInterp(prog, "mtbl/reader.c")
                st = I.new_state()
                h = st.ext["heap"]
                ptrs = []
                for data in (x, y):
                    k0 = h.next
                    h.allocs[k0] = [len(data), True, False]       # exactly the string: reading past its end is a fault
                    h.next = k0 + 1
                    for i, c in enumerate(data):
                        st.mem[(("A", k0), i)] = tuple((c >> j) & 1 for j in range(8))
                    ptrs.append(_B.Ptr(("A", k0), 0))
                outs = I.call(st, bc, [ptrs[0], len(x), ptrs[1], len(y)])
                npairs += 1
                want = (x > y) - (x < y)
                kind = "eq" if x == y else ("prefix-lt" if y.startswith(x) else "prefix-gt" if x.startswith(y) else "lt" if x < y else "gt")
                for s2, r in outs:
                    r = s2.nbits(r) if isinstance(r, _B.BV) else None
                    got = None
                    if r is not None and r.is_const():
                        v = r.value()
                        if v >= 1 << (r.width - 1):
                            v -= 1 << r.width
                        got = (v > 0) - (v < 0)
                    if got != want:
                        classes[kind].append("bytes_compare(%s, %s) has sign %s, expected %d" % (x.hex() or "''", y.hex() or "''", got, want))
    except _M.MemFault as e:
        classes["eq"].append(str(e))
    for kind, what in (("lt", "first differing byte smaller (as unsigned)"), ("gt", "first differing byte larger (as unsigned)"), ("eq", "equal strings"),
                       ("prefix-lt", "proper prefix sorts first"), ("prefix-gt", "extension sorts after its prefix")):
        res.check(not classes[kind], "C02.R3", site(bc, kind), "%s: sign as in the unsigned lexicographic order (%d pairs interpreted)" % (what, npairs),
                  "; ".join(classes[kind][:2]), bc.loc(bc.body))
    # signed char rule
    n_rel = 0
    offenders = _signed_char_relations(prog.lib_funcs())
    for f, n in offenders:
        res.bad("C02.R3", site(f, "signed-char-relational"), "relational operator on a plain/signed char byte: bytes >= 0x80 order wrongly", f.loc(n))
    if not offenders:
        res.ok("C02.R3", "library:signed-char-relational", "no relational operator has a plain/signed char operand taken from memory")
    # positive example: the matcher must fire on the kept example
    pos = ctx.pos_example("c02_signed_char.c")
    if not _signed_char_relations(pos):
        raise BrokenAnalysis("signed-char matcher does not fire on its positive example")

    # ---- R4 -------------------------------------------------------------------------------
    blockseek.check(ctx, res, "C02.R4", "C02.R4g")
    res.floor("C02.R4", 3)

    # ---- R5 separator coupling ---------------------------------------------------------------
    res.floor("C02.R5", 2)
    add = prog.need("mtbl_writer_add", "mtbl/writer.c")
    res.saw(add)
    eva = APE.run(prog, cg, add, bound=APE.BOUND)
    for p in eva.paths:
        if p.end != "exit" or p.ret() != ("c", OKV):
            continue
        evs = [e for e in p.events if e.kind == "call"]
        names = [e.a for e in evs]
        sep = [i for i, n in enumerate(names) if n == "bytes_shortest_separator"]
        fl = [i for i, n in enumerate(names) if n == "_mtbl_writer_flush"]
        # operands by value (the vector may be named through a local copy of the pointer)
        is_lk = lambda v: strip_tags(APE.vstr(v)).endswith("->last_key")
        rs = [i for i, e in enumerate(evs) if e.a in ("ubuf_reset", "ubuf_clip") and e.b and is_lk(e.b[0])]
        good = (len(sep) == len(fl)) and all(f_ == s_ + 1 for s_, f_ in zip(sep, fl)) and (not fl or (rs and fl[-1] < rs[0]))
        if sep:
            a = evs[sep[0]].b
            good = good and len(a) == 3 and is_lk(a[0]) and a[1] == ("s", add.params[1]["name"]) and a[2] == ("s", add.params[2]["name"])
        res.check(good, "C02.R5", site(add, "separator<->flush[%s]" % ("cut" if fl else "no-cut")),
                  "separator(last_key, key) computed iff a block is cut, immediately before the flush and before last_key is replaced",
                  "separator/flush coupling broken: calls %s" % [n for n in names if n in ("bytes_shortest_separator", "_mtbl_writer_flush", "ubuf_reset", "ubuf_append")],
                  add.loc(add.body), p.describe(add))


    # ---- dispatch wiring --------------------------------------------------------------------------
    from . import dispatch
    dispatch.check(ctx, res, "C02.R6")

    # ---- properties this one rests on (re-run here, labelled <this>.D.<rule>) ------------------
    depends(ctx, res, 'C09', ('C09.R6',), "lookups are routed by the index keys the separator function produces: a separator below its block's last key hides that key")

def _signed_char_relations(funcs):
    out = []
    for f in funcs:
        for n in walk(f.body):
            if n["k"] == "BinaryOperator" and n.get("op") in ("<", "<=", ">", ">="):
                for k in n["kids"]:
                    s = strip(k)
                    t = s.get("ct", s.get("t", "")).replace("const ", "").strip()
                    if t in ("char", "signed char") and s["k"] in ("ArraySubscriptExpr", "UnaryOperator", "MemberExpr"):
                        out.append((f, n))
                        break
    return out
