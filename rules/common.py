"""Helpers shared by the rule modules."""
from mtblcheck.facts import (same_node, walk, strip, kids, canon, base_decl, is_call, call_args, const_val,
                             member_chain, BrokenAnalysis, eval_nodes)
from mtblcheck import cfg as CFG
from mtblcheck import ape as APE
from mtblcheck import modref as MR

LT, EQ, GT = APE.LT, APE.EQ, APE.GT
ALL = APE.ALL


def site(f, what):
    return "%s:%s" % (f.name, what)


def lib_calls(prog, names):
    """(func, call node) for every direct call to one of `names` in library code."""
    names = set([names] if isinstance(names, str) else names)
    out = []
    for f in prog.lib_funcs():
        for n in walk(f.body):
            if n["k"] == "CallExpr" and n.get("callee") in names:
                out.append((f, n))
    return out


def all_calls(prog, names, units=None):
    names = set([names] if isinstance(names, str) else names)
    out = []
    seen = set()
    for (u, nm), f in prog.funcs.items():
        if units is not None and u not in units:
            continue
        key = (f.file, f.line, f.name)
        if key in seen:
            continue
        seen.add(key)
        for n in walk(f.body):
            if n["k"] == "CallExpr" and n.get("callee") in names:
                out.append((f, n))
    return out


def stores_in(f):
    """(store node, lhs) for every store in a function (assignments, ++/--)."""
    out = []
    for n in walk(f.body):
        if MR.is_store(n):
            out.append((n, strip(n["kids"][0])))
    return out


def field_stores(f, rec=None, field=None):
    out = []
    for n, lhs in stores_in(f):
        if lhs["k"] == "MemberExpr" and (rec is None or lhs.get("rec") == rec) and (field is None or lhs["field"] == field):
            out.append((n, lhs))
    return out


def cond_blocks(f):
    return [B for B in f.blocks.values() if B.cond is not None and len(B.succs) == 2]


def compare_sites(prog, cg, f, callee_names):
    """Branch blocks of f whose condition tests the sign of a call to one of callee_names
    (directly or through a local that holds the result).  Returns list of
    (block, call node, accept-set on the true edge)."""
    ev = APE.APE(prog, cg, f)
    out = []
    # locals holding a compare result
    holder = {}
    for n in walk(f.body):
        if n["k"] == "DeclStmt":
            for d in n["decls"]:
                if d.get("init") is not None and is_call(d["init"], callee_names):
                    holder[d["name"]] = strip(d["init"])
        elif n["k"] == "BinaryOperator" and n.get("op") == "=":
            l = strip(n["kids"][0])
            if l["k"] == "DeclRefExpr" and is_call(n["kids"][1], callee_names):
                holder[l["name"]] = strip(n["kids"][1])
    for B in cond_blocks(f):
        c = strip(B.cond)
        neg = False
        while c["k"] == "UnaryOperator" and c.get("op") == "!":
            neg = not neg
            c = strip(c["kids"][0])
        if c["k"] == "BinaryOperator" and c.get("op") in APE.OPSETS:
            l, r = strip(c["kids"][0]), strip(c["kids"][1])
            acc = APE.OPSETS[c["op"]]
            call = None
            if is_call(l, callee_names) and const_val(r) == 0:
                call = l
            elif is_call(r, callee_names) and const_val(l) == 0:
                call = r
                acc = APE.mirror(acc)
            elif l["k"] == "DeclRefExpr" and l["name"] in holder and const_val(r) == 0:
                call = holder[l["name"]]
            elif r["k"] == "DeclRefExpr" and r["name"] in holder and const_val(l) == 0:
                call = holder[r["name"]]
                acc = APE.mirror(acc)
            elif (is_call(l, callee_names) or is_call(r, callee_names) or
                  (l["k"] == "DeclRefExpr" and l["name"] in holder) or (r["k"] == "DeclRefExpr" and r["name"] in holder)):
                # compared with a non-zero constant: translate x < 1 etc.
                k = const_val(r) if const_val(r) is not None else const_val(l)
                cl = l if const_val(r) is not None else r
                if const_val(r) is None:
                    acc = APE.mirror(acc)
                call = cl if is_call(cl, callee_names) else holder.get(cl.get("name"))
                acc = shift_acc(acc, k)
            if call is not None:
                if neg:
                    acc = ALL - acc
                out.append((B, call, acc))
        elif is_call(c, callee_names) or (c["k"] == "DeclRefExpr" and c["name"] in holder):
            call = c if is_call(c, callee_names) else holder[c["name"]]
            acc = frozenset((LT, GT))
            if neg:
                acc = ALL - acc
            out.append((B, call, acc))
    return out


def shift_acc(acc, k):
    """Accept set of `x op k` expressed on sign(x) for k in {-1, 0, 1}; None if not expressible."""
    if k == 0:
        return acc
    s = set()
    # x ranges over representative integers; sign classes must be uniform for the translation to be exact
    for sign, reps in ((LT, (-2, -1)), (EQ, (0,)), (GT, (1, 2))):
        vals = []
        for x in reps:
            rel = LT if x < k else (EQ if x == k else GT)
            vals.append(rel in acc)
        if all(vals):
            s.add(sign)
        elif any(vals):
            raise BrokenAnalysis("comparison of a three-way result with %d does not respect sign classes" % k)
    return frozenset(s)


def arg_role(f, a):
    """Describe an argument by resolved identity: ('param', i) / ('field', chain) / ('const', v) / ('expr', canon)"""
    s = strip(a)
    v = const_val(a)
    if v is not None and s["k"] != "DeclRefExpr":
        return ("const", v)
    if s["k"] == "DeclRefExpr" and s.get("dk") == "param":
        return ("param", s["idx"])
    if s["k"] == "MemberExpr":
        return ("field", tuple(member_chain(s)), base_decl(s))
    return ("expr", canon(s))


def dominated_by_call(f, node, callee_names, dom=None, idx=None):
    """True if every path from entry to `node` passes a call to one of callee_names."""
    dom = dom or CFG.dominators(f)
    idx = idx or CFG.block_index(f)
    here = idx.get(node["id"])
    if here is None:
        return False
    hb, hp = here
    for c in f.calls(callee_names):
        w = idx.get(c["id"])
        if w is None:
            continue
        cb, cp = w
        if cb == hb and cp < hp:
            return True
        if cb != hb and cb in dom.get(hb, ()):
            return True
    return False


def edge_actions(f, B, i, limit=6):
    """Root statements executed on edge i of branch block B before control merges or
    branches again, and how the chain ends: ('return'|'break'|'continue'|'branch'|'merge'|'noreturn')."""
    out = []
    cur = B.succs[i]
    steps = 0
    while cur is not None and steps < limit:
        X = f.blocks[cur]
        steps += 1
        if steps > 1 and len(X.preds) > 1:
            return out, "merge"
        if steps == 1 and len(X.preds) > 1:
            # the edge goes straight to a join (e.g. loop exit / after-if)
            return out, "merge"
        out += X.roots
        if X.noreturn:
            return out, "noreturn"
        if any(r["k"] == "ReturnStmt" for r in X.roots):
            return out, "return"
        if X.termk in ("BreakStmt", "ContinueStmt"):
            return out, "break" if X.termk == "BreakStmt" else "continue"
        if X.cond is not None and len(X.succs) == 2:
            return out, "branch"
        nx = [s for s in X.succs if s is not None]
        if len(nx) != 1:
            return out, "end"
        cur = nx[0]
    return out, "end"


def in_loop_cond(f, B):
    """True if branch block B is the condition of a loop (one successor leads back to B)."""
    for i, s in enumerate(B.succs):
        if s is not None and B.id in CFG.reachable_from(f, s):
            return i
    return None


def decl_inits(f):
    d = {}
    for n in walk(f.body):
        if n["k"] == "DeclStmt":
            for x in n["decls"]:
                if x.get("init") is not None:
                    d[x["name"]] = x["init"]
    return d


def depends(ctx, res, other, rules=None, why=""):
    """Re-run the rules of property `other` (all, or those listed) as part of this property, because this property's
    behaviour rests on them.  Imported obligations are labelled <this>.D.<other rule>; a violation of the other
    property is a violation of this one too."""
    import importlib
    from mtblcheck import report
    mod = importlib.import_module("rules." + other.lower())
    cache = getattr(ctx, "_dep_cache", None)
    if cache is None:
        cache = ctx._dep_cache = {}
    if other not in cache:
        sub = report.Result(other, ctx.tier)
        mod.run(ctx, sub)
        cache[other] = sub
    sub = cache[other]
    n = 0
    for rule, site_, ok, how in sub.obs:
        if rules is not None and rule not in rules:
            continue
        if ok:
            res.ok("%s.D.%s" % (res.prop, rule), site_, how)
            n += 1
    for v in sub.viol:
        if rules is not None and v["rule"] not in rules:
            continue
        res.bad("%s.D.%s" % (res.prop, v["rule"]), v["site"], v["what"] + ((" [%s]" % why) if why else ""), v.get("loc"), v.get("detail"))
        n += 1
    if n == 0:
        raise BrokenAnalysis("dependency %s%s contributed no obligation to %s" % (other, " " + str(sorted(rules)) if rules else "", res.prop))
    for f in sub.analysed["functions"]:
        res.analysed["functions"].add(f)
    for u in sub.analysed["units"]:
        res.analysed["units"].add(u)
    res.tables.setdefault("depends_on", []).append({"property": other, "rules": sorted(rules) if rules else "all", "why": why, "obligations": n})
    return n


# ---------------------------------------------------------------------------------------------------------
# linear normal form of the evaluator's value strings: "((a+b)+#15)" and "(#15+(b+a))" are the same sum
import re as _re2


def strip_tags(s):
    """Drop epoch / fresh-symbol tags (@N, )#N) that distinguish reads of the same place at different times."""
    s = _re2.sub(r"@L?\d+", "", s)
    s = _re2.sub(r"\)#\d+", ")", s)
    return s


def _top_split(inner):
    """Position and operator of the single depth-0 binary + or - of a fully parenthesised "L op R", else None."""
    depth = 0
    pos = None
    i = 0
    while i < len(inner):
        ch = inner[i]
        if ch in "([":
            depth += 1
        elif ch in ")]":
            depth -= 1
        elif depth == 0 and ch in "+-" and i > 0:
            if ch == "-" and inner[i + 1:i + 2] == ">":
                i += 2
                continue
            prev = inner[i - 1]
            if prev in "+-*/%<>=&|^!(,":
                i += 1
                continue      # unary sign
            pos = (i, ch)
        elif depth == 0 and ch in "*/%<>=&|^?:," and not (ch == ">" and inner[i - 1:i] == "-"):
            return None       # another operator at the top: not a plain sum
        i += 1
    return pos


def linsum(s, tags=False):
    """(terms, constant): multiset of additive terms (str -> coefficient) and integer constant of a value string."""
    if not tags:
        s = strip_tags(s)
    terms = {}
    const = [0]

    def add(t, sign):
        t = t.strip()
        while t.startswith("(") and t.endswith(")") and _balanced_all(t):
            inner = t[1:-1]
            sp = _top_split(inner)
            if sp is None:
                # maybe redundant parentheses around an atom
                if _balanced_str(inner) and not any(c in inner for c in "+*/%<>=|^?") and "-" not in inner.replace("->", ""):
                    t = inner.strip()
                    continue
                break
            i, op = sp
            add(inner[:i], sign)
            add(inner[i + 1:], sign if op == "+" else -sign)
            return
        m = _re2.match(r"^#(-?\d+)$", t)
        if m:
            const[0] += sign * int(m.group(1))
            return
        m = _re2.match(r"^\(?(.+)\*#(\d+)\)?$", t)
        if m and _balanced_str(m.group(1)) and t.startswith("(") == t.endswith(")"):
            sub, c = linsum(m.group(1), tags=True)
            for k, v in sub.items():
                terms[k] = terms.get(k, 0) + sign * v * int(m.group(2))
            const[0] += sign * c * int(m.group(2))
            return
        if t.startswith("&") and t.endswith("]"):
            # address of an array element: &A[I] is A + I (byte-sized elements: the only pointer arithmetic compared this way)
            depth = 0
            for i in range(len(t) - 1, -1, -1):
                if t[i] == "]":
                    depth += 1
                elif t[i] == "[":
                    depth -= 1
                    if depth == 0:
                        add(t[1:i], sign)
                        add(t[i + 1:-1], sign)
                        return
        if t:
            terms[t] = terms.get(t, 0) + sign
    add(s, 1)
    return {k: v for k, v in terms.items() if v != 0}, const[0]


def _balanced_str(t):
    d = 0
    for ch in t:
        if ch in "([":
            d += 1
        elif ch in ")]":
            d -= 1
            if d < 0:
                return False
    return d == 0


def _balanced_all(t):
    """True when the first '(' of t matches its last ')'."""
    d = 0
    for i, ch in enumerate(t):
        if ch == "(":
            d += 1
        elif ch == ")":
            d -= 1
            if d == 0 and i != len(t) - 1:
                return False
    return d == 0


def lindiff(a, b):
    """Normal form of a - b."""
    ta, ca = linsum(a)
    tb, cb = linsum(b)
    out = dict(ta)
    for k, v in tb.items():
        out[k] = out.get(k, 0) - v
    return {k: v for k, v in out.items() if v != 0}, ca - cb


def held_in(evs, upto, v, field):
    """Is value v what field `->field` / `.field` of some object holds when event number `upto` happens on this path: a
    read of that field, or the value the last store to it (before `upto`) put there?"""
    t = strip_tags(APE.vstr(v))
    if t.endswith("->" + field) or t.endswith("." + field):
        return True
    last = None
    for x in evs[:upto]:
        if x.kind == "store":
            a = strip_tags(x.a)
            if a.endswith("->" + field) or a.endswith("." + field):
                last = x.b
    return last is not None and last == v


def heirs(ctx, name, unit, _seen=None):
    """The functions that stand for `name` on the current tree: itself while it exists; otherwise, transitively, the
    functions that called it on the pinned tree (spec/t_callers.json) - its body was inlined into them, or moved to a
    helper that is analysed as part of them."""
    prog = ctx.prog
    if prog.func(name, unit) is not None and not prog.func(name, unit).helper:
        return {name}
    _seen = _seen or set()
    if name in _seen:
        return set()
    _seen.add(name)
    out = set()
    for c in ctx.spec("t_callers")["callers"].get("%s:%s" % (unit, name), []):
        out |= heirs(ctx, c, unit, _seen)
    return out
