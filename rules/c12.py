"""C12 - checksums: intact files verify, damaged blocks are never accepted.

R1 verify-before-decode: block_init (the only constructor of a decodable block) has exactly
   the two known callers; on every path of those where verify_checksums is set a comparison of
   the stored CRC with mtbl_crc32c(P, N), whose failing edge is NORETURN, precedes
   decompression and block_init, and (P, N) are the bytes later decoded.
R2 writer side = C09.R2 (re-run here).
R3 mtbl_verify: the loop covers every data block, compares stored and computed CRC over the
   framed payload, mismatch and overrun reach a false return, OK is printed only on true, and
   the reader is first opened with verify_checksums = true (index block).
G1 asserts are live: the build does not define NDEBUG (assert edges are NORETURN calls).
D  rests on: C17 (an intact file verifies only if writer and verifier compute the same standard CRC-32C, whichever implementation each of them runs) - re-run here as <id>.D.<rule>.
"""
import re
from .common import *
from . import c09

EXPLANATION = ("static must-pass-through and who-may-call rules: every path that reaches block decoding with verification enabled "
               "passes a CRC comparison whose failing edge is NORETURN over exactly the bytes decoded; mtbl_verify's loop shape and "
               "failure propagation; liveness of assert in the compiled configuration; CRC-32C's detection strength is mathematics "
               "and is not decided here; see DESIGN 3 C12")
DESIGN_REF = "DESIGN.md section 3, C12"
R = "mtbl/reader.c"


def run(ctx, res):
    prog, cg = ctx.prog, ctx.cg
    # ---- G1 ------------------------------------------------------------------------
    res.floor("C12.G1", 2)
    nd = [f for f in prog.flags if f in ("-DNDEBUG", "-DNDEBUG=1") or f.startswith("-DNDEBUG")]
    res.check(not nd, "C12.G1", "build:flags", "NDEBUG is not defined on the command line", "the build defines NDEBUG: every assert-based check (checksums, write errors) compiles to nothing")
    nfail = 0
    nassert_macro = 0
    for f in prog.lib_funcs():
        for n in walk(f.body):
            if n["k"] == "CallExpr" and n.get("callee") == "__assert_fail":
                nfail += 1
    res.check(nfail >= 60, "C12.G1", "library:assert-edges", "%d live assert failure edges (NORETURN) in the library" % nfail,
              "only %d assert failure edges are compiled in (60+ confirmed by hand): asserts are disabled in this configuration" % nfail)

    # ---- R1 ---------------------------------------------------------------------------
    res.floor("C12.R1", 6)
    callers = sorted(set(f.name for f, c in lib_calls(prog, "block_init")))
    res.check(callers == ["get_block", "mtbl_reader_init_fd"], "C12.R1", "block_init:callers", "decodable blocks are constructed only by get_block and mtbl_reader_init_fd",
              "block_init is also called from %s: blocks can reach decoding without the checksum gate" % [c for c in callers if c not in ("get_block", "mtbl_reader_init_fd")])
    gb_callers = sorted(set(f.name for f, c in lib_calls(prog, "get_block")))
    res.check(set(gb_callers) <= {"reader_iter_seek", "get_block_at_index"}, "C12.R1", "get_block:callers",
              "iterators reach block bytes only through get_block", "get_block is called from %s" % gb_callers)
    # no other reader-side consumer of mapped data: mtbl_decompress only in get_block
    dc = sorted(set(f.name for f, c in lib_calls(prog, "mtbl_decompress")))
    res.check(dc == ["get_block"], "C12.R1", "mtbl_decompress:callers", "stored bytes are decompressed only in get_block", "mtbl_decompress is called from %s" % dc)
    for fn in ("get_block", "mtbl_reader_init_fd"):
        f = prog.need(fn, R)
        res.saw(f)
        ev = APE.run(prog, cg, f, bound=APE.BOUND)
        n_on = 0
        for p in ev.paths:
            evs = list(p.events)
            bi = [i for i, e in enumerate(evs) if e.kind == "call" and e.a == "block_init"]
            if not bi:
                continue
            vc = None
            for (a, b), v in p.cons.items():
                if re.search(r"->opt\.verify_checksums@", a) and b == "#0":
                    vc = EQ not in v
            first_use = min([i for i, e in enumerate(evs) if e.kind == "call" and e.a in ("block_init", "mtbl_decompress")])
            use = evs[first_use]
            ai = 1 if use.a == "mtbl_decompress" else 0
            P, N = use.b[ai], use.b[ai + 1]
            if vc is None:
                res.bad("C12.R1", site(f, "verify-option-ignored"), "block decoding does not depend on verify_checksums at all", f.loc(use.node), p.describe(f))
                continue
            if not vc:
                continue
            n_on += 1
            crc = [(i, e) for i, e in enumerate(evs[:first_use]) if e.kind == "call" and e.a == "mtbl_crc32c"]
            stored = [(i, e) for i, e in enumerate(evs[:first_use]) if e.kind == "call" and e.a == "mtbl_fixed_decode32"]
            okcmp = False
            same = False
            for ci, ce in crc:
                same = same or (ce.b[0] == P and ce.b[1] == N)
                for si, se in stored:
                    for e in evs[:first_use]:
                        if e.kind == "branch" and isinstance(e.a, tuple) and e.b == frozenset((EQ,)):
                            if set(e.a) == {APE.vstr(ce.c), APE.vstr(se.c)}:
                                okcmp = True
            res.check(okcmp, "C12.R1", site(f, "compare-before-decode"),
                      "with verification on, stored CRC == computed CRC is established (failing edge NORETURN) before %s" % use.a,
                      "with verify_checksums set, %s receives block bytes on a path where the stored and computed checksums were never required to be equal: "
                      "a damaged block is decoded" % use.a, f.loc(use.node), p.describe(f))
            res.check(same, "C12.R1", site(f, "checksum-covers-decoded-bytes"), "the checksum is computed over exactly the (pointer,length) that is decoded",
                      "the checksum covers %s but %s decodes (%s, %s)" % ([[APE.vstr(x) for x in ce.b] for ci, ce in crc], use.a, APE.vstr(P), APE.vstr(N)),
                      f.loc(use.node), p.describe(f))
            # the stored CRC is read from the frame's CRC slot = 4 bytes before the payload
            for si, se in stored[-1:]:
                from .c11 import terms, diff
                slot_ok = diff(terms(APE.vstr(P)), terms(APE.vstr(se.b[0]))) == ["#4"]
                res.check(slot_ok, "C12.R1", site(f, "crc-slot"), "stored CRC is the four bytes in front of the payload", "stored CRC read from %s, payload at %s" % (APE.vstr(se.b[0]), APE.vstr(P)), f.loc(se.node))
        if n_on == 0:
            res.bad("C12.R1", site(f, "verify-on-path"), "no path decodes a block with verify_checksums set", f.loc(f.body))

    # ---- R2 (writer side) ------------------------------------------------------------
    sub = type(res)(res.prop, res.tier)
    c09.run(ctx, sub)
    for rule, site_, ok, how in sub.obs:
        if rule == "C09.R2" and ok:
            res.ok("C12.R2", site_, how)
    for v in sub.viol:
        if v["rule"] == "C09.R2":
            res.bad("C12.R2", v["site"], v["what"], v["loc"], v["detail"])
    res.floor("C12.R2", 4)

    # ---- R3 mtbl_verify ------------------------------------------------------------------
    res.floor("C12.R3", 6)
    vu = "src/mtbl_verify.c"
    vd = prog.func("verify_data_blocks", vu)
    vf = prog.func("verify_file", vu)
    if vd is None or vf is None:
        raise BrokenAnalysis("mtbl_verify functions not found")
    res.saw(vd)
    res.saw(vf)
    loops = [n for n in walk(vd.body) if n["k"] == "ForStmt"]
    cnt = vd.params[4]["name"]
    okloop = False
    for L in loops:
        ini = L.get("init")
        c = strip(L["cond"]) if L.get("cond") else None
        inc = strip(L["inc"]) if L.get("inc") else None
        if ini and c is not None and inc is not None and c["k"] == "BinaryOperator":
            d = [x for x in ini.get("decls", []) if x.get("init") is not None]
            if d and inc["k"] == "UnaryOperator" and inc["op"] == "++":
                start = const_val(d[0]["init"])
                var = d[0]["name"]
                if canon(c["kids"][0]) == var and canon(c["kids"][1]) == cnt:
                    okloop = (start == 1 and c["op"] == "<=") or (start == 0 and c["op"] == "<")
    res.check(okloop, "C12.R3", site(vd, "loop-covers-all-blocks"), "the loop visits exactly count_data_blocks blocks",
              "the verification loop does not visit every data block (the last or first block is skipped)", vd.loc(vd.body))
    ev = APE.run(prog, ctx.cg_all, vd, bound=APE.BOUND)
    seen_mis = seen_over = False
    for p in ev.paths:
        if p.end != "exit":
            continue
        evs = list(p.events)
        r = p.ret()
        crcs = [e for e in evs if e.kind == "call" and e.a == "mtbl_crc32c"]
        for ce in crcs:
            # the comparison of this computed crc with a stored value
            for e in evs:
                if e.kind == "branch" and isinstance(e.a, tuple) and APE.vstr(ce.c) in e.a:
                    other = [x for x in e.a if x != APE.vstr(ce.c)][0]
                    if not other.startswith("mtbl_fixed_decode32("):
                        continue
                    if EQ not in e.b:
                        seen_mis = True
                        res.check(r == ("c", 0), "C12.R3", site(vd, "mismatch->false"), "a checksum mismatch makes the function return false",
                                  "after a checksum mismatch verify_data_blocks returns %s" % APE.vstr(r), vd.loc(ce.node), p.describe(vd))
        for e in evs:
            if e.kind == "branch" and isinstance(e.a, tuple) and e.a[1] == vd.params[3]["name"] and e.b == frozenset((GT,)):
                seen_over = True
                res.check(r == ("c", 0), "C12.R3", site(vd, "overrun->false"), "a block length running past the data region returns false",
                          "a block running past the data region is not reported", vd.loc(vd.body), p.describe(vd))
        if r is not None and r != ("c", 0) and r[0] == "c":
            # true return: every crc computed on the path was compared equal
            for ce in crcs:
                okc = any(e.kind == "branch" and isinstance(e.a, tuple) and APE.vstr(ce.c) in e.a and e.b == frozenset((EQ,)) for e in evs)
                res.check(okc, "C12.R3", site(vd, "true-only-if-equal"), "true is returned only with every visited block's checksum equal",
                          "true returned although a block's checksum was not required to match", vd.loc(ce.node), p.describe(vd))
    res.check(seen_mis and seen_over, "C12.R3", site(vd, "failure-edges"), "mismatch and overrun edges exist", "mismatch edge: %s, overrun edge: %s" % (seen_mis, seen_over))
    # payload = framed payload (offset + len_len + 4, size) - shared with C11.R1; here: crc over (raw_contents, raw_contents_size)
    evf = APE.run(prog, ctx.cg_all, vf, bound=APE.BOUND)
    for p in evf.paths:
        if p.end != "exit":
            continue
        evs = [e for e in p.events if e.kind == "call"]
        names = [e.a for e in evs]
        prints = [e for e in evs if e.a == "printf" and "OK" in APE.vstr(e.b[0])]
        vcall = [e for e in evs if e.a == "verify_data_blocks"]
        if prints:
            c = p.cons.get((APE.vstr(vcall[0].c), "#0")) if vcall else None
            res.check(c is not None and EQ not in c and p.ret() != ("c", 0), "C12.R3", site(vf, "OK-only-on-true"), "OK is printed only when every block verified",
                      "mtbl_verify prints OK although verify_data_blocks may have returned false", vf.loc(prints[0].node), p.describe(vf))
        if vcall:
            setv = [e for e in evs if e.a == "mtbl_reader_options_set_verify_checksums"]
            rinit = [e for e in evs if e.a == "mtbl_reader_init_fd"]
            good = setv and setv[0].b[1] == ("c", 1) and rinit and evs.index(setv[0]) < evs.index(rinit[0]) < evs.index(vcall[0]) and rinit[0].b[1] == setv[0].b[0]
            res.check(bool(good), "C12.R3", site(vf, "index-verified-first"), "the reader is opened with verify_checksums = true before the data blocks are walked",
                      "the index block is not verified (reader opened without verify_checksums)", vf.loc(vf.body), p.describe(vf))
            nret = [v for (a, b), v in p.cons.items() if a == APE.vstr(rinit[0].c) and b == "#0"] if rinit else []
    mainf = prog.func("main", vu)
    if mainf is not None:
        evm = APE.run(prog, ctx.cg_all, mainf, bound=APE.BOUND)
        for p in evm.paths:
            if p.end != "exit":
                continue
            vfc = [e for e in p.events if e.kind == "call" and e.a == "verify_file"]
            failed = any(p.cons.get((APE.vstr(e.c), "#0")) == frozenset((EQ,)) for e in vfc)
            if failed:
                res.check(p.ret() is not None and p.ret() != ("c", 0), "C12.R3", site(mainf, "exit-status"), "a failed file makes the exit status non-zero",
                          "mtbl_verify exits 0 although a file failed", mainf.loc(mainf.body), p.describe(mainf))

    # ---- properties this one rests on (re-run here, labelled <this>.D.<rule>) ------------------
    depends(ctx, res, 'C17', None, 'an intact file verifies only if writer and verifier compute the same standard CRC-32C, whichever implementation each of them runs')
