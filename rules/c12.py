"""C12 - checksums: intact files verify, damaged blocks are never accepted.

R1 verify-before-decode: block_init (the only constructor of a decodable block) has exactly
   the two known callers; on every path of those where verify_checksums is set a comparison of
   the stored CRC with mtbl_crc32c(P, N), whose failing edge is NORETURN, precedes
   decompression and block_init, and (P, N) are the bytes later decoded.
R2 writer side = C09.R2 (re-run here).
R3 mtbl_verify: the loop covers every data block, compares stored and computed CRC over the
   framed payload, mismatch and overrun reach a false return, OK is printed only on true, and
   the reader is first opened with verify_checksums = true (index block).
G1 asserts are live: the build does not define NDEBUG (assert edges are NORETURN calls).
D  rests on: C17 (an intact file verifies only if writer and verifier compute the same standard CRC-32C, whichever implementation each of them runs) - re-run here as <id>.D.<rule>.
"""
import re
from .common import *
from . import c09

EXPLANATION = ("static must-pass-through and who-may-call rules: every path that reaches block decoding with verification enabled "
               "passes a CRC comparison whose failing edge is NORETURN over exactly the bytes decoded; mtbl_verify's loop shape and "
               "failure propagation; liveness of assert in the compiled configuration; CRC-32C's detection strength is mathematics "
               "and is not decided here; see DESIGN 3 C12")
DESIGN_REF = "DESIGN.md section 3, C12"
R = "mtbl/reader.c"


def run(ctx, res):
    prog, cg = ctx.prog, ctx.cg
    # ---- G1 ------------------------------------------------------------------------
    res.floor("C12.G1", 2)
    nd = [f for f in prog.flags if f in ("-DNDEBUG", "-DNDEBUG=1") or f.startswith("-DNDEBUG")]
    res.check(not nd, "C12.G1", "build:flags", "NDEBUG is not defined on the command line", "the build defines NDEBUG: every assert-based check (checksums, write errors) compiles to nothing")
    nfail = 0
    nassert_macro = 0
    for f in prog.lib_funcs():
        for n in walk(f.body):
            if n["k"] == "CallExpr" and n.get("callee") == "__assert_fail":
                nfail += 1
    res.check(nfail >= 60, "C12.G1", "library:assert-edges", "%d live assert failure edges (NORETURN) in the library" % nfail,
              "only %d assert failure edges are compiled in (60+ confirmed by hand): asserts are disabled in this configuration" % nfail)

    # ---- R1 ---------------------------------------------------------------------------
    res.floor("C12.R1", 6)
    # the gate functions: whoever constructs a decodable block (calls block_init) - under whatever name - is subject to the
    # path rule below; helpers they were split into are evaluated as part of them
    callers = sorted(set(f.name for f, c in lib_calls(prog, "block_init") if not f.helper))
    res.check(len(callers) >= 2 and all(prog.func(c, R) is not None for c in callers), "C12.R1", "block_init:callers",
              "decodable blocks are constructed only in reader.c (%s)" % ", ".join(callers),
              "block_init is called from %s: blocks can reach decoding without the checksum gate" % callers)
    # no other reader-side consumer of mapped data: stored bytes are decompressed only inside the gate functions
    dc = sorted(set(f.name for f, c in lib_calls(prog, "mtbl_decompress") if not f.helper))
    res.check(set(dc) <= set(callers) and bool(dc), "C12.R1", "mtbl_decompress:callers", "stored bytes are decompressed only in the functions that construct blocks",
              "mtbl_decompress is called from %s" % dc)
    for fn in callers:
        if prog.func(fn, R) is None:
            continue
        f = prog.need(fn, R)
        res.saw(f)
        ev = APE.run(prog, cg, f, bound=APE.BOUND)
        n_on = 0
        for p in ev.paths:
            evs = list(p.events)
            bi = [i for i, e in enumerate(evs) if e.kind == "call" and e.a == "block_init"]
            if not bi:
                continue
            vc = None
            for (a, b), v in p.cons.items():
                if re.search(r"->opt\.verify_checksums@", a) and b == "#0":
                    vc = EQ not in v
            first_use = min([i for i, e in enumerate(evs) if e.kind == "call" and e.a in ("block_init", "mtbl_decompress")])
            use = evs[first_use]
            ai = 1 if use.a == "mtbl_decompress" else 0
            P, N = use.b[ai], use.b[ai + 1]
            if vc is None:
                res.bad("C12.R1", site(f, "verify-option-ignored"), "block decoding does not depend on verify_checksums at all", f.loc(use.node), p.describe(f))
                continue
            if not vc:
                continue
            n_on += 1
            crc = [(i, e) for i, e in enumerate(evs[:first_use]) if e.kind == "call" and e.a == "mtbl_crc32c"]
            stored = [(i, e) for i, e in enumerate(evs[:first_use]) if e.kind == "call" and e.a == "mtbl_fixed_decode32"]
            okcmp = False
            same = False
            for ci, ce in crc:
                same = same or (ce.b[0] == P and ce.b[1] == N)
                for si, se in stored:
                    for e in evs[:first_use]:
                        if e.kind == "branch" and isinstance(e.a, tuple) and e.b == frozenset((EQ,)):
                            if set(e.a) == {APE.vstr(ce.c), APE.vstr(se.c)}:
                                okcmp = True
            res.check(okcmp, "C12.R1", site(f, "compare-before-decode"),
                      "with verification on, stored CRC == computed CRC is established (failing edge NORETURN) before %s" % use.a,
                      "with verify_checksums set, %s receives block bytes on a path where the stored and computed checksums were never required to be equal: "
                      "a damaged block is decoded" % use.a, f.loc(use.node), p.describe(f))
            res.check(same, "C12.R1", site(f, "checksum-covers-decoded-bytes"), "the checksum is computed over exactly the (pointer,length) that is decoded",
                      "the checksum covers %s but %s decodes (%s, %s)" % ([[APE.vstr(x) for x in ce.b] for ci, ce in crc], use.a, APE.vstr(P), APE.vstr(N)),
                      f.loc(use.node), p.describe(f))
            # the stored CRC is read from the frame's CRC slot = 4 bytes before the payload
            for si, se in stored[-1:]:
                from .c11 import terms, diff
                slot_ok = diff(terms(APE.vstr(P)), terms(APE.vstr(se.b[0]))) == ["#4"]
                res.check(slot_ok, "C12.R1", site(f, "crc-slot"), "stored CRC is the four bytes in front of the payload", "stored CRC read from %s, payload at %s" % (APE.vstr(se.b[0]), APE.vstr(P)), f.loc(se.node))
        if n_on == 0:
            res.bad("C12.R1", site(f, "verify-on-path"), "no path decodes a block with verify_checksums set", f.loc(f.body))

    # ---- R2 (writer side) ------------------------------------------------------------
    sub = type(res)(res.prop, res.tier)
    c09.run(ctx, sub)
    for rule, site_, ok, how in sub.obs:
        if rule == "C09.R2" and ok:
            res.ok("C12.R2", site_, how)
    for v in sub.viol:
        if v["rule"] == "C09.R2":
            res.bad("C12.R2", v["site"], v["what"], v["loc"], v["detail"])
    res.floor("C12.R2", 4)

    # ---- R3 mtbl_verify ------------------------------------------------------------------
    res.floor("C12.R3", 6)
    vu = "src/mtbl_verify.c"
    vf = prog.func("verify_file", vu)
    if vf is None:
        raise BrokenAnalysis("mtbl_verify: verify_file not found")
    res.saw(vf)
    # Decided on the paths of verify_file with the tool's internal functions evaluated as part of it (whatever helper walks the
    # blocks, however the loop is written).  On a path that prints OK (and on every path that returns true):
    #   * the reader was opened with verify_checksums = true first (index block),
    #   * every checksum computed on the path was compared equal to a stored 32-bit value,
    #   * the number of blocks checked, n, is the trailer's block count: the constraints the path puts on the count (loop entry
    #     and exit tests, the empty-file shortcut) admit n and no other value,
    #   * no block ran past the data region.
    # A mismatch or an overrun ends in a false return without OK.
    evf = APE.run(prog, ctx.cg_all, vf, bound=APE.BOUND, inline=("*static",), max_paths=40000)
    seen_mis = seen_over = False
    n_ok = 0
    for p in evf.paths:
        if p.end != "exit":
            continue
        evs = list(p.events)
        calls = [e for e in evs if e.kind == "call"]
        r = p.ret()
        crcs = [e for e in calls if e.a == "mtbl_crc32c"]
        prints_ok = [e for e in calls if e.a in ("printf", "puts", "fprintf") and any("OK" in APE.vstr(x) and "FAIL" not in APE.vstr(x) for x in e.b)]
        counts = [e for e in calls if e.a == "mtbl_metadata_count_data_blocks"]
        bytesd = [e for e in calls if e.a == "mtbl_metadata_bytes_data_blocks"]
        mism = False
        alleq = True
        for ce in crcs:
            rel = None
            for e in evs:
                if e.kind == "branch" and isinstance(e.a, tuple) and APE.vstr(ce.c) in e.a:
                    other = [x for x in e.a if x != APE.vstr(ce.c)]
                    if other and other[0].startswith("mtbl_fixed_decode32("):
                        rel = e.b
            c_ = None
            for (a_, b_), v in p.cons.items():
                if APE.vstr(ce.c) in (a_, b_) and (a_.startswith("mtbl_fixed_decode32(") or b_.startswith("mtbl_fixed_decode32(")):
                    c_ = v
            if c_ is None or c_ != frozenset((EQ,)):
                alleq = False
            if c_ is not None and EQ not in c_:
                mism = True
        over = False
        if bytesd:
            bsym = APE.vstr(bytesd[0].c)
            for (a_, b_), v in p.cons.items():
                if b_ == bsym and v == frozenset((GT,)) and a_ != "#0":
                    over = True
                if a_ == bsym and v == frozenset((LT,)) and b_ != "#0":
                    over = True
        truthy = r is not None and r[0] == "c" and r[1] != 0
        if mism:
            seen_mis = True
            res.check(not truthy and not prints_ok, "C12.R3", site(vf, "mismatch->false"), "a checksum mismatch ends in a false result without OK",
                      "after a checksum mismatch mtbl_verify still reports the file as good (returns %s%s)" % (APE.vstr(r) if r else None, ", prints OK" if prints_ok else ""),
                      vf.loc(crcs[0].node), p.describe(vf))
            continue
        if over:
            seen_over = True
            res.check(not truthy and not prints_ok, "C12.R3", site(vf, "overrun->false"), "a block length running past the data region ends in a false result",
                      "a block running past the data region is not reported", vf.loc(vf.body), p.describe(vf))
            continue
        if not (prints_ok or truthy):
            continue
        n_ok += 1
        res.check(truthy and bool(prints_ok), "C12.R3", site(vf, "OK-only-on-true"), "OK is printed exactly on the paths that return true",
                  "mtbl_verify prints OK on a path that returns %s / returns true without OK" % (APE.vstr(r) if r else None), vf.loc(vf.body), p.describe(vf))
        res.check(alleq, "C12.R3", site(vf, "true-only-if-equal"), "true is returned only with every visited block's checksum equal",
                  "OK although a block's checksum was not required to match", vf.loc(crcs[0].node) if crcs else vf.loc(vf.body), p.describe(vf))
        setv = [e for e in calls if e.a == "mtbl_reader_options_set_verify_checksums"]
        rinit = [e for e in calls if e.a in ("mtbl_reader_init_fd", "mtbl_reader_init")]
        good = setv and setv[0].b[1] == ("c", 1) and rinit and calls.index(setv[0]) < calls.index(rinit[0]) and rinit[0].b[1] == setv[0].b[0] and \
            (not crcs or calls.index(rinit[0]) < calls.index(crcs[0]))
        res.check(bool(good), "C12.R3", site(vf, "index-verified-first"), "the reader is opened with verify_checksums = true before the data blocks are walked",
                  "the index block is not verified (reader opened without verify_checksums)", vf.loc(vf.body), p.describe(vf))
        # the block count: which values of the trailer's count does this path admit?
        if not counts:
            res.bad("C12.R3", site(vf, "loop-covers-all-blocks"), "the number of blocks checked does not depend on the trailer's block count", vf.loc(vf.body), p.describe(vf))
            continue
        csym = APE.vstr(counts[0].c)
        admits = []
        for val in range(0, 8):
            okv = True
            for (a_, b_), v in p.cons.items():
                for sym, other, mir in ((a_, b_, False), (b_, a_, True)):
                    if sym != csym:
                        continue
                    m_ = re.match(r"^#(-?\d+)$", other)
                    if not m_:
                        continue
                    k_ = int(m_.group(1))
                    rel = LT if val < k_ else (EQ if val == k_ else GT)
                    if mir:
                        rel = {LT: GT, GT: LT, EQ: EQ}[rel]
                    if rel not in v:
                        okv = False
            if okv:
                admits.append(val)
        if not admits:
            continue          # the tests on the count contradict each other over the integers: no such run exists
        res.check(admits == [len(crcs)], "C12.R3", site(vf, "loop-covers-all-blocks"), "the path checks exactly as many blocks as the trailer counts",
                  "a path that reports OK after checking %d block(s) is taken for block counts %s: the first or last block is skipped" % (len(crcs), admits[:6]),
                  vf.loc(vf.body), p.describe(vf))
    res.check(seen_mis and seen_over, "C12.R3", site(vf, "failure-edges"), "mismatch and overrun edges exist", "mismatch edge: %s, overrun edge: %s" % (seen_mis, seen_over))
    if n_ok == 0:
        raise BrokenAnalysis("mtbl_verify: no path that reports a verified file")
    mainf = prog.func("main", vu)
    if mainf is not None:
        evm = APE.run(prog, ctx.cg_all, mainf, bound=APE.BOUND)
        for p in evm.paths:
            if p.end != "exit":
                continue
            vfc = [e for e in p.events if e.kind == "call" and e.a == "verify_file"]
            failed = any(p.cons.get((APE.vstr(e.c), "#0")) == frozenset((EQ,)) for e in vfc)
            if failed:
                res.check(p.ret() is not None and p.ret() != ("c", 0), "C12.R3", site(mainf, "exit-status"), "a failed file makes the exit status non-zero",
                          "mtbl_verify exits 0 although a file failed", mainf.loc(mainf.body), p.describe(mainf))

    # ---- properties this one rests on (re-run here, labelled <this>.D.<rule>) ------------------
    depends(ctx, res, 'C17', None, 'an intact file verifies only if writer and verifier compute the same standard CRC-32C, whichever implementation each of them runs')
