"""C15 - compression round trip for every algorithm, level and buffer.

R1 registry (complete): name<->enum tables agree, unknown names fail; every dispatcher has a
   case for every constant and routes compress/decompress to the pair named in T-comp.
R2 destination sizing: the capacity given to the library and the allocation it writes into
   derive from the library's own bound function of the input size.
R3 library error protocol (T-liberr): each library result is tested with that library's
   predicate before use.
R4 lz4 length-prefix siblings agree (u32le size at +0, payload at +4).
R5 level clamps by interval: the level reaching the library is inside its legal range.
R6 every failure exit after the output was allocated frees it.
R9 allocation wrappers (memmodel interpreter): my_malloc / my_calloc / my_realloc pass every size, 0 and sizes beyond 2^32 included, to the C library unchanged and fail only on a NULL result.
"""
import re
from .common import *

EXPLANATION = ("static registry-agreement and dataflow rules over compression.c: switch/branch tables extracted by abstract path "
               "evaluation and compared with T-comp; symbolic derivation of capacities and allocation sizes from the library bound "
               "functions; per-call error predicates from T-liberr; interval constraints on levels; see DESIGN 3 C15")
DESIGN_REF = "DESIGN.md section 3, C15"
COMPLETE = ("C15.R1 name tables round-trip and unknown names are refused",)
U = "mtbl/compression.c"


# the library call that makes a function "the X (de)compressor", used when the registry's function name no longer exists
# (two algorithms sharing a block format may share one function under a flag, a function may have been renamed)
ROLE = {"_mtbl_compress_snappy": {"snappy_compress"}, "_mtbl_compress_zlib": {"deflate"}, "_mtbl_compress_lz4": {"LZ4_compress_default"},
        "_mtbl_compress_lz4hc": {"LZ4_compress_HC"}, "_mtbl_compress_zstd": {"ZSTD_compress", "ZSTD_compressCCtx"},
        "_mtbl_decompress_snappy": {"snappy_uncompress"}, "_mtbl_decompress_zlib": {"inflate"}, "_mtbl_decompress_lz4": {"LZ4_decompress_safe"},
        "_mtbl_decompress_zstd": {"ZSTD_decompress", "ZSTD_decompressDCtx"}}


def by_role(prog, name):
    f = prog.func(name, U)
    if f is not None:
        return f
    libs = ROLE.get(name)
    cands = [g for g in prog.unit_funcs(U) if libs and g.file.endswith("compression.c") and any(c.get("callee") in libs for c in g.calls())]
    if len(cands) != 1:
        raise BrokenAnalysis("anchor function %s in %s not found (and %d functions call %s)" % (name, U, len(cands), sorted(libs or ())))
    return cands[0]


def switch_table(prog, cg, f, param_name):
    """tag -> list of paths"""
    ev = APE.run(prog, cg, f, bound=APE.BOUND)
    out = {}
    enum = prog.enums.get("mtbl_compression_type", {})
    byval = {"#%d" % v: k for k, v in enum.items()}
    for p in ev.paths:
        tag = None
        tested = False
        for (a, b), v in p.cons.items():
            if b == "switch" and a == param_name:
                tag = list(v)[0]
            elif a == param_name and b in byval:
                # a chain of equality tests (or a search through a table of the constants) instead of a switch
                tested = True
                if v == frozenset((EQ,)):
                    tag = byval[b]
        if tag is None and tested:
            tag = "default"
        out.setdefault(tag, []).append(p)
    return out


def run(ctx, res):
    prog, cg = ctx.prog, ctx.cg
    T = ctx.spec("t_comp")
    L = ctx.spec("t_liberr")
    mres = prog.enums["mtbl_res"]
    OKV, FAILV = mres["mtbl_res_success"], mres["mtbl_res_failure"]
    enum = prog.enums.get("mtbl_compression_type")
    if not enum:
        raise BrokenAnalysis("enum mtbl_compression_type not found")
    rows = {r["const"]: r for r in T["rows"]}
    res.floor("C15.R1", 30)
    for c in enum:
        res.check(c in rows, "C15.R1", "enum:%s" % c, "constant known to the registry table",
                  "enum constant %s has no row in the registry table (spec/t_comp.json)" % c)
    for c in rows:
        if c not in enum:
            raise BrokenAnalysis("registry constant %s vanished from the enum" % c)

    # ---- to_str ---------------------------------------------------------------
    ts = prog.need("mtbl_compression_type_to_str", U)
    res.saw(ts)
    tab = switch_table(prog, cg, ts, ts.params[0]["name"])
    names = {}
    for c, r in rows.items():
        ps = [p for p in tab.get(c, []) if p.end == "exit"]
        got = APE.vstr(ps[0].ret()) if ps and ps[0].ret() else None
        names[c] = got.strip('"') if got and got.startswith('"') else None
        res.check(len(ps) == 1 and got == '"%s"' % r["name"], "C15.R1", site(ts, c), "to_str(%s) = \"%s\"" % (c, r["name"]),
                  "to_str(%s) yields %s, the registry says \"%s\"" % (c, got, r["name"]), ts.loc(ts.body))
    dflt = [p for p in tab.get("default", []) if p.end == "exit"]
    res.check(bool(dflt) and all(p.ret() == ("c", 0) for p in dflt), "C15.R1", site(ts, "unknown"), "unknown constant -> NULL",
              "to_str of an unknown constant does not return NULL", ts.loc(ts.body))
    vals = [v for v in names.values() if v]
    res.check(len(vals) == len(set(vals)), "C15.R1", site(ts, "distinct-names"), "no two constants share a name", "two constants share a name: %s" % names)

    # ---- from_str ----------------------------------------------------------------
    fs = prog.need("mtbl_compression_type_from_str", U)
    res.saw(fs)
    ev = APE.run(prog, cg, fs, bound=APE.BOUND)
    parsed = {}
    unknown_ok = None
    for p in ev.paths:
        if p.end != "exit":
            continue
        hit = None
        for (a, b), v in p.cons.items():
            m = re.match(r'^str(case)?cmp\(%s,("(?:[^"\\]|\\.)*")\)(@\d+)?$' % fs.params[0]["name"], a)
            if m and b == "#0" and v == frozenset((EQ,)):
                hit = m.group(2).strip('"')
        st = [e for e in p.events if e.kind == "store" and e.a == "*" + fs.params[1]["name"]]
        if hit is not None:
            ok = p.ret() == ("c", OKV) and len(st) == 1 and st[0].b[0] == "c"
            parsed[hit] = st[0].b[1] if ok else None
        else:
            unknown_ok = (p.ret() == ("c", FAILV) and not st)
    for c, r in rows.items():
        got = parsed.get(names.get(c) or r["name"])
        res.check(got == enum[c], "C15.R1", site(fs, c), "from_str(\"%s\") stores %s and succeeds" % (r["name"], c),
                  "from_str(\"%s\") yields %s, expected %s = %d" % (r["name"], got, c, enum[c]), fs.loc(fs.body))
    extra = set(parsed) - set(names.values())
    res.check(not extra, "C15.R1", site(fs, "no-extra-names"), "no name parses that to_str never produces", "from_str also accepts %s" % sorted(extra))
    res.check(unknown_ok is True, "C15.R1", site(fs, "unknown"), "unknown name -> failure, *t untouched", "an unknown name is not refused cleanly", fs.loc(fs.body))

    # ---- dispatchers ---------------------------------------------------------------
    for fn, which in (("mtbl_compress", "compress"), ("mtbl_compress_level", "compress"), ("mtbl_decompress", "decompress")):
        f = prog.need(fn, U)
        res.saw(f)
        # a dispatcher may hand its work, type and buffers unchanged, to a sibling dispatcher of the same direction on every
        # path: exhaustiveness and pairing are then the sibling's (checked in its own turn)
        sib = {"compress": ("mtbl_compress", "mtbl_compress_level"), "decompress": ("mtbl_decompress",)}[which]
        evd = APE.run(prog, cg, f, bound=APE.BOUND)
        dpaths = [p for p in evd.paths if p.end == "exit"]
        deleg = bool(dpaths)
        pn_ = [x["name"] for x in f.params]
        data_ = [("s", n) for n in pn_ if n not in (pn_[0], "compression_level")]
        ndeleg = 0
        for p in dpaths:
            dc = [e for e in p.events if e.kind == "call" and e.a in sib and e.a != fn]
            if not dc and p.ret() == ("c", FAILV) and not [e for e in p.events if e.kind == "call" and e.a in set().union(*ROLE.values())]:
                continue      # refuses without doing anything (a type it does not know): nothing to delegate
            g_ = prog.func(dc[0].a, U) if dc else None
            ndeleg += 1
            if len(dc) != 1 or g_ is None or p.ret() != dc[0].c or dc[0].b[0] != ("s", pn_[0]):
                deleg = False
                break
            gp = [x["name"] for x in g_.params]
            gdata = [dc[0].b[i] for i, n in enumerate(gp) if n not in (gp[0], "compression_level")]
            if gdata != data_:
                deleg = False
                break
        if deleg and ndeleg == 0:
            deleg = False
        if deleg:
            res.ok("C15.R1", site(f, "delegates"), "%s hands (type, input, size, output, output_size) unchanged to %s on every path" % (fn, dc[0].a))
            continue
        tab = switch_table(prog, cg, f, f.params[0]["name"])
        for c, r in rows.items():
            ps = [p for p in tab.get(c, []) if p.end == "exit"]
            want = r[which]
            if not ps:
                res.bad("C15.R1", site(f, c), "%s has no case for %s" % (fn, c), f.loc(f.body))
                continue
            p = ps[0]
            calls = [e for e in p.events if e.kind == "call"]
            if want is None:
                res.check(not calls and p.ret() == ("c", FAILV), "C15.R1", site(f, c), "%s: failure (callers bypass the dispatcher)" % c,
                          "%s(%s) does %s" % (fn, c, [e.a for e in calls]), f.loc(f.body))
                continue
            wf_ = by_role(prog, want)
            good = len(calls) == 1 and calls[0].a == wf_.name and p.ret() == calls[0].c
            # data arguments forwarded unchanged
            pn = [x["name"] for x in f.params]
            data = [("s", n) for n in pn if n not in (pn[0], "compression_level")]
            if good:
                good = calls[0].b[:4] == data
            if good and wf_.name != want:
                # a function shared by several algorithms: on the paths this call takes (its other arguments being the constants
                # passed here) it reaches this algorithm's library call and no other algorithm's
                sub = APE.run(prog, cg, wf_, bound=APE.BOUND, start_env={q["name"]: calls[0].b[i] for i, q in enumerate(wf_.params)
                                                                          if i < len(calls[0].b) and calls[0].b[i][0] == "c"})
                reached = set(e.a for p2 in sub.paths for e in p2.events if e.kind == "call" and any(e.a in v for v in ROLE.values()))
                good = bool(reached) and reached <= ROLE[want]
            res.check(good, "C15.R1", site(f, c), "%s -> %s with (input, size, output, output_size) forwarded" % (c, want),
                      "%s(%s) routes to %s" % (fn, c, ["%s(%s)" % (e.a, ",".join(APE.vstr(x) for x in e.b)) for e in calls]), f.loc(f.body))
            if good and which == "compress" and r.get("level_param"):
                li = [i for i, q in enumerate(wf_.params) if "level" in q["name"]]
                lv = calls[0].b[li[-1]] if li and li[-1] < len(calls[0].b) else calls[0].b[4]
                if fn == "mtbl_compress_level":
                    res.check(lv == ("s", "compression_level"), "C15.R1", site(f, c + ":level"), "level parameter forwarded",
                              "%s passes level %s instead of the caller's" % (fn, APE.vstr(lv)), f.loc(f.body))
                else:
                    res.check(lv[0] == "c", "C15.R1", site(f, c + ":default-level"), "constant default level %s" % APE.vstr(lv),
                              "default level is not a constant", f.loc(f.body))
    so = prog.need("mtbl_writer_options_set_compression", "mtbl/writer.c")
    res.saw(so)
    tab = switch_table(prog, ctx.cg, so, so.params[1]["name"])
    for c in rows:
        ps = tab.get(c, [])
        res.check(bool(ps) and all(p.end == "exit" for p in ps), "C15.R1", site(so, c), "writer option accepts %s" % c,
                  "mtbl_writer_options_set_compression rejects %s" % c, so.loc(so.body))

    # ---- per-algorithm functions -----------------------------------------------------
    res.floor("C15.R2", 5)
    res.floor("C15.R3", 8)
    res.floor("C15.R6", 5)
    liberr = {r["callee"]: r for r in L["rows"]}
    comp_funcs = {}
    for c, r in rows.items():
        if r["compress"]:
            comp_funcs.setdefault(r["compress"], r)
    for fn, r in comp_funcs.items():
        f = by_role(prog, fn)
        res.saw(f)
        ev = APE.run(prog, cg, f, bound=APE.BOUND)
        _sizing(res, f, ev, r)
        _errors(res, f, ev, liberr, OKV, FAILV)
        _frees(res, f, ev, OKV, FAILV)
        if r.get("level_range"):
            _levels(res, f, ev, r)
    for fn in sorted(set(r["decompress"] for r in rows.values() if r["decompress"])):
        f = by_role(prog, fn)
        res.saw(f)
        ev = APE.run(prog, cg, f, bound=APE.BOUND)
        _errors(res, f, ev, liberr, OKV, FAILV)
        _frees(res, f, ev, OKV, FAILV)
    _lz4_prefix(ctx, res)
    _inflate_growth(ctx, res)


    # ---- R9 the allocation wrappers hand every request through --------------------------------------------
    _alloc_wrappers(ctx, res)

LIB_COMPRESSORS = {"LZ4_compress_default": (1, 3), "LZ4_compress_HC": (1, 3), "ZSTD_compress": (0, 1), "ZSTD_compressCCtx": (1, 2),
                   "snappy_compress": (2, 3), "deflate": (None, None)}


def _sizing(res, f, ev, row):
    bounds = row["bound"]
    insz = f.params[1]["name"]
    done = False
    for p in ev.paths:
        evs = [e for e in p.events if e.kind != "branch"]
        mall = [e for e in evs if e.kind == "call" and e.a in ("my_malloc", "malloc", "my_calloc")]
        for e in evs:
            if e.kind != "call" or e.a not in LIB_COMPRESSORS:
                continue
            di, ci = LIB_COMPRESSORS[e.a]
            if e.a == "deflate":
                # capacity = zs.avail_out at the time of the call
                cap = None
                for s in evs[:evs.index(e)]:
                    if s.kind == "store" and s.a.endswith(".avail_out"):
                        cap = s.b
                dst = None
                for s in evs[:evs.index(e)]:
                    if s.kind == "store" and s.a.endswith(".next_out"):
                        dst = s.b
            elif e.a == "snappy_compress":
                cap = None
                for s in evs[:evs.index(e)]:
                    if s.kind == "store" and s.a == "*" + f.params[3]["name"]:
                        cap = s.b
                dst = e.b[di]
            else:
                cap = e.b[ci]
                dst = e.b[di]
            if cap is None or not mall:
                res.bad("C15.R2", site(f, e.a + ":capacity"), "capacity handed to %s cannot be determined" % e.a, f.loc(e.node))
                continue
            caps = APE.vstr(cap)
            used = [b for b in bounds if re.search(r"\b%s\([^)]*\b%s\b" % (re.escape(b), re.escape(insz)), caps)]
            asz = mall[-1].b[0]
            base, off = APE.split_off(asz)
            dbase, doff = APE.split_off(dst) if dst is not None else ("", 0)
            fits = (APE.vstr(asz) == caps and doff == 0) or (base == caps and off == doff) or \
                   (APE.split_off(cap)[0] == base and APE.split_off(cap)[1] + doff <= off)
            done = True
            res.check(bool(used), "C15.R2", site(f, e.a + ":capacity"),
                      "capacity %s derives from %s(input size)" % (caps, used[0] if used else "?"),
                      "the output capacity given to %s is %s, which is not derived from the library's bound function (%s): inputs that do "
                      "not shrink (empty, tiny, incompressible) cannot be finished" % (e.a, caps, " / ".join(bounds)), f.loc(e.node), p.describe(f))
            res.check(fits, "C15.R2", site(f, e.a + ":allocation"), "allocation %s covers capacity %s at offset %d" % (APE.vstr(asz), caps, doff),
                      "allocation of %s bytes does not cover capacity %s at offset %d" % (APE.vstr(asz), caps, doff), f.loc(e.node), p.describe(f))
            break
        if done:
            break
    if not done:
        raise BrokenAnalysis("%s: library compressor call not recognised" % f.name)


def _errors(res, f, ev, liberr, OKV, FAILV):
    seen = set()
    for p in ev.paths:
        evs = [e for e in p.events if e.kind != "branch"]
        r = p.ret()
        success = p.end == "exit" and r == ("c", OKV)
        failure = p.end == "exit" and r == ("c", FAILV)
        for e in evs:
            if e.kind != "call" or e.a not in liberr:
                continue
            row = liberr[e.a]
            sym = APE.vstr(e.c)
            err = row["error"]
            sig = site(f, e.a)
            if err.startswith("result == 0"):
                c = p.cons.get((sym, "#0"))
                if success:
                    seen.add(e.a)
                    res.check(c is not None and EQ not in c, "C15.R3", sig, "success only after %s returned non-zero" % e.a,
                              "%s result (0 = failure) is not tested before success is reported" % e.a, f.loc(e.node), p.describe(f))
            elif err.startswith("result < 0"):
                c = p.cons.get((sym, "#0"))
                if success:
                    seen.add(e.a)
                    res.check(c is not None and LT not in c, "C15.R3", sig, "success only after %s returned >= 0" % e.a,
                              "%s result (<0 = failure) is not tested before success is reported" % e.a, f.loc(e.node), p.describe(f))
                elif failure and c is not None and EQ in c and GT not in c and not [
                        x for x in p.events[p.events.index(e) + 1:] if x.kind == "branch" and isinstance(x.a, tuple) and tuple(x.a) != (sym, "#0")]:
                    # (a refusal that also depends on something else - e.g. 0 bytes where more were announced - is not judged)
                    # the failure exit is taken for a result of 0: the number of bytes produced for an empty original
                    seen.add(e.a)
                    res.bad("C15.R3", sig + ":zero-is-legal",
                            "%s returning 0 (the empty buffer decoded to its 0 bytes; only negative results are errors) is refused: "
                            "a buffer that compressed successfully does not decompress" % e.a, f.loc(e.node), p.describe(f))
            elif err.startswith("ZSTD_isError"):
                isE = [x for x in evs if x.kind == "call" and x.a == "ZSTD_isError" and x.b[0] == e.c]
                if success:
                    seen.add(e.a)
                    c = p.cons.get((APE.vstr(isE[0].c), "#0")) if isE else None
                    res.check(c == frozenset((EQ,)), "C15.R3", sig, "success only when ZSTD_isError(result) is false",
                              "%s result is not passed through ZSTD_isError before success" % e.a, f.loc(e.node), p.describe(f))
            elif err.startswith("!= SNAPPY_OK"):
                c = p.cons.get((sym, "#0"))
                if success:
                    seen.add(e.a)
                    res.check(c == frozenset((EQ,)), "C15.R3", sig, "success only when %s returned SNAPPY_OK" % e.a,
                              "%s status is not compared with SNAPPY_OK before success" % e.a, f.loc(e.node), p.describe(f))
            elif e.a == "ZSTD_getFrameContentSize":
                seen.add(e.a)
                E, Uk = "#18446744073709551614", "#18446744073709551613"
                Uk = "#18446744073709551615"
                # the value may have been copied/cast: follow equal symbols
                cE = cU = c0 = None
                for (a, b), v in p.cons.items():
                    if a == sym and b == E:
                        cE = v
                    elif a == sym and b == Uk:
                        cU = v
                    elif a == sym and b == "#0":
                        c0 = v
                cont = any(x.kind == "call" and x.a in ("ZSTD_decompress", "my_malloc") for x in evs[evs.index(e) + 1:])
                if cont:
                    good = (cE is not None and EQ not in cE and cU is not None and EQ not in cU) or (cE is not None and cE <= frozenset((LT,)))
                    res.check(good, "C15.R3", sig + ":errors-excluded",
                              "the frame size is used only after both error sentinels were excluded",
                              "ZSTD_getFrameContentSize's result is used as a size without excluding ZSTD_CONTENTSIZE_ERROR and "
                              "ZSTD_CONTENTSIZE_UNKNOWN (constraints: ==ERROR %s, ==UNKNOWN %s)" % (sorted(cE) if cE else None, sorted(cU) if cU else None),
                              f.loc(e.node), p.describe(f))
                elif failure:
                    only_zero = c0 is not None and c0 <= frozenset((LT, EQ)) and not ((cE and EQ in cE and len(cE) == 1) or (cU and EQ in cU and len(cU) == 1)
                                                                                       or (cE and cE <= frozenset((EQ, GT))))
                    res.check(not only_zero, "C15.R3", sig + ":zero-is-legal",
                              "a frame of content size 0 is not refused",
                              "a frame whose content size is 0 (the empty buffer) is refused: the test treats the legal value 0 as an error",
                              f.loc(e.node), p.describe(f))
            elif "assert" in row.get("site_must", ""):
                m = re.search(r"== (\w+)", row["site_must"])
                if p.end == "exit":
                    seen.add(e.a)
                    okc = None
                    for (a, b), v in p.cons.items():
                        if a == sym and v == frozenset((EQ,)):
                            okc = b
                    res.check(okc is not None, "C15.R3", sig, "%s: normal paths continue only on %s" % (e.a, m.group(1) if m else "the success code"),
                              "%s result is not asserted before continuing" % e.a, f.loc(e.node), p.describe(f))
            elif e.a == "deflateEnd":
                c = p.cons.get((sym, "#0"))
                if success:
                    seen.add(e.a)
                    res.check(c == frozenset((EQ,)), "C15.R3", sig, "success only when deflateEnd returned Z_OK",
                              "deflateEnd status ignored", f.loc(e.node), p.describe(f))
    return seen


def _frees(res, f, ev, OKV, FAILV):
    outp = f.params[2]["name"]
    n = 0
    for p in ev.paths:
        if p.end != "exit":
            continue
        evs = [e for e in p.events if e.kind != "branch"]
        r = p.ret()
        alloc = None
        freed = False
        for e in evs:
            if e.kind == "store" and e.a == "*" + outp and APE.vstr(e.b).startswith(("my_malloc(", "my_realloc(", "malloc(")):
                alloc = e.b
                freed = False
            if e.kind == "call" and e.a == "free" and alloc is not None and e.b[0] == alloc:
                freed = True
        if alloc is None:
            continue
        n += 1
        if r == ("c", FAILV):
            res.check(freed, "C15.R6", site(f, "failure-exit"), "failure after allocation frees the output",
                      "a failure exit leaks the output buffer", f.loc(evs[-1].node), p.describe(f))
        elif r == ("c", OKV):
            res.check(not freed, "C15.R6", site(f, "success-exit"), "success hands the buffer to the caller",
                      "success path frees the buffer it returns", f.loc(evs[-1].node), p.describe(f))


def _levels(res, f, ev, row):
    lr = row["level_range"]
    # which library call receives the level: by what the function calls, not by what it is called
    target = None
    for libfn, argi in (("deflateInit_", 1), ("LZ4_compress_HC", 4), ("ZSTD_compress", 4), ("ZSTD_compressCCtx", 5)):
        if f.calls(libfn) and (row.get("compress") in ROLE and (libfn in ROLE[row["compress"]] or libfn == "deflateInit_" and "deflate" in ROLE[row["compress"]])):
            target = (libfn, argi)
            break
    if target is None:
        return
    lvls = [q["name"] for q in f.params if "level" in q["name"]]
    lvl = lvls[-1] if lvls else f.params[4]["name"]
    n = 0
    for p in ev.paths:
        for e in p.events:
            if e.kind != "call" or e.a != target[0]:
                continue
            v = e.b[target[1]]
            n += 1
            lo, hi = lr.get("lo"), lr.get("hi")
            sig = site(f, "level->%s" % target[0])
            if target[0].startswith("ZSTD"):
                vs = APE.vstr(v)
                if vs.startswith("ZSTD_minCLevel()") or vs.startswith("ZSTD_maxCLevel()") or (v[0] == "c" and v[1] == 1):
                    res.ok("C15.R5", sig, "clamped to %s" % vs)
                    continue
                lo_ok = hi_ok = False
                for (a, b), c in p.cons.items():
                    if a == vs and (b.startswith("ZSTD_minCLevel()") or b == "#1") and LT not in c:
                        lo_ok = True
                    if a == vs and b.startswith("ZSTD_maxCLevel()") and GT not in c:
                        hi_ok = True
                res.check(lo_ok and hi_ok, "C15.R5", sig, "level within [minCLevel, maxCLevel]",
                          "level %s reaches ZSTD_compress without being clamped to the library's range" % vs, f.loc(e.node), p.describe(f))
                continue
            if v[0] == "c":
                good = (lo is None or v[1] >= lo) and (hi is None or v[1] <= hi)
                res.check(good, "C15.R5", sig, "constant level %d inside [%s,%s]" % (v[1], lo, hi),
                          "level %d outside the library's range [%s,%s]" % (v[1], lo, hi), f.loc(e.node), p.describe(f))
            else:
                vs = APE.vstr(v)
                # which integers can the level be on this path?  every comparison of it with a constant narrows the set; all
                # that remain must lie inside the library's range (probe values around every constant met, and far outside)
                consts = [int(b_[1:]) for (a_, b_) in p.cons if a_ == vs and re.match(r"^#-?\d+$", b_)]
                probes = set([-(10 ** 6), 10 ** 6])
                for k_ in consts + [x for x in (lo, hi) if x is not None]:
                    probes.update((k_ - 1, k_, k_ + 1))
                admitted = []
                for val in sorted(probes):
                    ok_ = True
                    for (a_, b_), c in p.cons.items():
                        if a_ == vs and re.match(r"^#-?\d+$", b_):
                            k_ = int(b_[1:])
                            rel = LT if val < k_ else (EQ if val == k_ else GT)
                            if rel not in c:
                                ok_ = False
                    if ok_:
                        admitted.append(val)
                lo_ok = all(lo is None or val >= lo for val in admitted)
                hi_ok = all(hi is None or val <= hi for val in admitted)
                res.check(lo_ok and hi_ok, "C15.R5", sig, "symbolic level constrained to [%s,%s] on this path" % (lo, hi),
                          "level %s reaches %s without being clamped to [%s,%s]%s" % (vs, target[0], lo, hi,
                                                                                      " (the library call is asserted to succeed)" if f.name.endswith("zlib") else ""),
                          f.loc(e.node), p.describe(f))
    if n == 0:
        raise BrokenAnalysis("%s: call to %s not found" % (f.name, target[0]))
    res.floor("C15.R5", 3)


def _lz4_prefix(ctx, res):
    prog, cg = ctx.prog, ctx.cg
    res.floor("C15.R4", 3)
    done_ = set()
    for fn in ("_mtbl_compress_lz4", "_mtbl_compress_lz4hc"):
        f = by_role(prog, fn)
        if f.name in done_:
            continue
        done_.add(f.name)
        ev = APE.run(prog, cg, f, bound=APE.BOUND)
        for p in ev.paths:
            if p.end != "exit" or p.ret() != ("c", prog.enums["mtbl_res"]["mtbl_res_success"]):
                continue
            enc = p.calls("mtbl_fixed_encode32")
            lib = p.calls(("LZ4_compress_default", "LZ4_compress_HC"))
            mall = p.calls("my_malloc")
            good = len(enc) == 1 and len(lib) == 1 and len(mall) == 1 and enc[0].b[0] == mall[0].c and \
                enc[0].b[1] == ("s", f.params[1]["name"]) and APE.split_off(lib[0].b[1]) == (APE.vstr(mall[0].c), 4)
            # the reported size = library result + 4
            outs = [e for e in p.events if e.kind == "store" and e.a == "*" + f.params[3]["name"]]
            good = good and outs and APE.split_off(outs[-1].b) == (APE.vstr(lib[0].c), 4)
            res.check(good, "C15.R4", site(f, "prefix"), "u32le input size at +0, payload at +4, reported size = payload + 4",
                      "lz4 framing differs: prefix %s, payload at %s, size %s" % (
                          [APE.vstr(x) for x in enc[0].b] if enc else None, APE.vstr(lib[0].b[1]) if lib else None,
                          APE.vstr(outs[-1].b) if outs else None), f.loc(f.body), p.describe(f))
    f = by_role(prog, "_mtbl_decompress_lz4")
    ev = APE.run(prog, cg, f, bound=APE.BOUND)
    inn, insz = f.params[0]["name"], f.params[1]["name"]
    for p in ev.paths:
        if p.end != "exit" or p.ret() != ("c", prog.enums["mtbl_res"]["mtbl_res_success"]):
            continue
        dec = p.calls("mtbl_fixed_decode32")
        lib = p.calls("LZ4_decompress_safe")
        mall = p.calls("my_malloc")
        good = len(dec) == 1 and len(lib) == 1 and len(mall) == 1 and dec[0].b[0] == ("s", inn) and \
            APE.split_off(lib[0].b[0]) == (inn, 4) and lib[0].b[1] == mall[0].c and APE.vstr(lib[0].b[2]) == "(%s-#4)" % insz and \
            lib[0].b[3] == dec[0].c and mall[0].b[0] == dec[0].c
        c = p.cons.get((insz, "#4"))
        good = good and c is not None and LT not in c
        res.check(good, "C15.R4", site(f, "prefix"), "size read at +0, payload from +4 with size-4 bytes, capacity = decoded size, input >= 4 bytes",
                  "lz4 decompressor reads its framing differently from the compressor", f.loc(f.body), p.describe(f))


def _inflate_growth(ctx, res):
    """R7: when the zlib output buffer is enlarged, inflate is told exactly the room that was added, at the old end."""
    prog, cg = ctx.prog, ctx.cg
    f = by_role(prog, "_mtbl_decompress_zlib")
    ev = APE.run(prog, cg, f, bound=APE.BOUND, opaque_calls=("my_realloc",))
    res.floor("C15.R7", 1)
    n = 0
    for p in ev.paths:
        evs = [e for e in p.events if e.kind != "branch"]
        for i, e in enumerate(evs):
            if e.kind != "call" or e.a not in ("my_realloc", "realloc"):
                continue
            # a growth step is a realloc after which inflate runs again; a final trim is judged by R8 only
            later_inflate = any(x.kind == "call" and x.a == "inflate" for x in evs[i + 1:])
            if not later_inflate and p.end != "cut":
                continue
            R = APE.vstr(e.c)
            NEW = APE.vstr(e.b[1])
            nxt = None
            avail = None
            for x in evs[i + 1:]:
                if x.kind == "call" and x.a in ("inflate", "my_realloc", "realloc"):
                    break
                if x.kind == "store" and x.a.endswith(".next_out"):
                    nxt = APE.vstr(x.b)
                if x.kind == "store" and x.a.endswith(".avail_out"):
                    avail = APE.vstr(x.b)
            if nxt is None or avail is None:
                if p.end == "cut":
                    continue
                res.bad("C15.R7", site(f, "grow"), "after enlarging the output buffer next_out/avail_out are not both re-pointed", f.loc(e.node), p.describe(f))
                continue
            n += 1
            m = re.match(r"^\((.*)\+(.*)\)$", nxt)
            OLD = None
            if nxt.startswith("(" + R + "+"):
                OLD = nxt[len(R) + 2:-1]
            if OLD is None:
                res.bad("C15.R7", site(f, "grow"), "after realloc next_out is %s, not (new buffer + old size)" % nxt, f.loc(e.node), p.describe(f))
                continue
            if NEW in ("(%s*#2)" % OLD, "(#2*%s)" % OLD):
                room = OLD
            elif NEW.startswith("(" + OLD + "+") and NEW.endswith(")"):
                room = NEW[len(OLD) + 2:-1]
            elif APE.split_off(("s", NEW))[0] == APE.split_off(("s", OLD))[0]:
                room = "#%d" % (APE.split_off(("s", NEW))[1] - APE.split_off(("s", OLD))[1])
            else:
                raise BrokenAnalysis("_mtbl_decompress_zlib: growth %s of %s not recognised" % (NEW, OLD))
            res.check(avail == room, "C15.R7", site(f, "grow"),
                      "inflate continues at the old end with avail_out = the bytes that were added",
                      "the buffer grows from %s to %s bytes but inflate is told %s bytes are free at offset %s: it writes past the allocation" % (OLD, NEW, avail, OLD),
                      f.loc(e.node), p.describe(f))
    if n == 0:
        raise BrokenAnalysis("_mtbl_decompress_zlib: growth step not recognised")
    # R8: realloc(p, 0) frees and returns NULL, which my_realloc turns into an abort: every realloc size must be provably positive
    def positive(v):
        v = v.strip()
        if re.match(r"^#\d+$", v):
            return int(v[1:]) > 0
        if v.startswith("(") and v.endswith(")"):
            inner = v[1:-1]
            depth = 0
            for i_, ch in enumerate(inner):
                if ch == "(":
                    depth += 1
                elif ch == ")":
                    depth -= 1
                elif depth == 0 and ch in "+*":
                    a_, b_ = inner[:i_], inner[i_ + 1:]
                    if ch == "+":
                        return positive(a_) or positive(b_)
                    return positive(a_) and positive(b_)
        return False
    for g in prog.unit_funcs(U):
        if not g.file.endswith("compression.c") or not g.calls(("my_realloc", "realloc")):
            continue
        evg = APE.run(prog, cg, g, bound=APE.BOUND, opaque_calls=("my_realloc",))
        for p in evg.paths:
            for e in p.events:
                if e.kind == "call" and e.a in ("my_realloc", "realloc"):
                    sz = APE.vstr(e.b[1])
                    res.check(positive(sz), "C15.R8", site(g, "realloc-size-positive"),
                              "reallocation size is provably positive (realloc(p, 0) returns NULL and the wrapper aborts)",
                              "realloc is called with size %s, which can be 0 (e.g. an empty decompressed buffer): realloc(p,0) returns NULL and my_realloc aborts"
                              % sz[:80], g.loc(e.node), p.describe(g))
    res.floor("C15.R8", 1)


def _alloc_wrappers(ctx, res):
    """C15.R9: an empty buffer is a legal input and output (mtbl_decompress of an empty block asks for 0 bytes): the
    project's allocation wrappers must pass every size, 0 included, to the C library and fail only when it returns
    NULL.  Decided by interpreting the wrappers' bodies over the allocator model (mtblcheck/memmodel.py)."""
    from mtblcheck import memmodel as M
    from mtblcheck import bits as B
    prog = ctx.prog
    U = "mtbl/compression.c"
    res.floor("C15.R9", 3)
    cases = {"my_malloc": [(0,), (1,), (4096,), ((1 << 33) + 5,)],
             "my_calloc": [(1, 0), (0, 8), (1, 24), (3, 1 << 32)],
             "my_realloc": [("null", 1), ("null", 4096), ("old", 1), ("old", (1 << 33) + 5)]}
    for name, argsets in cases.items():
        f = prog.func(name, U) or prog.func(name)
        if f is None or f.body is None:
            raise BrokenAnalysis("allocation wrapper %s has no body in the program" % name)
        res.saw(f)
        problems = []
        for args in argsets:
            I = M.MemInterp(prog, f.unit)
            st = I.new_state()
            want = args[0] * args[1] if name == "my_calloc" else args[-1]
            a = list(args)
            if name == "my_realloc":
                if a[0] == "null":
                    a[0] = B.Ptr(None, 0)
                else:
                    h = st.ext["heap"]
                    h.allocs[0] = [16, True, True]
                    h.next = 1
                    a[0] = B.Ptr(("A", 0), 0)
            try:
                out = I.call(st, f, a)
            except M.MemFault as e:
                problems.append("%s%r: %s" % (name, tuple(x if isinstance(x, int) else "p" for x in args), e))
                continue
            for s2, r in out:
                al = s2.ext["heap"].allocs.get(r.base[1]) if isinstance(r, B.Ptr) and isinstance(r.base, tuple) and r.base and r.base[0] == "A" else None
                if al is None or not al[1] or al[0] < want:
                    problems.append("%s%r returns %r (%s), not a live allocation of at least %d bytes" % (name, tuple(x if isinstance(x, int) else "p" for x in args), r, al, want))
        res.check(not problems, "C15.R9", site(f, "passes-every-size"), "every request (0 bytes, 1 byte, more than 2^32 bytes) reaches the allocator with its size and comes back",
                  "; ".join(problems[:2]) + ": a zero-length buffer (a legal input of mtbl_compress/mtbl_decompress) or a large one cannot be allocated", f.loc(f.body))
