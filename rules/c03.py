"""C03 - reader iterators: seek then next yields the first entry >= target, from any state.

R1 cached-block identity (typestate on two coupled fields): if reader_iter_seek contains a
   reuse decision (skip reloading when a cached offset field equals the offset just read from
   the index), then wherever a freshly loaded block is stored into the iterator the cached
   offset field is stored too, from the offset that selected that block.
R2 flag paths of reader_iter_seek / reader_iter_next (valid / first).
R3 needs_index_seek decision table.
R4 in-block seek from the current position (T-cmp rows 8, 10) - shared with C02.R4.
R5 dispatch wiring (rules/dispatch.py): the mtbl_iter / mtbl_source function tables are registered, called (own closure, own slot, parameters forwarded in order) and filled at every construction site without cross-wiring slots of equal signature.
"""
import re
from .common import *
from . import blockseek

EXPLANATION = ("static typestate and decision-table rules: coupling of the cached block offset to every block load in reader.c "
               "(conditional on the reuse decision existing), abstract path evaluation of the seek/next flag handling and of "
               "needs_index_seek against its table, accept sets of the in-block seek comparison sites; see DESIGN 3 C03")
DESIGN_REF = "DESIGN.md section 3, C03"
U = "mtbl/reader.c"


def find_reuse_decision(prog, f):
    """(field, local) of a branch `it->FIELD != local` that guards a block reload."""
    for B in cond_blocks(f):
        c = strip(B.cond)
        if c["k"] != "BinaryOperator" or c.get("op") not in ("==", "!="):
            continue
        l, r = strip(c["kids"][0]), strip(c["kids"][1])
        for x, y in ((l, r), (r, l)):
            if x["k"] == "MemberExpr" and x.get("rec") == "reader_iter" and y["k"] == "DeclRefExpr" and y.get("dk") == "local":
                # one side reloads, the other does not
                i_reload = 0 if c["op"] == "!=" else 1
                a = CFG.reachable_from(f, B.succs[i_reload]) if B.succs[i_reload] is not None else set()
                b = CFG.reachable_from(f, B.succs[1 - i_reload]) if B.succs[1 - i_reload] is not None else set()
                only = a - b
                for bid in only:
                    for rt in f.blocks[bid].roots:
                        for n in walk(rt):
                            if n["k"] == "CallExpr" and n.get("t") == "struct block *":
                                return x["field"], y["name"], B
    return None


def run(ctx, res):
    prog, cg = ctx.prog, ctx.cg
    mres = prog.enums["mtbl_res"]
    OKV, FAILV = mres["mtbl_res_success"], mres["mtbl_res_failure"]
    seek = prog.need("reader_iter_seek", U)
    nxt = prog.need("reader_iter_next", U)
    res.saw(seek)
    res.saw(nxt)

    # ---- R1 -------------------------------------------------------------------
    rd = find_reuse_decision(prog, seek)
    if rd is None:
        res.ok("C03.R1", site(seek, "reuse-decision"), "no block-reuse decision in reader_iter_seek: nothing to keep coherent")
    else:
        fld, loc, RB = rd
        res.floor("C03.R1", 4)
        res.tables["C03.R1.cache_field"] = fld
        # Decided at the functions the reader installs (the four source slots and the iterator's seek / next), on their paths
        # with the file's internal functions evaluated as part of them, except the leaf block loaders (static functions
        # returning a block that call no other such function), which stay calls: whenever such a path ends with a block
        # in the iterator that was loaded on the path, the cached offset holds, at the end, the offset that block was
        # loaded from - stored directly, through an out-parameter, or because the block was loaded *from* the field.
        entries = []
        for i_ in range(4):
            entries += [n_ for n_ in cg.param_funcs.get(("mtbl_source_init", i_), ()) if prog.func(n_, U) is not None and prog.func(n_, U).file.endswith("reader.c")]
        for i_ in range(3):
            entries += [n_ for n_ in cg.param_funcs.get(("mtbl_iter_init", i_), ()) if prog.func(n_, U) is not None and prog.func(n_, U).file.endswith("reader.c")]
        entries = sorted(set(entries))
        loaders = [g for g in prog.unit_funcs(U, helpers=True) if g.file.endswith("reader.c") and g.d.get("static")
                   and (g.d.get("cret") or g.d.get("ret") or "").replace(" ", "") == "structblock*"]
        names = set(g.name for g in loaders)
        leaf = [g.name for g in loaders if not any(c.get("callee") in names and c.get("callee") != g.name for c in g.calls())]
        if not leaf:
            raise BrokenAnalysis("no block-loading function (static, returning struct block *) found in reader.c")
        res.tables["C03.R1.loaders"] = sorted(leaf)
        nloads = 0
        for fn in entries:
            g = prog.func(fn, U)
            res.saw(g)
            ev = APE.run(prog, cg, g, bound=APE.BOUND, inline=("*static",), opaque_calls=tuple(leaf))
            bad_path, why, npaths = None, None, 0
            for p in ev.paths:
                if p.end != "exit":
                    continue
                evs = [e for e in p.events if e.kind != "branch"]
                stores_b = [(i, e) for i, e in enumerate(evs) if e.kind == "store" and re.sub(r"@\d+", "", e.a).endswith("->b")]
                if not stores_b:
                    continue
                i_b, e_b = stores_b[-1]
                le = [(i, e) for i, e in enumerate(evs) if e.kind == "call" and e.a in leaf and e.c == e_b.b]
                if not le:
                    continue          # the last value stored is not a freshly loaded block (NULL, or moved)
                obj = re.sub(r"@\d+", "", e_b.a)[:-3]
                objval = next((x.b for x in reversed(evs) if x.kind == "store" and x.a == obj), ("s", obj))
                if any(e.kind == "call" and e.a in ("free", "my_free") and e.b and e.b[0] == objval for e in evs[i_b:]):
                    continue          # the iterator itself is freed on this path
                npaths += 1
                i_l, e_l = le[-1]
                gl = prog.func(e_l.a, U)
                offs = [e_l.b[i] for i, prm in enumerate(gl.params) if i < len(e_l.b) and
                        (prm.get("ct") or prm.get("t") or "") in ("unsigned long", "uint64_t", "unsigned long long", "size_t")]
                if len(offs) != 1:
                    raise BrokenAnalysis("block loader %s: the offset parameter is not recognised" % e_l.a)
                O = offs[0]
                st_f = [(i, e) for i, e in enumerate(evs) if e.kind == "store" and re.sub(r"@\d+", "", e.a) == obj + "->" + fld]
                if st_f:
                    coupled = st_f[-1][1].b == O
                else:
                    # loaded from the field itself, and the field is not touched afterwards
                    coupled = strip_tags(APE.vstr(O)) == obj + "->" + fld
                if not coupled:
                    bad_path = p
                    why = "block loaded from %s, `%s` holds %s" % (APE.vstr(O)[:60], fld, APE.vstr(st_f[-1][1].b)[:60] if st_f else "its old value")
                    break
            if npaths == 0:
                continue
            nloads += 1
            res.check(bad_path is None, "C03.R1", site(g, "it->b:=block"),
                      "the cached offset `%s` is the offset of the block the iterator holds on every path that loads one" % fld,
                      "a freshly loaded block is stored into the iterator while the cached offset `%s` does not hold the offset it was loaded from (%s); "
                      "reader_iter_seek then skips the reload when the index yields that stale offset and answers from the "
                      "wrong block" % (fld, why), g.loc(g.body), bad_path.describe(g) if bad_path else None)
        if nloads < 4:
            raise BrokenAnalysis("entry points of reader.c that load a block into an iterator: %d found, 6 confirmed by hand" % nloads)

    # ---- R2 flags --------------------------------------------------------------------
    res.floor("C03.R2", 6)
    ev = APE.run(prog, cg, seek, bound=APE.BOUND)
    for p in ev.paths:
        if p.end != "exit":
            continue
        evs = [e for e in p.events if e.kind != "branch"]
        r = p.ret()
        # by value: the iterators and flags are recognised through what reaches the calls and stores, whoever makes them
        gets = [e for e in evs if e.kind == "call" and e.a == "block_iter_get" and e.b and strip_tags(APE.vstr(e.b[0])).endswith("->index_iter")]
        exhausted = None
        for g_ in gets:
            c = p.cons.get((APE.vstr(g_.c), "#0"))
            if c is not None:
                exhausted = c == frozenset((EQ,))

        def truth(v):
            if v is None:
                return None
            if v[0] == "c":
                return v[1] != 0
            c_ = p.cons.get((APE.vstr(v), "#0"))
            if c_ is None:
                return None
            return False if c_ == frozenset((EQ,)) else (True if EQ not in c_ else None)
        vs = [e for e in evs if e.kind == "store" and strip_tags(e.a).endswith("->valid")]
        fs = [e for e in evs if e.kind == "store" and strip_tags(e.a).endswith("->first")]
        bs = [e for i_, e in enumerate(evs) if e.kind == "call" and e.a == "block_iter_seek" and e.b and held_in(evs, i_, e.b[0], "bi")]
        if exhausted:
            res.check(r == ("c", OKV) and bool(vs) and truth(vs[-1].b) is False and not bs, "C03.R2", site(seek, "past-the-end"),
                      "seek past the last key: valid := false, success, no block touched",
                      "seek past the end does not simply mark the iterator invalid", seek.loc(seek.body), p.describe(seek))
        elif r == ("c", OKV):
            good = vs and truth(vs[-1].b) is True and fs and truth(fs[-1].b) is True and len(bs) == 1 and \
                bs[0].b[1] == ("s", seek.params[1]["name"]) and bs[0].b[2] == ("s", seek.params[2]["name"])
            res.check(good, "C03.R2", site(seek, "positioned"),
                      "successful seek: in-block seek with the target, then first := true and valid := true",
                      "a successful seek does not end with first=true, valid=true after seeking the block iterator to the target",
                      seek.loc(seek.body), p.describe(seek))
    ev = APE.run(prog, cg, nxt, bound=APE.BOUND)
    n_inv = 0
    for p in ev.paths:
        if p.end != "exit":
            continue
        evs = [e for e in p.events if e.kind != "branch"]
        valid0 = None
        first0 = None
        for (a, b), v in p.cons.items():
            if re.match(r"^it->valid@0$", a) and b == "#0":
                valid0 = v
            if re.match(r"^it->first@\d+$", a) and b == "#0":
                first0 = v
        if valid0 == frozenset((EQ,)):
            n_inv += 1
            extra = [e for e in evs if e.kind == "call" or (e.kind == "store" and not e.a.isidentifier())]
            res.check(p.ret() == ("c", FAILV) and not extra, "C03.R2", site(nxt, "invalid-is-sticky"),
                      "next on an invalid iterator returns failure and touches nothing",
                      "next on an invalid iterator does more than return failure: %s" % [repr(e) for e in extra][:4], nxt.loc(nxt.body), p.describe(nxt))
            continue
        adv = [e for e in evs if e.kind == "call" and e.a == "block_iter_next" and canon(call_args(e.node)[0]).endswith("->bi")]
        g0 = [e for e in evs if e.kind == "call" and e.a == "block_iter_get"]
        before = [e for e in adv if g0 and evs.index(e) < evs.index(g0[0])]
        if first0 is None:
            res.bad("C03.R2", site(nxt, "advance-conditional-on-first"),
                    "whether next advances the block iterator does not depend on `first` (it advances %d times)" % len(before),
                    nxt.loc(nxt.body), p.describe(nxt))
        if first0 is not None:
            if first0 == frozenset((EQ,)):
                res.check(len(before) == 1, "C03.R2", site(nxt, "advance-when-not-first"), "not first: the block iterator advances once before the entry is read",
                          "the block iterator advances %d times on a non-first next" % len(before), nxt.loc(nxt.body), p.describe(nxt))
            else:
                res.check(len(before) == 0, "C03.R2", site(nxt, "no-advance-when-first"), "first after seek: entry under the cursor is returned without advancing",
                          "next after a seek advances before returning", nxt.loc(nxt.body), p.describe(nxt))
        fst = [e for e in evs if e.kind == "store" and e.a.endswith("->first")]
        res.check((bool(fst) and fst[-1].b == ("c", 0)) or (not fst and first0 == frozenset((EQ,))), "C03.R2", site(nxt, "first:=false"), "next leaves first cleared",
                  "next leaves first set", nxt.loc(nxt.body), p.describe(nxt))
        # the value of valid decides the result
        r = p.ret()
        vstores = [e for e in evs if e.kind == "store" and e.a.endswith("->valid")]
        if r == ("c", OKV):
            res.check(not vstores or vstores[-1].b != ("c", 0), "C03.R2", site(nxt, "success-implies-valid"), "success only while valid",
                      "success returned after valid was cleared", None, p.describe(nxt))
    if n_inv == 0:
        res.bad("C03.R2", site(nxt, "invalid-is-sticky"), "next does not test `valid` first", nxt.loc(nxt.body))

    # ---- R3 the index iterator may stay where it is only when the table's six conditions are all false ------------
    # Decided on the paths of reader_iter_seek itself, with the decision helper (if there is one) evaluated as part of
    # it: a path that does NOT re-seek the index iterator must have established, by tests on that very path,
    #   !first, a block is loaded, the block iterator has an entry whose key <= target,
    #   the index iterator has an entry whose key >= target.
    # Re-seeking the index more often than necessary is always correct (it is a fresh lower-bound search), so nothing is
    # demanded of the paths that do seek.
    res.floor("C03.R3", 3)
    KEY, KLEN = ("s", seek.params[1]["name"]), ("s", seek.params[2]["name"])
    evk = APE.run(prog, cg, seek, bound=APE.BOUND, inline=("needs_index_seek",))
    n_keep = n_seek = 0
    for p in evk.paths:
        if p.end != "exit":
            continue
        evs = [e for e in p.events if e.kind == "call"]
        iseek = [e for e in evs if e.a == "block_iter_seek" and e.b and strip_tags(APE.vstr(e.b[0])).endswith("->index_iter")]
        if iseek:
            n_seek += 1
            res.check(iseek[0].b[1:3] == [KEY, KLEN] or tuple(iseek[0].b[1:3]) == (KEY, KLEN), "C03.R3", site(seek, "index-seek:target"),
                      "the index iterator is re-positioned at the target key",
                      "the index iterator is re-positioned at (%s,%s), not at the target" % tuple(APE.vstr(x) for x in iseek[0].b[1:3]),
                      seek.loc(iseek[0].node), p.describe(seek))
            continue
        n_keep += 1
        est = {"first": False, "block": False, "bi": False, "index": False}
        for (a_, b_), v in p.cons.items():
            if re.match(r"^\w+->first@\d+$", a_) and b_ == "#0" and v <= frozenset((EQ,)):
                est["first"] = True
            if re.match(r"^\w+->b@\d+$", a_) and b_ == "#0" and EQ not in v:
                est["block"] = True
        for e in evs:
            if e.a != "block_iter_get" or not e.b:
                continue
            a0 = strip_tags(APE.vstr(e.b[0]))
            which = "bi" if a0.endswith("->bi") else "index" if a0.endswith("->index_iter") else None
            if which is None:
                continue
            c_ = p.cons.get((APE.vstr(e.c), "#0"))
            if c_ is None or EQ in c_:
                continue      # not established that this iterator has an entry
            for e2 in evs:
                if e2.a != "bytes_compare" or len(e2.b) != 4:
                    continue
                cc = p.cons.get((APE.vstr(e2.c), "#0"))
                if cc is None:
                    continue
                if (e2.b[0], e2.b[1]) == (e.outs.get(1), e.outs.get(2)) and (e2.b[2], e2.b[3]) == (KEY, KLEN):
                    sgn = cc
                elif (e2.b[2], e2.b[3]) == (e.outs.get(1), e.outs.get(2)) and (e2.b[0], e2.b[1]) == (KEY, KLEN):
                    sgn = APE.mirror(cc)
                else:
                    continue
                # sgn = possible signs of (entry key ? target)
                if which == "bi" and GT not in sgn:
                    est["bi"] = True
                if which == "index" and LT not in sgn:
                    est["index"] = True
        missing = [k for k, v in est.items() if not v]
        tag = "keep-index-position"
        res.check(not missing, "C03.R3", site(seek, tag),
                  "index iterator kept only with: not first, block loaded, current key <= target, current index key >= target - all tested on the path",
                  "reader_iter_seek keeps the index iterator where it is although the path has not established %s: the target may lie in "
                  "another block" % ", ".join({"first": "that this is not the first use", "block": "that a block is loaded",
                                               "bi": "that the current key is <= the target", "index": "that the current index key is >= the target"}[m] for m in missing),
                  seek.loc(seek.body), p.describe(seek))
    if n_seek == 0:
        res.bad("C03.R3", site(seek, "index-seek"), "no path of reader_iter_seek re-positions the index iterator", seek.loc(seek.body))
    res.tables["C03.R3.paths"] = {"keep": n_keep, "seek": n_seek}

    # exhaustion state: the seek shortcut (start_ri == left) relies on an exhausted iterator having restart_index == num_restarts
    for fn in ("parse_next_key", "block_iter_prev"):
        g = prog.need(fn, "mtbl/block.c")
        res.saw(g)
        evx = APE.run(prog, cg, g, bound=APE.BOUND)
        seen = 0
        for p in evx.paths:
            if p.end != "exit":
                continue
            st = {}
            for e in p.events:
                if e.kind == "store" and e.a.startswith("bi->"):
                    st[re.sub(r"@\d+", "", e.a)] = re.sub(r"@\d+", "", APE.vstr(e.b))
            if st.get("bi->current") == "bi->restarts":
                seen += 1
                res.check(st.get("bi->restart_index") == "bi->num_restarts", "C03.R4", site(g, "exhausted-state"),
                          "an exhausted block iterator has current = restarts and restart_index = num_restarts",
                          "%s marks the iterator exhausted (current := restarts) but leaves restart_index at a live run: a following seek to the stale last key "
                          "takes the current-entry shortcut and stays exhausted" % fn, g.loc(g.body), p.describe(g))
        if seen == 0:
            raise BrokenAnalysis("%s: exhaustion path not recognised" % fn)

    # ---- R4 ----------------------------------------------------------------------------------
    blockseek.check(ctx, res, "C03.R4s", "C03.R4")
    res.floor("C03.R4", 3)


    # ---- dispatch wiring --------------------------------------------------------------------------
    from . import dispatch
    dispatch.check(ctx, res, "C03.R5")

    # ---- properties this one rests on (re-run here, labelled <this>.D.<rule>) ------------------
    depends(ctx, res, 'C09', ('C09.R6',), 'seeks are routed by the index keys the separator function produces')

def _callee_couples(prog, cg, callee, pidx):
    """In `callee`, every path that loads a block with offset X also stores X through parameter pidx."""
    ev = APE.run(prog, cg, callee, bound=APE.BOUND)
    pname = callee.params[pidx]["name"]
    found = False
    for p in ev.paths:
        if p.end != "exit":
            continue
        evs = [e for e in p.events if e.kind != "branch"]
        loads = [e for e in evs if e.kind == "call" and strip(e.node).get("t") == "struct block *"]
        for le in loads:
            off = None
            for i, a in enumerate(call_args(le.node)):
                t = strip(a).get("ct", strip(a).get("t", ""))
                if t in ("unsigned long", "uint64_t", "unsigned long long", "size_t"):
                    off = le.b[i]
            st = [e for e in evs if e.kind == "store" and e.a == "*" + pname and e.b == off]
            if not st:
                return False
            found = True
    return found

