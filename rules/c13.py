"""C13 - pooled writers and sorters: same result under every interleaving, no hangs.

R1 condition-variable discipline: every wait sits in a loop over its predicate with the mutex
   in the must-lockset; every store to a predicate field holds the mutex and is followed by a
   signal/broadcast on the condvar before the mutex is released, unless T-cv lists it as
   non-enabling.
R2 lock pairing on every path, acyclic nesting of lock classes, no join while holding a lock
   class the joined thread may take.
R3 join before use of handler-written state (caller role), with the no-pool edge and the
   verified joined-flag as the only excuses.
R4 ordered dispatch at the writer; one result thread per handler.
R5 bounded worker creation.   R6 exactly one delivery per result.
R7 thread exits.              R8 queue tail discipline.
R10 completion route: a worker reports an ordered job by signalling its own condition variable and an unordered job
    by queueing itself - the field it decides that by holds, for every job, what THIS dispatch asked for.
R9 no nested use of a pool from inside a pool job: code reachable from a work function or a result
   callback never gives a (non-NULL) pool to a writer or sorter it creates - a job that waits for a
   slot of the pool it occupies hangs as soon as all slots hold such jobs.
"""
import re
from .common import *
from mtblcheck import effects as FX
from mtblcheck.facts import is_null

EXPLANATION = ("static lockset / typestate / effect rules over mtbl/threadpool.c and its two users: must-lockset dataflow, "
               "condition-variable predicate-store discipline against T-cv, lock pairing and class nesting, join-before-use of "
               "handler-written fields (role effect sets from the callback registries), path rules for dispatch, creation bound, "
               "delivery, exits and the result queue's tail pointer; see DESIGN 3 C13")
DESIGN_REF = "DESIGN.md section 3, C13"
TP = "mtbl/threadpool.c"

OBJECTS = {
    "mtbl_writer": {"unit": "mtbl/writer.c", "handler_field": "rhandler", "pool_field": "pool", "joined_flag": "closed"},
    "mtbl_sorter": {"unit": "mtbl/sorter.c", "handler_field": "rhandler", "pool_field": "pool", "joined_flag": None},
}


def run(ctx, res):
    prog, cg = ctx.prog, ctx.cg
    Tcv = ctx.spec("t_cv")
    Tl = ctx.spec("t_lock")
    funcs = prog.unit_funcs(TP)
    for f in funcs:
        res.saw(f)
    r1_cv(ctx, res, Tcv)
    r2_locks(ctx, res, Tl)
    r3_join(ctx, res)
    r4_r8(ctx, res)
    r9_nested(ctx, res)
    r10_route(ctx, res)


# ---------------------------------------------------------------------------------------------
    # ---- properties this one rests on (re-run here, labelled <this>.D.<rule>) ------------------
    depends(ctx, res, 'C14', None, 'the same result under every interleaving presupposes that jobs share no unsynchronised state')

def _loop_of(f, node):
    """The innermost While/Do/For statement enclosing node."""
    for a in f.ancestors(node):
        if a["k"] in ("WhileStmt", "DoStmt", "ForStmt"):
            return a
    return None


def _predicate_loop(f, w, rec):
    """(ok, predicate fields).  ok: the wait w lies on a CFG cycle and every path from it out of the cycle passes a
    conditional branch that re-reads fields of record `rec` (or a local assigned from one inside the cycle)."""
    from mtblcheck import cfg as CFG_
    B = f.block_of(w)
    if B is None:
        return False, set()
    loops = [body for h, body in CFG_.natural_loops(f).items() if B.id in body]
    if not loops:
        return False, set()
    body = min(loops, key=len)
    # locals assigned inside the cycle from the shared record
    via = {}
    for b in body:
        for r in f.blocks[b].roots:
            for n in walk(r):
                tgt, src = None, None
                if n["k"] == "BinaryOperator" and n.get("op") == "=" and strip(n["kids"][0])["k"] == "DeclRefExpr" \
                        and strip(n["kids"][0]).get("dk") == "local":
                    tgt, src = strip(n["kids"][0])["name"], n["kids"][1]
                elif n["k"] == "DeclStmt":
                    for d in n["decls"]:
                        if d.get("init") is not None:
                            flds = set((x.get("rec"), x["field"]) for x in walk(d["init"]) if x["k"] == "MemberExpr" and x.get("rec") == rec)
                            if flds:
                                via.setdefault(d["name"], set()).update(flds)
                if tgt is not None:
                    flds = set((x.get("rec"), x["field"]) for x in walk(src) if x["k"] == "MemberExpr" and x.get("rec") == rec)
                    if flds:
                        via.setdefault(tgt, set()).update(flds)

    def cond_fields(b):
        Bk = f.blocks[b]
        if Bk.cond is None or len([s for s in Bk.succs if s is not None]) < 2:
            return set()
        out = set()
        for x in walk(Bk.cond):
            if x["k"] == "MemberExpr" and x.get("rec") == rec and x["field"] not in ("m", "c"):
                out.add((x.get("rec"), x["field"]))
            if x["k"] == "DeclRefExpr" and x.get("dk") == "local" and x["name"] in via:
                out |= via[x["name"]]
        return out

    fields = set()
    for b in body:
        fields |= cond_fields(b)
    # the wait's own block ends in such a branch (the wait precedes the terminator): every way on passes it
    if cond_fields(B.id):
        return True, fields
    seen, stack = set(), [s for s in B.succs if s is not None]
    while stack:
        b = stack.pop()
        if b in seen:
            continue
        seen.add(b)
        if b not in body:
            return False, fields       # left the cycle without re-reading the shared state
        if cond_fields(b):
            continue
        if b == B.id:
            continue
        stack.extend(s for s in f.blocks[b].succs if s is not None)
    return True, fields


def r1_cv(ctx, res, Tcv):
    prog, cg = ctx.prog, ctx.cg
    res.floor("C13.R1", 12)
    cvs = {}
    for row in Tcv["condvars"]:
        rec, fld = row["cv"].split(".")
        cvs[(rec, fld)] = row
    waits = all_calls(prog, FX.WAIT, units=prog.lib_units)
    if len(waits) < Tcv["floor"]["wait_sites"]:
        raise BrokenAnalysis("pthread_cond_wait sites: %d found, %d confirmed by hand" % (len(waits), Tcv["floor"]["wait_sites"]))
    preds = {}   # cv class -> set of (rec, field)
    for f, w in waits:
        a = call_args(w)
        cvc, mc = FX.lock_class(a[0]), FX.lock_class(a[1])
        at, _ = FX.must_locksets(f)
        held = at.get(w["id"], frozenset())
        sig = site(f, "wait(%s.%s)" % cvc)
        res.check((mc, FX.lock_obj(a[1])) in held, "C13.R1", sig + ":mutex-held", "mutex %s.%s held at the wait" % mc,
                  "pthread_cond_wait is reached without its mutex in the must-lockset", f.loc(w))
        row = cvs.get(cvc)
        if row is None:
            res.bad("C13.R1", sig, "condition variable %s.%s is not in the table" % cvc, f.loc(w))
            continue
        res.check(row["mutex"] == "%s.%s" % mc and FX.lock_obj(a[0]) == FX.lock_obj(a[1]), "C13.R1", sig + ":pairing",
                  "waits with its own mutex %s" % row["mutex"], "condvar %s.%s waited with mutex %s.%s of %s" % (cvc + mc + (FX.lock_obj(a[1]),)), f.loc(w))
        # decided on the flow graph, not on the loop's syntax: the wait lies on a cycle, and no path leads from the wait out of
        # that cycle without first passing a branch that reads the shared state again (directly, or through a local that was
        # assigned from it inside the cycle)
        from mtblcheck.facts import real_site
        fw, ww = real_site(prog, f, w)
        inloop, pf = _predicate_loop(fw, ww, cvc[0])
        res.check(inloop, "C13.R1", sig + ":loop", "wait is re-checked in a loop over its predicate",
                  "pthread_cond_wait is not inside a predicate loop: a spurious or stolen wake-up proceeds with the predicate false", f.loc(w))
        if inloop:
            preds.setdefault(cvc, set()).update(pf)
    # predicate field table agrees
    for cvc, row in cvs.items():
        want = set(tuple(p.split(".")) for p in row["predicate_fields"])
        got = set(p for p in preds.get(cvc, set()) if p[1] not in ("m", "c"))
        res.check(got == want, "C13.R1", "cv:%s.%s:predicate-fields" % cvc, "predicate fields %s" % sorted(want),
                  "predicate fields read in the wait loops are %s, table has %s" % (sorted(got), sorted(want)))
    # stores to predicate fields
    field_cv = {}
    for cvc, row in cvs.items():
        for p in row["predicate_fields"]:
            field_cv[tuple(p.split("."))] = cvc
    listed = {}
    for cvc, row in cvs.items():
        for e in row["non_enabling"]:
            fld = re.split(r"[ :+\-]", e["store"].replace("*", ""))[0]
            for part in re.split(r",\s*", e["store"]):
                fld = re.split(r"[ :+\-]", part.strip().replace("*", ""))[0]
                listed[(e["function"], fld)] = listed.get((e["function"], fld), 0) + 1
    unsat = {}
    tgt_of = {}
    nstores = 0
    for f in prog.unit_funcs(TP):
        at, _ = FX.must_locksets(f)
        for n, lhs in stores_in(f):
            tgt = None
            if lhs["k"] == "MemberExpr" and (lhs.get("rec"), lhs["field"]) in field_cv:
                tgt = (lhs.get("rec"), lhs["field"])
                obj = canon(lhs["kids"][0])
            elif lhs["k"] == "UnaryOperator" and lhs.get("op") == "*":
                inner = strip(lhs["kids"][0])
                if inner["k"] == "MemberExpr" and (inner.get("rec"), inner["field"]) == ("resultq", "ptail"):
                    tgt = ("resultq", "head")      # alias: *ptail is head (empty queue) or the tail's next
                    obj = canon(inner["kids"][0])
            if tgt is None:
                continue
            nstores += 1
            cvc = field_cv[tgt]
            row = cvs[cvc]
            mrec, mfld = row["mutex"].split(".")
            held = at.get(n["id"], frozenset())
            has_lock = ((mrec, mfld), obj) in held
            signalled = has_lock and (_signal_before_unlock(f, n, cvc, (mrec, mfld), obj) or
                                      _signal_since_lock(f, n, cvc, (mrec, mfld), obj))
            key = (f.name, tgt[1])
            tgt_of[(f.name, n["id"])] = tgt
            if has_lock and signalled:
                res.ok("C13.R1", site(f, "store:%s.%s" % tgt), "under %s and signalled before unlock" % row["mutex"])
            else:
                unsat.setdefault(key, []).append((f, n, has_lock))
    def own_section(f, n, fld):
        """The store is made by a waiter of the condition variable itself, under the mutex, after its own wait in the same
        function (its helpers included): the consuming side of the hand-over, whichever function holds it now."""
        cvc = field_cv.get(fld)
        if cvc is None:
            return False
        for w in walk(f.body):
            if w.get("k") == "CallExpr" and w.get("callee") == FX.WAIT and FX.lock_class(call_args(w)[0]) == cvc and \
                    (w.get("line"), w.get("col", 0)) < (n.get("line"), n.get("col", 0)):
                return True
        return False
    for key, lst in unsat.items():
        allowed = listed.get(key, 0)
        for i, (f, n, has_lock) in enumerate(lst):
            if i < allowed:
                res.ok("C13.R1", site(f, "store:%s:listed" % key[1]), "non-enabling store listed in T-cv")
            elif has_lock and key not in listed and own_section(f, n, (tgt_of[(f.name, n["id"])] if (f.name, n["id"]) in tgt_of else None)):
                res.ok("C13.R1", site(f, "store:%s:waiter" % key[1]), "store by the waiter itself, under the mutex, after its own wait (the consuming side)")
            else:
                res.bad("C13.R1", site(f, "store:%s" % key[1]),
                        "store to wait-predicate field `%s` %s: a thread waiting for this change is never woken (lost wake-up)" %
                        (key[1], "without the mutex held" if not has_lock else "is not followed by a signal/broadcast before the mutex is released"),
                        f.loc(n))
    if nstores < 10:
        raise BrokenAnalysis("stores to wait-predicate fields: %d found, at least 10 confirmed by hand" % nstores)


def _signal_before_unlock(f, store, cvc, mclass, obj):
    """On every path from the store to the unlock of the mutex there is a signal/broadcast on the condvar."""
    idx = CFG.block_index(f)
    bid, pos = idx[store["id"]]

    def scan(roots):
        for r in roots:
            for n in walk(r):
                if n["k"] == "CallExpr":
                    if n.get("callee") in ("pthread_cond_signal", "pthread_cond_broadcast"):
                        a = call_args(n)[0]
                        if FX.lock_class(a) == cvc and FX.lock_obj(a) == obj:
                            return "sig"
                    if n.get("callee") == FX.UNLOCK:
                        a = call_args(n)[0]
                        if FX.lock_class(a) == mclass and FX.lock_obj(a) == obj:
                            return "unlock"
        return None
    B = f.blocks[bid]
    # the rest of the store's own root element first: when the store sits in a helper that is analysed as part of this
    # function, the signal and the unlock may follow within the same element
    after = False
    for n in walk(B.roots[pos]):
        if n["id"] == store["id"]:
            after = True
            continue
        if after and n["k"] == "CallExpr":
            if n.get("callee") in ("pthread_cond_signal", "pthread_cond_broadcast"):
                a = call_args(n)[0]
                if FX.lock_class(a) == cvc and FX.lock_obj(a) == obj:
                    return True
            if n.get("callee") == FX.UNLOCK:
                a = call_args(n)[0]
                if FX.lock_class(a) == mclass and FX.lock_obj(a) == obj:
                    return False
    r = scan(B.roots[pos + 1:])
    if r is not None:
        return r == "sig"
    seen = set()
    stack = [s for s in B.succs if s is not None]
    while stack:
        b = stack.pop()
        if b in seen:
            continue
        seen.add(b)
        X = f.blocks[b]
        if X.noreturn:
            continue
        r = scan(X.roots)
        if r == "unlock":
            return False
        if r == "sig":
            continue
        if b == f.exit:
            return False
        stack.extend(s for s in X.succs if s is not None)
    return True


def _signal_since_lock(f, store, cvc, mclass, obj):
    """A signal on the condvar earlier in the same critical section (same mutex hold) on the
    straight-line chain leading to the store: the waiter cannot run before the unlock anyway."""
    idx = CFG.block_index(f)
    bid, pos = idx[store["id"]]
    B = f.blocks[bid]
    roots = list(B.roots[:pos])
    cur = B
    steps = 0
    while True:
        for r in reversed(roots):
            for n in walk(r):
                if n["k"] == "CallExpr":
                    if n.get("callee") in ("pthread_cond_signal", "pthread_cond_broadcast"):
                        a = call_args(n)[0]
                        if FX.lock_class(a) == cvc and FX.lock_obj(a) == obj:
                            return True
                    if n.get("callee") in (FX.LOCK, FX.UNLOCK, FX.WAIT):
                        return False
        if len(cur.preds) != 1 or steps > 6:
            return False
        cur = f.blocks[cur.preds[0]]
        roots = list(cur.roots)
        steps += 1


# ---------------------------------------------------------------------------------------------
def r2_locks(ctx, res, Tl):
    prog, cg = ctx.prog, ctx.cg
    res.floor("C13.R2", 8)
    locks = all_calls(prog, FX.LOCK, units=prog.lib_units)
    unlocks = all_calls(prog, FX.UNLOCK, units=prog.lib_units)
    if len(locks) < Tl["floor"]["lock_sites"] or len(unlocks) < Tl["floor"]["unlock_sites"]:
        raise BrokenAnalysis("lock/unlock sites %d/%d, %d/%d confirmed by hand" % (len(locks), len(unlocks), Tl["floor"]["lock_sites"], Tl["floor"]["unlock_sites"]))
    # may-acquire summaries
    acq = {}
    for f in prog.unit_funcs(TP):
        acq[f.name] = set(FX.lock_class(call_args(c)[0]) for c in f.calls(FX.LOCK))
    changed = True
    while changed:
        changed = False
        for f in prog.unit_funcs(TP):
            for c in f.calls():
                if c.get("callee") in acq and not acq[c["callee"]] <= acq[f.name]:
                    acq[f.name] |= acq[c["callee"]]
                    changed = True
    edges = set()
    thread_fn = {}    # (rec, field) of handle -> thread function
    for f, c in all_calls(prog, "pthread_create", units=prog.lib_units):
        a = call_args(c)
        h = FX.lock_class(a[0])
        fn = strip(a[2])
        thread_fn[h] = fn.get("name")
    for f in prog.unit_funcs(TP):
        at, out = FX.must_locksets(f)
        # pairing by path enumeration
        ev = APE.run(prog, cg, f, bound=APE.BOUND)
        badp = None
        for p in ev.paths:
            held = []
            for e in p.events:
                if e.kind != "call":
                    continue
                if e.a == FX.LOCK:
                    held.append((FX.lock_class(call_args(e.node)[0]), FX.lock_obj(call_args(e.node)[0])))
                elif e.a == FX.UNLOCK:
                    k = (FX.lock_class(call_args(e.node)[0]), FX.lock_obj(call_args(e.node)[0]))
                    if k in held:
                        held.remove(k)
                    else:
                        badp = (p, "unlock of %s.%s not held on this path" % k[0], e.node)
            if p.end == "exit" and held and badp is None:
                badp = (p, "mutex %s.%s still held at return" % held[0][0], p.events[-1].node)
        if f.calls(FX.LOCK) or f.calls(FX.UNLOCK):
            res.check(badp is None, "C13.R2", site(f, "pairing"), "every lock is released on every path to every exit",
                      badp[1] if badp else "", f.loc(badp[2]) if badp else None, badp[0].describe(f) if badp else None)
        for c in f.calls():
            held = at.get(c["id"], frozenset())
            hc = set(h[0] for h in held)
            if c.get("callee") == FX.LOCK:
                for h in hc:
                    edges.add((h, FX.lock_class(call_args(c)[0])))
            elif c.get("callee") in acq:
                for h in hc:
                    for a in acq[c["callee"]]:
                        edges.add((h, a))
            elif c.get("callee") == "pthread_join":
                h = FX.lock_class(call_args(c)[0]) or (strip(call_args(c)[0]).get("rec"), strip(call_args(c)[0]).get("field"))
                tf = thread_fn.get(h)
                may = acq.get(tf, set())
                clash = hc & may
                res.check(not clash, "C13.R2", site(f, "join(%s)" % tf), "join holds no lock class the joined thread takes",
                          "pthread_join of %s while holding %s, which that thread acquires: it can never finish" % (tf, sorted(clash)), f.loc(c))
    allowed = set(tuple(tuple(x.split(".")) for x in e) for e in Tl["nesting_allowed"])
    # acyclic
    cyc = [e for e in edges if (e[1], e[0]) in edges or e[0] == e[1]]
    res.check(not cyc, "C13.R2", "lock-order:acyclic", "nested acquisition graph %s is acyclic" % sorted("%s.%s->%s.%s" % (a + b) for a, b in edges),
              "lock classes are taken in both orders: %s" % sorted(cyc))
    for e in edges:
        res.check(e in allowed, "C13.R2", "lock-order:%s.%s->%s.%s" % (e[0] + e[1]), "nesting listed in T-lock",
                  "new nested acquisition %s.%s -> %s.%s (not in the table; check for an ordering cycle with the other threads)" % (e[0] + e[1]))


# ---------------------------------------------------------------------------------------------
def handler_fields(ctx, rec, unit):
    """Field chains the result-handler callbacks may touch on the object, with modes."""
    prog, cg = ctx.prog, ctx.cg
    # result callbacks (handler thread) and job callbacks (worker threads): both run concurrently with the caller
    cbs = cg.param_funcs.get(("result_handler_init", 0), set()) | cg.param_funcs.get(("threadpool_dispatch", 3), set())
    eff = {}
    for cb in sorted(cbs):
        k = cg.resolve(unit, cb)
        if k is None or k[0] != unit:
            continue
        for fk in cg.reachable([k]):
            if fk[0] != unit:
                continue
            for n, chain, mode in FX.accesses(cg.funcs[fk], rec, cg):
                eff.setdefault(chain, set()).add(mode)
    return eff


def r3_join(ctx, res):
    prog, cg = ctx.prog, ctx.cg
    res.floor("C13.R3", 6)
    for rec, info in OBJECTS.items():
        unit = info["unit"]
        H = handler_fields(ctx, rec, unit)
        if not H:
            raise BrokenAnalysis("no handler-role effects found for %s" % rec)
        res.tables["handler_effects:" + rec] = {".".join(k): "".join(sorted(v)) for k, v in H.items()}
        hw = set(k for k, v in H.items() if v & {"W", "D"})
        hr = set(H)
        handler_funcs = set()
        for cb in cg.param_funcs.get(("result_handler_init", 0), set()) | cg.param_funcs.get(("threadpool_dispatch", 3), set()):
            k = cg.resolve(unit, cb)
            if k and k[0] == unit:
                handler_funcs |= set(x[1] for x in cg.reachable([k]) if x[0] == unit)
        # functions that join on every path (summary)
        joiners = {"result_handler_destroy"}
        changed = True
        while changed:
            changed = False
            for g in prog.unit_funcs(unit, helpers=True):      # an extracted helper that joins makes its callers joiners
                if g.name in joiners:
                    continue
                dom = CFG.dominators(g)
                js = [c for c in g.calls(joiners) if g.block_of(c) is not None and g.block_of(c).id in dom.get(g.exit, ())]
                if js:
                    joiners.add(g.name)
                    changed = True
        # verified joined flag
        flag = info["joined_flag"]
        flag_ok = False
        if flag:
            setters = [(g, n) for g in prog.unit_funcs(unit) for n, lhs in field_stores(g, rec, flag) if const_val(n["kids"][1]) != 0]
            flag_ok = bool(setters) and all(dominated_by_call(g, n, joiners) for g, n in setters)
            res.check(flag_ok, "C13.R3", "%s.%s:joined-flag" % (rec, flag), "`%s` is set only after the join" % flag,
                      "`%s` is set before the result handler is joined: the already-closed path would be treated as joined" % flag)
        # context of each function: called only in a safe state?
        callers_ctx = {}
        results = {}
        order = [g for g in prog.unit_funcs(unit) if g.name not in handler_funcs or True]
        safe_entry = {}
        for _round in range(4):
            for g in order:
                if not FX.object_bases(g, rec):
                    continue
                st_at = _safe_states(ctx, g, rec, info, joiners, flag if flag_ok else None, safe_entry.get(g.name, False))
                results[g.name] = st_at
                for c in g.calls():
                    if c.get("callee") and FX.passes_object(g, rec, c) and cg.resolve(unit, c["callee"]) and cg.resolve(unit, c["callee"])[0] == unit:
                        callers_ctx.setdefault(c["callee"], []).append(st_at.get(c["id"], False))
            new = {k: all(v) for k, v in callers_ctx.items()}
            callers_ctx = {}
            if new == safe_entry:
                break
            safe_entry = new
        # fork point: accesses in the constructor before result_handler_init are pre-fork
        for g in order:
            if g.name in handler_funcs and g.name not in ("_mtbl_writer_write_data_block", "_mtbl_writer_write_block"):
                pass
            st_at = results.get(g.name)
            if st_at is None:
                continue
            # functions only reachable from the handler/worker callbacks are judged in their role, not here
            api_reach = _reachable_from_api(ctx, unit, handler_funcs)
            if g.name not in api_reach:
                continue
            forks = g.calls("result_handler_init")
            dom = CFG.dominators(g) if forks else None
            idx = CFG.block_index(g) if forks else None
            for n, chain, mode in FX.accesses(g, rec, cg):
                conflict = (chain in hw) or (chain in hr and mode in ("W", "D"))
                # prefix conflicts: handler writes m.count_data_blocks, caller writes whole m ...
                if not conflict:
                    continue
                if forks and not dominated_by_call(g, n, {"result_handler_init"}, dom, idx):
                    res.ok("C13.R3", site(g, "%s:pre-fork" % ".".join(chain)), "before the handler thread exists")
                    continue
                safe = st_at.get(n["id"], False)
                res.check(safe, "C13.R3", site(g, "%s.%s[%s]" % (rec, ".".join(chain), mode)),
                          "access to handler-written state after the join / without a pool",
                          "`%s` is %s by %s while the result-handler thread, which %s it, may still be running (no join dominates this access): "
                          "a job in flight races with it" % (".".join(chain), {"R": "read", "W": "written", "D": "modified/freed"}[mode], g.name,
                                                             "writes" if chain in hw else "reads"), g.loc(n))


def _reachable_from_api(ctx, unit, handler_funcs):
    prog, cg = ctx.prog, ctx.cg
    cache = ctx.__dict__.setdefault("_api_reach", {})
    if unit in cache:
        return cache[unit]
    roots = [(unit, g.name) for g in prog.unit_funcs(unit) if not g.static and g.file.endswith(unit.split("/")[-1])]
    names = set()
    stack = list(roots)
    seen = set()
    while stack:
        k = stack.pop()
        if k in seen or k not in cg.funcs:
            continue
        seen.add(k)
        names.add(k[1])
        for t in cg.sum[k].callees:
            if t != "USER" and t[0] == unit:
                # do not follow registrations (callbacks are not called, only passed)
                stack.append(t)
    # direct calls only: callbacks registered through result_handler_init/threadpool_dispatch are reached
    # only if somebody calls them directly
    direct = set()
    stack = list(roots)
    seen = set()
    while stack:
        k = stack.pop()
        if k in seen or k not in cg.funcs:
            continue
        seen.add(k)
        direct.add(k[1])
        f = cg.funcs[k]
        for c in f.calls():
            if c.get("callee"):
                t = cg.resolve(unit, c["callee"])
                if t and t[0] == unit:
                    stack.append(t)
    cache[unit] = direct
    return direct


def _safe_states(ctx, g, rec, info, joiners, flag, entry_safe):
    """node id -> True if at that point the handler thread cannot run (joined, no pool, or flag says joined)."""
    prog, cg = ctx.prog, ctx.cg
    bases = FX.object_bases(g, rec)

    def obj_field(e, field):
        e = strip(e)
        return e["k"] == "MemberExpr" and e["field"] == field and e.get("rec") == rec

    def apply_root(r, st):
        for n in walk(r):
            if n["k"] == "CallExpr" and n.get("callee") in joiners:
                if n["callee"] == "result_handler_destroy":
                    a = strip(call_args(n)[0])
                    if a["k"] == "UnaryOperator" and obj_field(a["kids"][0], info["handler_field"]):
                        st = True
                elif FX.passes_object(g, rec, n):
                    st = True
        return st

    def transfer(B, st):
        for r in B.roots:
            st = apply_root(r, st)
        return st

    def edge(B, i, st):
        if B.cond is None or len(B.succs) != 2:
            return st
        c = strip(B.cond)
        neg = False
        while c["k"] == "UnaryOperator" and c.get("op") == "!":
            neg = not neg
            c = strip(c["kids"][0])
        fld = None
        truth_when_true = True
        if c["k"] == "BinaryOperator" and c.get("op") in ("==", "!="):
            l, r = strip(c["kids"][0]), strip(c["kids"][1])
            if (r.get("null") or const_val(r) == 0) and l["k"] == "MemberExpr":
                fld = l
                truth_when_true = c["op"] == "!="
        elif c["k"] == "MemberExpr":
            fld = c
        if fld is None or fld.get("rec") != rec:
            return st
        if neg:
            truth_when_true = not truth_when_true
        nonnull_on_edge = truth_when_true if i == 0 else not truth_when_true
        if fld["field"] == info["pool_field"] and not nonnull_on_edge:
            return True          # no pool: no handler thread
        if flag and fld["field"] == flag and nonnull_on_edge:
            return True          # verified: flag set only after the join
        return st

    IN, OUT = CFG.forward(g, bool(entry_safe), transfer, lambda a, b: a and b, edge_transfer=edge)
    at = {}
    for bid, st in IN.items():
        B = g.blocks[bid]
        for r in B.roots:
            for n in walk(r):
                at.setdefault(n["id"], st)
            st = apply_root(r, st)
    return at


# ---------------------------------------------------------------------------------------------
def r4_r8(ctx, res):
    prog, cg = ctx.prog, ctx.cg
    # R4 ordered dispatch at the writer
    res.floor("C13.R4", 3)
    disp = all_calls(prog, "threadpool_dispatch", units=prog.lib_units)
    if len(disp) < 2:
        raise BrokenAnalysis("threadpool_dispatch call sites: %d found, 2 confirmed by hand" % len(disp))
    for f, c in disp:
        v = const_val(call_args(c)[2])
        if f.unit == "mtbl/writer.c":
            res.check(v == 1, "C13.R4", site(f, "dispatch:ordered"), "the writer requests ordered delivery (constant true)",
                      "the writer dispatches blocks with ordered=%s: blocks reach the file in completion order" % v, f.loc(c))
        else:
            res.check(v is not None, "C13.R4", site(f, "dispatch:ordered-const"), "ordering flag is a constant (%s)" % v, "ordering flag not constant", f.loc(c))
    rhi = prog.need("result_handler_init", TP)
    pcs = rhi.calls("pthread_create")
    res.check(len(pcs) == 1 and _loop_of(rhi, pcs[0]) is None and canon(call_args(pcs[0])[2]) == "result_worker", "C13.R4",
              site(rhi, "one-result-thread"), "exactly one result thread per handler", "result_handler_init does not create exactly one result_worker thread")

    # R5 bounded creation
    res.floor("C13.R5", 3)
    tn = prog.need("threadpool_next", TP)
    at, _ = FX.must_locksets(tn)
    for g in prog.unit_funcs(TP):
        atg, _ = FX.must_locksets(g)
        for n, lhs in field_stores(g, "threadpool", "count"):
            held = atg.get(n["id"], frozenset())
            res.check((("threadpool", "m"), canon(lhs["kids"][0])) in held, "C13.R5", site(g, "count-under-lock"),
                      "threadpool.count changes under the pool mutex", "threadpool.count is changed without the pool mutex", g.loc(n))
    ev = APE.run(prog, cg, tn, bound=APE.BOUND)
    seen_inc = False
    for p in ev.paths:
        if p.end != "exit":
            continue
        inc = [e for e in p.events if e.kind == "store" and e.a.endswith("->count")]
        crt = p.calls("pthread_create")
        if inc:
            seen_inc = True
            head_null = any(re.match(r"^pool->head@\d+$", a) and b == "#0" and v == frozenset((EQ,)) for (a, b), v in p.cons.items())
            below = any(re.match(r"^pool->count@\d+$", a) and re.match(r"^pool->max@\d+$", b) and EQ not in v and GT not in v or
                        (re.match(r"^pool->count@\d+$", a) and re.match(r"^pool->max@\d+$", b) and v == frozenset((LT, GT)))
                        for (a, b), v in p.cons.items())
            res.check(head_null and below and len(inc) == 1 and inc[0].b[1].endswith("+#1)"), "C13.R5", site(tn, "count++"),
                      "count is incremented once, only with no idle thread and count != max after the wait loop",
                      "a worker slot is taken although an idle thread exists or the maximum may be reached "
                      "(head==NULL: %s, count<max: %s)" % (head_null, below), tn.loc(inc[0].node), p.describe(tn))
        res.check(bool(crt) == bool(inc) and len(crt) <= 1, "C13.R5", site(tn, "create-iff-counted"),
                  "a worker thread is created exactly on the path that counted it",
                  "pthread_create %s the path that incremented count" % ("off" if crt else "missing on"), tn.loc(tn.body), p.describe(tn))
    if not seen_inc:
        res.bad("C13.R5", site(tn, "count++"), "no path increments count", tn.loc(tn.body))

    # R6 delivery
    res.floor("C13.R6", 4)
    # Decided on the paths of the result thread's main function with the file's internal functions evaluated as part of it
    # (whether "take the next finished thread, wait for it, collect its result" is one helper, two, or written in line):
    # per dequeued thread (one decrement of nthreads) the result is read once, cleared once and handed to the callback
    # once; no callback without a dequeued thread; the thread leaves only when finished, nothing outstanding, queue empty.
    rw = prog.need("result_worker", TP)
    res.saw(rw)
    ev = APE.run(prog, cg, rw, bound=APE.BOUND, inline=("*static",), max_paths=40000)
    ndeq = 0
    for p in ev.paths:
        evs = [e for e in p.events if e.kind != "branch"]
        deq = [i for i, e in enumerate(evs) if e.kind == "store" and strip_tags(e.a).endswith("->nthreads")]
        cbs_all = [i for i, e in enumerate(evs) if e.kind == "call" and e.a.startswith("(*") and "cb" in e.a]
        for i in deq:
            res.check(evs[i].b[0] == "s" and evs[i].b[1].endswith("-#1)"), "C13.R6", site(rw, "deliver"),
                      "one outstanding job is counted off per dequeued thread", "nthreads is changed by %s when a thread is dequeued" % APE.vstr(evs[i].b),
                      rw.loc(evs[i].node), p.describe(rw))
        if cbs_all and (not deq or cbs_all[0] < deq[0]):
            res.bad("C13.R6", site(rw, "no-thread"), "a result is handed to the callback without a dequeued thread", rw.loc(evs[cbs_all[0]].node), p.describe(rw))
        for k, i in enumerate(deq):
            end = deq[k + 1] if k + 1 < len(deq) else len(evs)
            seg = evs[i + 1:end]
            complete = k + 1 < len(deq) or p.end == "exit"
            clr = [e for e in seg if e.kind == "store" and strip_tags(e.a).endswith("->res")]
            cbs = [e for e in seg if e.kind == "call" and e.a.startswith("(*") and "cb" in e.a]
            if not complete and not cbs:
                continue
            ndeq += 1
            good = len(clr) == 1 and clr[0].b == ("c", 0) and len(cbs) == 1 and cbs[0].b and re.search(r"->res@\d+$", APE.vstr(cbs[0].b[0])) is not None
            res.check(bool(good), "C13.R6", site(rw, "callback-once"), "a dequeued thread's result is read once, cleared, and handed to the callback exactly once",
                      "delivery does not read-and-clear the result and call the callback exactly once (clears %d, callbacks %d%s)" % (
                          len(clr), len(cbs), ", with %s" % APE.vstr(cbs[0].b[0])[:60] if cbs and cbs[0].b else ""), rw.loc(evs[i].node), p.describe(rw))
        if p.end == "exit":
            # R7: leaves only when finished && nthreads == 0 and the queue is empty (the last evaluation of each part decides)
            # by the field each test reads (the value tested may be what an earlier iteration stored there)
            fin, nth, hd = [], [], []
            for e in p.events:
                if e.kind != "branch" or e.node is None or not (isinstance(e.a, tuple) and e.a[1] == "#0"):
                    continue
                flds = set(x.get("field") for x in walk(e.node) if x.get("k") == "MemberExpr" and x.get("rec") == "resultq")
                for fld_ in ("finished", "nthreads", "head"):
                    if re.search(r"->%s@\d+" % fld_, e.a[0]):
                        flds = {fld_}
                if flds == {"finished"}:
                    fin.append(e.b)
                elif flds == {"nthreads"}:
                    nth.append(e.b)
                elif flds == {"head"}:
                    hd.append(e.b)
            good = fin and EQ not in fin[-1] and nth and nth[-1] == frozenset((EQ,)) and hd and hd[-1] == frozenset((EQ,))
            res.check(bool(good), "C13.R7", site(rw, "result-thread-exit"), "result thread leaves iff finished, no job outstanding and queue empty",
                      "the result thread can leave while jobs are outstanding or the queue is not finished "
                      "(finished %s, nthreads %s, head %s)" % ([sorted(v) for v in fin], [sorted(v) for v in nth], [sorted(v) for v in hd]),
                      rw.loc(rw.body), p.describe(rw))
    if ndeq == 0:
        raise BrokenAnalysis("result_worker: no path that dequeues a thread and delivers its result")
    td = prog.need("threadpool_dispatch", TP)
    ev = APE.run(prog, cg, td, bound=APE.BOUND)
    for p in ev.paths:
        if p.end != "exit":
            continue
        inc = [e for e in p.events if e.kind == "store" and e.a.endswith("->nthreads")]
        res.check(len(inc) == 1 and inc[0].b[1].endswith("+#1)"), "C13.R6", site(td, "nthreads++"), "one outstanding job counted per dispatch",
                  "dispatch counts %d outstanding jobs" % len(inc), td.loc(td.body), p.describe(td))

    # R7 worker exit
    res.floor("C13.R7", 2)
    tw = prog.need("thread_worker", TP)
    ev = APE.run(prog, cg, tw, bound=APE.BOUND)
    exits = 0
    for p in ev.paths:
        if p.end != "exit":
            continue
        exits += 1
        cb = [v for (a, b), v in p.cons.items() if re.search(r"^me->cb@\d+$", a) and b == "#0"]
        calls = [e for e in p.events if e.kind == "call" and e.a.startswith("(*")]
        # the last evaluation of cb decides
        res.check(bool(cb) and cb[-1] == frozenset((EQ,)), "C13.R7", site(tw, "worker-exit"), "a worker leaves only when woken with a NULL job",
                  "a worker can leave its loop with a job pending", tw.loc(tw.body), p.describe(tw))
    if exits == 0:
        res.bad("C13.R7", site(tw, "worker-exit"), "workers never exit: threadpool_destroy would hang in pthread_join", tw.loc(tw.body))
    tdd = prog.need("threadpool_destroy", TP)
    # by value on the paths of destroy (a shared "start this thread" helper may store the job fields as well - with NULL):
    # every wake-up (running := true) leaves the thread's callback NULL, and the thread is joined afterwards
    evd = APE.run(prog, cg, tdd, bound=APE.BOUND)
    nwake = 0
    okwake = True
    for p in evd.paths:
        evs = [e for e in p.events if e.kind != "branch"]
        for i, e in enumerate(evs):
            if not (e.kind == "store" and strip_tags(e.a).endswith("->running") and e.b[0] == "c" and e.b[1] != 0):
                continue
            nwake += 1
            obj = strip_tags(e.a)[:-len("->running")]
            cbst = [x for x in evs if x.kind == "store" and strip_tags(x.a) == obj + "->cb"]
            joined = any(x.kind == "call" and x.a == "pthread_join" for x in evs[i + 1:]) or p.end == "cut"
            if any(x.b != ("c", 0) for x in cbst) or not joined:
                okwake = False
    res.check(nwake >= 1 and okwake, "C13.R7", site(tdd, "wake-with-null-job"),
              "destroy wakes each idle worker with running := true and no job, then joins it",
              "threadpool_destroy does not wake idle workers with a NULL job before joining them", tdd.loc(tdd.body))

    # R8 tail discipline
    res.floor("C13.R8", 3)
    for g in prog.unit_funcs(TP):
        ev = None
        appends = []
        for n, lhs in stores_in(g):
            if lhs["k"] == "UnaryOperator" and lhs.get("op") == "*" and strip(lhs["kids"][0])["k"] == "MemberExpr" and \
                    strip(lhs["kids"][0])["field"] == "ptail":
                appends.append(n)
        removes = [n for n, lhs in field_stores(g, "resultq", "head")]
        if not appends and not removes:
            continue
        ev = APE.run(prog, cg, g, bound=APE.BOUND)
        atg, _ = FX.must_locksets(g)
        for n in appends:
            node_v = canon(n["kids"][1])
            okp = None
            for p in ev.paths:
                evs = [e for e in p.events if e.kind != "branch"]
                for i, e in enumerate(evs):
                    if e.kind == "store" and same_node(e.node, n):
                        nxt = evs[i + 1] if i + 1 < len(evs) else None
                        good = nxt is not None and nxt.kind == "store" and nxt.a.endswith("->ptail") and \
                            APE.vstr(nxt.b) in ("&%s->next" % node_v,)
                        okp = good if okp is None else (okp and good)
            held = atg.get(n["id"], frozenset())
            locked = any(h[0] == ("resultq", "m") for h in held)
            res.check(bool(okp) and locked, "C13.R8", site(g, "append"), "append stores the node through *ptail, then re-points ptail at its next field, under the queue mutex",
                      "queue append does not re-point the tail at the appended node's next field under the mutex: the next append overwrites or loses a node", g.loc(n))
        for n in removes:
            if const_val(n["kids"][1]) == 0 or canon(n["kids"][1]) == "#0":
                continue
            okp = None
            for p in ev.paths:
                evs = [e for e in p.events if e.kind != "branch"]
                for i, e in enumerate(evs):
                    if e.kind == "store" and same_node(e.node, n):
                        # head may now be NULL: on that edge ptail := &head before the unlock
                        hv = APE.vstr(e.b)
                        c = p.cons.get((hv, "#0"))
                        rest = []
                        for x in evs[i + 1:]:
                            if x.kind == "call" and x.a == FX.UNLOCK:
                                break
                            rest.append(x)
                        fix = [x for x in rest if x.kind == "store" and x.a.endswith("->ptail") and APE.vstr(x.b).endswith("->head") and APE.vstr(x.b).startswith("&")]
                        if c == frozenset((EQ,)):
                            good = len(fix) == 1
                        elif c is None:
                            good = False
                        else:
                            good = True
                        okp = good if okp is None else (okp and good)
            res.check(bool(okp), "C13.R8", site(g, "remove"), "when a removal empties the queue the tail is re-anchored at head before the mutex is released",
                      "after the queue is emptied the tail pointer keeps pointing into the removed node: the next ordered dispatch appends to a node "
                      "that is no longer on the queue and its result is never delivered", g.loc(n))


# ---------------------------------------------------------------------------------------------
POOL_SETTERS = ("mtbl_writer_options_set_threadpool", "mtbl_sorter_options_set_threadpool")


def _pool_handed_on(funcs):
    """(function, call) for every call that configures a nested object with a pool that is not the constant NULL."""
    out = []
    for f in funcs:
        for c in f.calls(set(POOL_SETTERS)):
            a = call_args(c)
            if len(a) >= 2 and not is_null(a[1]) and const_val(a[1]) != 0:
                out.append((f, c))
        for n, lhs in field_stores(f):
            if lhs["field"] == "pool" and lhs.get("rec") in ("mtbl_writer_options", "mtbl_sorter_options") and \
                    not is_null(n["kids"][1]) and const_val(n["kids"][1]) != 0 and f.name not in POOL_SETTERS:
                out.append((f, n))
    return out


def r9_nested(ctx, res):
    prog = ctx.prog
    cg = ctx.cg
    res.floor("C13.R9", 2)
    from mtblcheck.facts import is_null  # noqa
    roots = {}
    for (callee, idx), names in cg.param_funcs.items():
        if (callee, idx) in (("threadpool_dispatch", 3), ("result_handler_init", 0)):
            for nm in names:
                roots[nm] = "work function" if callee == "threadpool_dispatch" else "result callback"
    if len(roots) < 3:
        raise BrokenAnalysis("callback registries of the pool found only %s" % sorted(roots))
    for nm, role in sorted(roots.items()):
        keys = [k for k in cg.funcs if k[1] == nm]
        if not keys:
            raise BrokenAnalysis("callback %s has no body" % nm)
        reach = cg.reachable(keys)
        fs = []
        seen = set()
        for k in reach:
            f = cg.funcs[k]
            if (f.file, f.line) not in seen:
                seen.add((f.file, f.line))
                fs.append(f)
        hits = _pool_handed_on(fs)
        for f, c in hits:
            res.bad("C13.R9", site(f, "pool-handed-on-inside-job:%s" % nm),
                    "%s runs inside the pool job `%s` (%s) and configures the object it creates with a pool: its blocks are dispatched to the pool "
                    "whose slot the job itself occupies; with every slot held by such a job nobody can run them and the wait never ends"
                    % (f.name, nm, role), f.loc(c))
        if not hits:
            res.ok("C13.R9", "%s:no-nested-pool" % nm, "none of the %d functions reachable from this %s hands a pool to a nested writer or sorter" % (len(fs), role))
    pos = ctx.pos_example("c13_nested_pool.c")
    if len(_pool_handed_on(pos)) != 2:
        raise BrokenAnalysis("nested-pool matcher reports %d of the 2 constructs of its positive example" % len(_pool_handed_on(pos)))


# ---------------------------------------------------------------------------------------------
def r10_route(ctx, res):
    """R10: the field of `struct thread` the worker reads to choose between its two ways of reporting completion
    (signal its own condition variable: ordered; append itself to a result queue: unordered) must, for every job, hold
    what the dispatch of THAT job asked for.  Decided by value on the paths of threadpool_dispatch and thread_worker:
    an unordered dispatch stores the handler's queue there; an ordered dispatch stores NULL there - or stores nothing,
    which is right only if idle threads always have the field NULL (created zeroed, and the worker clears it after every
    job).  A field left as the previous job set it sends an ordered job's completion to a queue of an earlier user
    (possibly destroyed) without the wake-up the result thread waits for."""
    prog, cg = ctx.prog, ctx.cg
    res.floor("C13.R10", 3)
    tw = prog.need("thread_worker", TP)
    td = prog.need("threadpool_dispatch", TP)
    evw = APE.run(prog, cg, tw, bound=APE.BOUND, inline=("*static",))
    # the route field: the thread field whose value is the queue the worker appends itself to
    fields = set()
    jobpaths = []
    for p in evw.paths:
        evs = [e for e in p.events if e.kind != "branch"]
        cbi = [i for i, e in enumerate(evs) if e.kind == "call" and e.a.startswith("(*")]
        if not cbi:
            continue
        jobpaths.append((p, evs, cbi[0]))
        env = {}
        for e in evs:
            if e.kind != "store":
                continue
            a = strip_tags(e.a)
            m = re.match(r"^\*(.+)->ptail$", a)
            if m:
                base = m.group(1)
                v = env.get(base, base)
                m2 = re.match(r"^\w+->(\w+)(@\d+)?$", v)
                if m2:
                    fields.add(m2.group(1))
            elif e.b and e.b[0] == "s" and re.match(r"^\w+$", a):
                env[a] = e.b[1]
    if len(fields) != 1:
        res.undecided("C13.R10", "thread_worker: the queue a finished worker appends itself to is not read from one field of the thread (%s)" % sorted(fields))
        return
    F = fields.pop()
    # does the worker clear the field after every job (before it can be dispatched again)?
    clears = True
    for p, evs, i in jobpaths:
        st = [e for e in evs[i:] if e.kind == "store" and re.match(r"^\w+->%s$" % F, strip_tags(e.a))]
        done = any(e.kind == "store" and strip_tags(e.a).endswith("->running") and e.b == ("c", 0) for e in evs[i:])
        if not done:
            continue     # path cut before the job is reported
        if not st or st[-1].b != ("c", 0):
            clears = False
    # are threads created with the field zero?
    zeroed = False
    for g in prog.unit_funcs(TP):
        pcs = [c for c in g.calls("pthread_create") if canon(call_args(c)[2]) == "thread_worker"]
        if pcs:
            zeroed = bool(g.calls("calloc") or g.calls("my_calloc")) or any(
                e.kind == "store" and re.match(r"^\w+->%s$" % F, strip_tags(e.a)) and e.b == ("c", 0)
                for p in APE.run(prog, cg, g, bound=APE.BOUND).paths for e in p.events)
    idle_null = clears and zeroed
    res.check(True, "C13.R10", site(tw, "route-field"), "completion route read from thread.%s; idle threads have it NULL: %s "
              "(cleared after every job: %s, created zeroed: %s)" % (F, idle_null, clears, zeroed))
    ordp = [q["name"] for q in td.params if "*" not in q.get("type", "")]
    evd = APE.run(prog, cg, td, bound=APE.BOUND, inline=("*static",))
    n = 0
    for p in evd.paths:
        if p.end != "exit":
            continue
        inc = [e for e in p.events if e.kind == "store" and strip_tags(e.a).endswith("->nthreads")]
        if not inc:
            continue
        qbase = strip_tags(inc[0].a)[:-len("->nthreads")]
        env = {}
        for e in p.events:
            if e.kind == "store" and e.b and e.b[0] == "s" and re.match(r"^\w+$", strip_tags(e.a)):
                env.setdefault(strip_tags(e.a), e.b[1])
        qval = env.get(qbase, qbase)
        # ordered iff the thread is appended to the queue here
        appended = any(e.kind == "store" and re.match(r"^\*.+->ptail$", strip_tags(e.a)) for e in p.events)
        st = [e for e in p.events if e.kind == "store" and re.match(r"^\w+->%s$" % F, strip_tags(e.a))]
        n += 1
        if appended:
            good = (st and st[-1].b == ("c", 0)) or (not st and idle_null)
            res.check(bool(good), "C13.R10", site(td, "ordered-route"),
                      "an ordered dispatch leaves thread.%s NULL: the worker signals its own condition variable" % F,
                      "an ordered dispatch (the thread is queued at once and the result thread waits on its condition variable) %s: "
                      "a worker that last ran an unordered job reports this one by appending itself to that earlier queue without "
                      "signalling - the result thread waits for ever and the earlier queue may already be destroyed" % (
                          ("stores %s into thread.%s" % (APE.vstr(st[-1].b), F)) if st else
                          ("does not set thread.%s, and idle threads do not always have it NULL (cleared after every job: %s, created zeroed: %s)" % (F, clears, zeroed))),
                      td.loc(st[-1].node if st else td.body), p.describe(td))
        else:
            good = st and st[-1].b[0] == "s" and strip_tags(st[-1].b[1]) == strip_tags(qval)
            res.check(bool(good), "C13.R10", site(td, "unordered-route"),
                      "an unordered dispatch stores the handler's queue into thread.%s: the worker queues itself there when done" % F,
                      "an unordered dispatch (the thread is not queued here) %s: the finished worker never reaches the queue whose "
                      "outstanding-job count was raised - the result thread waits for ever" % (
                          ("stores %s into thread.%s, not the queue %s" % (APE.vstr(st[-1].b), F, qval)) if st else ("does not set thread.%s" % F)),
                      td.loc(st[-1].node if st else td.body), p.describe(td))
    if n < 2:
        raise BrokenAnalysis("threadpool_dispatch: %d completed dispatch path(s) found, 2 (ordered, unordered) confirmed by hand" % n)
