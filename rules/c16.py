"""C16 - varint and fixed-width codecs are exact inverses in standard form.

Decided by abstract interpretation in the bit-provenance domain of mtblcheck/bits.py: every bit of
every value is a constant, a named input bit, or unknown; traces are partitioned at comparisons
and each trace carries what its comparisons imply about the input bits.  No input value is ever
chosen; what is shown for a trace holds for every value of its class, and the classes of a
function cover all inputs by construction.

R1 encoder routing (mtbl_varint_encode32/64): on every trace that writes n bytes and returns n,
   byte k carries input bits 7k..7k+6 in its low seven bits, the continuation bit is 1 on bytes
   0..n-2 and 0 on byte n-1, the trace's class has all input bits >= 7n zero (nothing is lost) and,
   for n > 1, some input bit >= 7(n-1) set (minimal length: standard form).
R2 length classes (mtbl_varint_length): returns n exactly on the class "bits >= 7n zero and
   (n = 1 or some bit >= 7(n-1) set)" - the same classes as R1, hence the same count for every value.
R3 decoder routing (mtbl_varint_decode32/64): a trace that returns n > 0 has read exactly bytes
   0..n-1, assumed continuation bits 1 on 0..n-2 and 0 on n-1, and stores value bit 7k+j = bit j of
   byte k (k < n), zero elsewhere; a trace returning 0 exists only when all of the
   first ceil(W/7) bytes carry a continuation bit; traces for n = 1..ceil(W/7) exist.
R4 composition: substituting each encoder trace's bytes into the decoder trace of the same length
   gives back every input bit and the same count.
R5 packed length (mtbl_varint_length_packed): for every buffer length L in 0..LMAX, returns k+1 for
   the first k < L whose byte has continuation bit 0, else 0, and never reads at or beyond L.
R6 fixed codecs: encode stores input bits 8k..8k+7 in byte k (little-endian) and returns the
   width in bytes; decode returns the same routing inverted; composition is the identity; no
   access wider than a byte goes through the byte pointer (any alignment).
R7 declared effects: no codec that reads or writes memory through a pointer parameter carries
   __attribute__((const)) (or pure, if it writes): such a declaration lets an optimising caller
   reuse a stale result or drop the call.
"""
import subprocess
from .common import *
from mtblcheck import bits as B

EXPLANATION = ("abstract interpretation in a bit-provenance domain (each bit: constant / named input bit / unknown) with trace "
               "partitioning at comparisons, over the AST of the codec functions and their callees: encoder and decoder bit-routing "
               "tables, length classes, packed-length scan, fixed-width byte routing and access widths; no input is chosen and no "
               "solver is used; see DESIGN 3 C16")
DESIGN_REF = "DESIGN.md section 3, C16"
COMPLETE = ("C16.R1 encoder bit routing per class", "C16.R3 decoder bit routing per class", "C16.R6 fixed-width byte routing")


def little_endian(prog):
    """Byte order of the configured target, from the preprocessor (no code is run)."""
    p = subprocess.run(["clang", "-dM", "-E", "-x", "c", "/dev/null"] + [x for x in prog.flags if not x.startswith("-include") and not x.endswith("config.h")],
                       capture_output=True, text=True, cwd=prog.repo)
    for line in p.stdout.splitlines():
        if line.startswith("#define __BYTE_ORDER__ "):
            return "LITTLE" in line
    raise BrokenAnalysis("cannot determine the target byte order")


def vbit(s, p, i, W):
    return s.norm(("v", p, i)) if i < W else 0


def high_zero(s, p, lo, W):
    return all(s.norm(("v", p, i)) == 0 for i in range(lo, W))


def some_high(s, p, lo, W):
    lits = [(("v", p, i), 1) for i in range(lo, W)]
    if any(s.norm(b) == 1 for b, _ in lits):
        return True
    return s.implies_some(lits)


def describe(r):
    return "trace: " + "; ".join(r.st.branches[-12:]) if r.st.branches else "trace: (no branch)"


def ret_const(r):
    if isinstance(r.ret, B.BV):
        v = r.st.nbits(r.ret)
        if v.is_const():
            return v.value()
    return None


def narrow_accesses(r, f):
    """Typed accesses wider than the declared element type of the parameter they go through."""
    out = []
    for kind, base, off, width, loc in r.st.wide:
        if isinstance(base, tuple) and base[0] == "p":
            ti = B.tparse(f.params[base[1]].get("ct") or f.params[base[1]]["t"])
            decl = (ti[1] or 1) * 8 if ti and ti[0] == "ptr" else 8
            if width > decl:
                out.append((kind, base, off, width, loc))
    return out


def run(ctx, res):
    prog = ctx.prog
    spec = ctx.spec("t_codec")
    le = little_endian(prog)
    LMAX = spec["packed_lmax"]["thorough" if ctx.tier == "thorough" else "quick"]
    funcs = {}
    for role, ent in spec["functions"].items():
        f = prog.need(ent["name"], ent["unit"])
        res.saw(f)
        funcs[role] = (f, ent)
    seen = set()

    def traces(role, args=None):
        f, ent = funcs[role]
        I = B.Interp(prog, f.unit, little_endian=le)
        out = I.run(f, args)
        seen.update(I.funcs_seen)
        for r in out:
            if r.end != "return":
                raise BrokenAnalysis("%s: a trace ends without a return" % f.name)
        return f, ent, out

    # ---------------------------------------------------------------- R1 / R2
    enc = {}
    for role in ("varint_encode32", "varint_encode64"):
        f, ent, out = traces(role)
        W = ent["width"]
        vp, bp = ent["value_param"], ent["buf_param"]
        groups = (W + 6) // 7
        res.floor("C16.R1", 2 * 5)
        got = set()
        for r in out:
            s = r.st
            n = ret_const(r)
            sg = site(f, "class[n=%s]" % n)
            if n is None or n < 1:
                res.bad("C16.R1", site(f, "count"), "returned count is not a constant of the trace's class (%r)" % (r.ret,), f.loc(f.body), describe(r))
                continue
            got.add(n)
            problems = []
            wr = [o for (b, o) in s.writes if b == ("p", bp)]
            if sorted(set(wr)) != list(range(n)):
                problems.append("writes bytes %s but returns %d" % (sorted(set(wr)), n))
            if [x for x in s.writes if x[0] != ("p", bp)]:
                problems.append("writes outside the output buffer")
            if any(b == ("p", bp) for b, o in s.reads):
                problems.append("reads the output buffer")
            for k in range(min(n, 16)):
                byte = r.byte(("p", bp), k)
                if byte is None:
                    continue
                for j in range(7):
                    want = vbit(s, vp, 7 * k + j, W)
                    if byte[j] != want:
                        problems.append("byte %d bit %d carries %s, not input bit %d" % (k, j, B.bitstr(byte[j]), 7 * k + j))
                        break
                wantc = 1 if k < n - 1 else 0
                if byte[7] != wantc:
                    problems.append("byte %d continuation bit is %s, must be %d" % (k, B.bitstr(byte[7]), wantc))
            if 7 * n < W and not high_zero(s, vp, 7 * n, W):
                lost = [i for i in range(7 * n, W) if s.norm(("v", vp, i)) != 0]
                problems.append("input bits %d.. may be set on this class but are not encoded" % lost[0])
            if n > 1 and not some_high(s, vp, 7 * (n - 1), W):
                problems.append("class admits values below 2^%d: %d bytes is not the minimal length" % (7 * (n - 1), n))
            if n > groups:
                problems.append("more than %d bytes for a %d-bit value" % (groups, W))
            res.check(not problems, "C16.R1", sg, "bytes 0..%d carry input bits 7k..7k+6, continuation bits 1..10, class is [2^%d, 2^%d)" % (n - 1, 7 * (n - 1) if n > 1 else 0, 7 * n),
                      "; ".join(problems[:3]), f.loc(f.body), describe(r))
            enc.setdefault(role, []).append((n, r))
        missing = [n for n in range(1, groups + 1) if n not in got]
        if missing:
            res.bad("C16.R1", site(f, "classes"), "no trace encodes with %s byte(s): those values are mis-sized" % missing, f.loc(f.body))

    f, ent, out = traces("varint_length")
    W, vp = ent["width"], ent["value_param"]
    res.floor("C16.R2", 10)
    got = set()
    for r in out:
        n = ret_const(r)
        if n is None or n < 1:
            res.bad("C16.R2", site(f, "count"), "length is not a constant of the trace's class", f.loc(f.body), describe(r))
            continue
        got.add(n)
        problems = []
        if 7 * n < W and not high_zero(r.st, vp, 7 * n, W):
            problems.append("class admits values >= 2^%d" % (7 * n))
        if n > 1 and not some_high(r.st, vp, 7 * (n - 1), W):
            problems.append("class admits values below 2^%d" % (7 * (n - 1)))
        res.check(not problems, "C16.R2", site(f, "class[n=%d]" % n), "returns %d exactly on [2^%d, 2^%d)" % (n, 7 * (n - 1) if n > 1 else 0, 7 * n),
                  "length %d returned on a different class than the encoders': %s" % (n, "; ".join(problems)), f.loc(f.body), describe(r))
    missing = [n for n in range(1, (W + 6) // 7 + 1) if n not in got]
    if missing:
        res.bad("C16.R2", site(f, "classes"), "no trace returns %s" % missing, f.loc(f.body))

    # ---------------------------------------------------------------- R3
    dec = {}
    for role in ("varint_decode32", "varint_decode64"):
        f, ent, out = traces(role)
        W = ent["width"]
        dp, op = ent["buf_param"], ent["out_param"]
        groups = (W + 6) // 7
        res.floor("C16.R3", 2 * 5)
        got = set()
        for r in out:
            s = r.st
            n = ret_const(r)
            if n is None:
                res.bad("C16.R3", site(f, "count"), "returned count is not a constant of the trace's class", f.loc(f.body), describe(r))
                continue
            sg = site(f, "class[n=%d]" % n)
            problems = []
            rd = sorted(set(o for (b, o) in s.reads if b == ("p", dp)))
            outbytes = [r.byte(("p", op), i) for i in range(W // 8)]
            if any(x is None for x in outbytes):
                problems.append("the output value is not stored on this trace")
                outbits = None
            else:
                outbits = []
                for x in (outbytes if le else list(reversed(outbytes))):
                    outbits += list(x)
            if [x for x in s.writes if x[0] != ("p", op)]:
                problems.append("writes outside the output value")
            if n > 0:
                got.add(n)
                if rd != list(range(n)):
                    problems.append("reads bytes %s for a %d-byte encoding" % (rd, n))
                for k in range(n):
                    c = s.norm(("d", ("p", dp), k, 7))
                    wantc = 1 if k < n - 1 else 0
                    if c != wantc:
                        problems.append("accepts byte %d with continuation bit %s as part of a %d-byte encoding" % (k, B.bitstr(c), n))
                if outbits is not None:
                    for i in range(W):
                        k, j = divmod(i, 7)
                        want = s.norm(("d", ("p", dp), k, j)) if k < n else 0
                        if outbits[i] != want:
                            problems.append("value bit %d is %s, not bit %d of byte %d" % (i, B.bitstr(outbits[i]), j, k) if k < n else
                                            "value bit %d is %s, not 0" % (i, B.bitstr(outbits[i])))
                            break
                if n > groups:
                    problems.append("accepts %d bytes for a %d-bit value" % (n, W))
                res.check(not problems, "C16.R3", sg, "reads bytes 0..%d, value bit 7k+j = byte k bit j" % (n - 1), "; ".join(problems[:3]), f.loc(f.body), describe(r))
                dec.setdefault(role, {}).setdefault(n, []).append(r)
            else:
                # refusal: only for over-long input (what the refused call leaves in *value is not part of the property)
                problems = [p for p in problems if "not stored" not in p]
                conts = [s.norm(("d", ("p", dp), k, 7)) for k in range(groups)]
                if any(c != 1 for c in conts):
                    problems.append("refuses an input whose first %d bytes are not all continuation bytes" % groups)
                if rd and max(rd) >= groups:
                    problems.append("reads byte %d, beyond the longest encoding" % max(rd))
                res.check(not problems, "C16.R3", site(f, "refusal"), "returns 0 only when bytes 0..%d all carry a continuation bit" % (groups - 1),
                          "; ".join(problems[:3]), f.loc(f.body), describe(r))
        missing = [n for n in range(1, groups + 1) if n not in got]
        if missing:
            res.bad("C16.R3", site(f, "classes"), "no trace decodes a %s-byte encoding" % missing, f.loc(f.body))

    # ---------------------------------------------------------------- R4 composition
    res.floor("C16.R4", 15)
    for erole, drole in (("varint_encode32", "varint_decode32"), ("varint_encode64", "varint_decode64")):
        ef, eent = funcs[erole]
        df, dent = funcs[drole]
        W = eent["width"]
        for n, er in enc.get(erole, []):
            sg = "%s>%s:n=%d" % (ef.name, df.name, n)
            cands = dec.get(drole, {}).get(n, [])
            # the decoder trace whose continuation-bit assumptions fit the encoder's bytes
            ebytes = [er.byte(("p", eent["buf_param"]), k) for k in range(n)]
            if any(b is None for b in ebytes):
                continue
            fit = None
            for dr in cands:
                ok = True
                for k in range(n):
                    c = dr.st.norm(("d", ("p", dent["buf_param"]), k, 7))
                    if c in (0, 1) and ebytes[k][7] in (0, 1) and c != ebytes[k][7]:
                        ok = False
                if ok:
                    fit = dr
                    break
            if fit is None:
                res.bad("C16.R4", sg, "no decoder trace accepts the %d-byte output of the encoder" % n, ef.loc(ef.body), describe(er))
                continue

            def subst(bit):
                if bit in (0, 1) or bit is None:
                    return bit
                if bit[0] == "!":
                    return B.bnot(subst(bit[1]))
                if bit[0] == "d" and bit[1] == ("p", dent["buf_param"]) and bit[2] < n:
                    return ebytes[bit[2]][bit[3]]
                return bit
            outbytes = [fit.byte(("p", dent["out_param"]), i) for i in range(W // 8)]
            bad = None
            if any(x is None for x in outbytes):
                bad = "decoder stores no value"
            else:
                ob = []
                for x in (outbytes if le else list(reversed(outbytes))):
                    ob += [subst(b) for b in x]
                for i in range(W):
                    want = er.st.norm(("v", eent["value_param"], i))
                    got_ = er.st.norm(ob[i]) if ob[i] not in (0, 1, None) else ob[i]
                    if got_ != want:
                        bad = "decode(encode(v)) bit %d is %s, not v bit %d" % (i, B.bitstr(got_), i)
                        break
                if bad is None and ret_const(fit) != n:
                    bad = "decoder consumes %s bytes of a %d-byte encoding" % (ret_const(fit), n)
            res.check(bad is None, "C16.R4", sg, "decoder trace of length %d applied to the encoder's bytes yields every input bit" % n, bad,
                      df.loc(df.body), describe(er))

    # ---------------------------------------------------------------- R5 packed length
    f, ent = funcs["varint_length_packed"]
    dp, lp = ent["buf_param"], ent["len_param"]
    res.floor("C16.R5", LMAX)
    for L in range(0, LMAX + 1):
        args = [None] * len(f.params)
        args[lp] = L
        _, _, out = traces("varint_length_packed", args)
        problems = []
        for r in out:
            s = r.st
            n = ret_const(r)
            if n is None:
                problems.append("result is not a constant of the trace's class")
                continue
            rd = sorted(set(o for (b, o) in s.reads if b == ("p", dp)))
            if rd and max(rd) >= L:
                problems.append("reads byte %d of a %d-byte buffer" % (max(rd), L))
            conts = [s.norm(("d", ("p", dp), k, 7)) for k in range(L)]
            # expected result from the continuation bits this trace has fixed
            exp = None
            for k in range(L):
                if conts[k] == 0:
                    exp = k + 1
                    break
                if conts[k] != 1:
                    exp = "undetermined"
                    break
            else:
                exp = 0
            if exp == "undetermined":
                problems.append("returns %d without having examined byte %d" % (n, k))
            elif n != exp:
                problems.append("returns %d where the first terminating byte gives %d" % (n, exp))
        res.check(not problems, "C16.R5", site(f, "len=%d" % L), "%d trace(s): first byte without continuation bit, +1; 0 when none within %d" % (len(out), L),
                  "; ".join(problems[:3]), f.loc(f.body))

    # ---------------------------------------------------------------- R6 fixed width
    res.floor("C16.R6", 4)
    fx = {}
    for role in ("fixed_encode32", "fixed_encode64"):
        f, ent, out = traces(role)
        W, vp, bp = ent["width"], ent["value_param"], ent["buf_param"]
        problems = []
        for r in out:
            s = r.st
            n = ret_const(r)
            if n != W // 8:
                problems.append("returns %s, not %d" % (n, W // 8))
            wr = sorted(set(o for (b, o) in s.writes if b == ("p", bp)))
            if wr != list(range(W // 8)):
                problems.append("writes bytes %s" % wr)
            for k in range(W // 8):
                byte = r.byte(("p", bp), k)
                if byte is None:
                    continue
                for j in range(8):
                    if byte[j] != s.norm(("v", vp, 8 * k + j)):
                        problems.append("byte %d bit %d carries %s, not input bit %d (little-endian)" % (k, j, B.bitstr(byte[j]), 8 * k + j))
                        break
            for a in narrow_accesses(r, f):
                problems.append("%d-bit %s through the byte pointer at %s: traps or tears at odd addresses" % (a[3], a[0], a[4]))
            fx[role] = r
        res.check(not problems and len(out) >= 1, "C16.R6", site(f, "routing"), "byte k = input bits 8k..8k+7, returns %d, byte-wise access only" % (W // 8),
                  "; ".join(problems[:3]), f.loc(f.body))
    for role in ("fixed_decode32", "fixed_decode64"):
        f, ent, out = traces(role)
        W, bp = ent["width"], ent["buf_param"]
        problems = []
        for r in out:
            s = r.st
            rd = sorted(set(o for (b, o) in s.reads if b == ("p", bp)))
            if rd != list(range(W // 8)):
                problems.append("reads bytes %s" % rd)
            if s.writes:
                problems.append("writes memory")
            v = s.nbits(r.ret) if isinstance(r.ret, B.BV) else None
            if v is None or v.width != W:
                problems.append("result is not a %d-bit value" % W)
            else:
                for i in range(W):
                    if v.bits[i] != s.norm(("d", ("p", bp), i // 8, i % 8)):
                        problems.append("result bit %d is %s, not bit %d of byte %d (little-endian)" % (i, B.bitstr(v.bits[i]), i % 8, i // 8))
                        break
            for a in narrow_accesses(r, f):
                problems.append("%d-bit %s through the byte pointer at %s: traps or tears at odd addresses" % (a[3], a[0], a[4]))
        res.check(not problems and len(out) >= 1, "C16.R6", site(f, "routing"), "result bit 8k+j = byte k bit j, reads exactly %d bytes byte-wise" % (W // 8),
                  "; ".join(problems[:3]), f.loc(f.body))

    # ---- R7 declared effects ---------------------------------------------------------------------
    # `const` promises the result depends on the argument values only (not on memory behind a pointer), `pure` that
    # nothing is written: an optimising caller may then reuse an earlier result or drop the call.
    res.floor("C16.R7", 10)
    for role, (f, ent) in sorted(funcs.items()):
        attrs = set(f.attrs or [])
        d = prog.decls.get(f.name) if isinstance(getattr(prog, "decls", None), dict) else None
        if isinstance(d, dict):
            attrs |= set(d.get("attrs", []) or [])
        reads_mem = "buf_param" in ent and ("out_param" in ent or role.startswith("fixed_decode") or role == "varint_length_packed")
        writes_mem = "value_param" in ent and "buf_param" in ent or "out_param" in ent
        bad = None
        if "const" in attrs and (reads_mem or writes_mem):
            bad = "declared __attribute__((const)) although it %s memory through its pointer parameter: a caller compiled with optimisation " \
                  "may reuse a result from before the bytes changed" % ("reads" if reads_mem and not writes_mem else "writes")
        elif "pure" in attrs and writes_mem:
            bad = "declared __attribute__((pure)) although it writes through its pointer parameter: the call may be dropped"
        res.check(bad is None, "C16.R7", site(f, "declared-effects"), "no const/pure attribute contradicts the memory the function touches (%s)" % (sorted(attrs) or "no attributes"),
                  bad, f.loc(f.body))

    res.tables["target_little_endian"] = le
    res.tables["functions_interpreted"] = sorted(seen)
    res.assumptions.append("object representation of integers follows the configured target's byte order (%s-endian), read from the preprocessor" % ("little" if le else "big"))
    res.trusted.append("models of memcpy/memmove (constant size), __uintN_identity and __bswap_N in mtblcheck/bits.py")
