"""C04 - merger output is the sorted union of its sources, folded by the merge function.

R1 merge failure propagates: a NULL merge result returns failure at once.
R2 linear use of head entries (typestate per path of merger_iter_next):
   Fresh --consume--> Consumed --entry_fill--> Fresh|Finished; fill never on a Fresh entry,
   consume never twice, a successful refill is followed by heap_replace, a finished entry
   is popped before anything is read from it.
R3 no legal key value as a state sentinel: no branch of merger_iter_next depends on the
   length of the pending key (zero-length keys are legal).
R4 comparator decision table (_mtbl_merger_compare) and heap comparison sites.
R5 without a merge function exactly one entry is taken per call.
R6 observation paths (mtbl_source_write, mtbl_merge's merge()) add every yielded entry and
   stop at the first refused add.
R9 closure pairing (rules/closures.py): merge, dupsort and the heap comparison are each called with the closure registered with them.
R10 heap discipline (rules/heaprule.py): for every heap size up to 5 (6 thorough) and every ordering, heapify / push / pop / replace keep the elements and the parent <= child invariant and pop / replace / peek return a minimum.
D  rests on: C02 C02.R3 (the merge order is the order of the byte comparison) - re-run here as <id>.D.<rule>.
R11 container contract (rules/vecrule.py): libmy/vector.h keeps its invariants, element preservation, post-conditions and memory safety in every scenario (the heap array and the merger's entry/iterator lists are these vectors).
"""
import re
from .common import *

EXPLANATION = ("static typestate and decision-table rules over the abstract paths of merger_iter_next, _mtbl_merger_compare, "
               "the heap's sift functions and the two writer-feeding loops; see DESIGN 3 C04")
DESIGN_REF = "DESIGN.md section 3, C04"
U = "mtbl/merger.c"


def run(ctx, res):
    prog, cg = ctx.prog, ctx.cg
    mres = prog.enums["mtbl_res"]
    OKV, FAILV = mres["mtbl_res_success"], mres["mtbl_res_failure"]
    nxt = prog.need("merger_iter_next", U)
    res.saw(nxt)
    ev = APE.run(prog, cg, nxt, bound=3 if ctx.tier == "thorough" else 2)
    res.floor("C04.R1", 1)
    res.floor("C04.R2", 6)
    res.floor("C04.R3", 1)
    res.floor("C04.R7", 2)
    res.floor("C04.R8", 2)
    res.tables["C04.paths"] = len(ev.paths)

    # ---- R3: sentinel on key length ------------------------------------------
    bad_sites = 0
    for B in cond_blocks(nxt):
        c = strip(B.cond)
        while c["k"] == "UnaryOperator" and c.get("op") == "!":
            c = strip(c["kids"][0])
        operands = [strip(k) for k in c["kids"]] if c["k"] == "BinaryOperator" and c.get("op") in APE.OPSETS else [c]
        for x in operands:
            # the length itself is what is tested (not a key comparison that merely receives it)
            if x["k"] == "CallExpr" and x.get("callee") in ("ubuf_size", "ubuf_bytes"):
                a = strip(call_args(x)[0])
                if a["k"] == "MemberExpr" and a["field"] == "cur_key" and a.get("rec") == "merger_iter":
                    bad_sites += 1
                    res.bad("C04.R3", site(nxt, "branch-on-len(cur_key)"),
                            "the length of the pending key decides what happens next; the empty key is a legal key, so a source "
                            "whose first key is \"\" has that entry overwritten by the following one", nxt.loc(B.cond))
    if not bad_sites:
        res.ok("C04.R3", site(nxt, "branches"), "no branch of merger_iter_next depends on the length of the pending key")

    # ---- R1, R2, R5 on paths --------------------------------------------------
    n_merge_fail = 0
    for p in ev.paths:
        evs = [e for e in p.events if e.kind != "branch"]
        state = None      # None (no head yet) | Fresh | Consumed | Filled(ok unknown)
        head = None
        consumed = 0
        merge_null = False
        for i, e in enumerate(evs):
            if e.kind == "store" and e.a == "e" and APE.vstr(e.b).startswith("heap_peek("):
                if state == "Consumed":
                    res.bad("C04.R2", site(nxt, "consume-without-refill"),
                            "a head entry was consumed and the loop looks at the heap again without refilling it: the entry "
                            "would be folded/emitted twice", nxt.loc(e.node), p.describe(nxt))
                    break
                state, head = "Fresh", e.b
                continue
            if e.kind != "call":
                continue
            args = call_args(e.node)

            def reads_head(idx_key_or_val):
                return any(strip(a)["k"] == "MemberExpr" and strip(a).get("rec") == "entry" and strip(a)["field"] in idx_key_or_val
                           for a in args)
            if e.a == "ubuf_append" and reads_head(("val",)) and "cur_val" in canon(args[0]):
                consume = True
            elif e.a.startswith("(*") and "merge" in e.a and reads_head(("val",)):
                consume = True
                # merge result
                outsym = None
            else:
                consume = False
            if consume:
                fin = [v for (a, b), v in p.cons.items() if a.startswith("e->finished") and b == "#0"]
                if state != "Fresh":
                    res.bad("C04.R2", site(nxt, "double-consume"), "a head entry's value is used twice before it is refilled",
                            nxt.loc(e.node), p.describe(nxt))
                    break
                state = "Consumed"
                consumed += 1
                res.ok("C04.R2", site(nxt, "consume:%s" % ("merge" if e.a.startswith("(*") else "first")), "Fresh -> Consumed")
                continue
            if e.a == "entry_fill":
                if state != "Consumed":
                    res.bad("C04.R2", site(nxt, "fill-unconsumed"), "entry_fill on a head entry that was not consumed: its key/value is lost",
                            nxt.loc(e.node), p.describe(nxt))
                    break
                state = "Filled"
                c = p.cons.get((APE.vstr(e.c), "#%d" % OKV))
                ok_fill = c == frozenset((EQ,))
                c0 = p.cons.get((APE.vstr(e.c), "#0"))
                if c is None and c0 is not None and OKV != 0:
                    # the result is tested for truth (a boolean "got one", or success being the non-zero result code)
                    ok_fill = EQ not in c0
                    c = frozenset((EQ,)) if ok_fill else (frozenset((LT, GT)) if c0 == frozenset((EQ,)) else None)
                # next heap operation before the next peek
                rep = False
                for x in evs[i + 1:]:
                    if x.kind == "store" and x.a == "e":
                        break
                    if x.kind == "call" and x.a == "heap_replace":
                        rep = True
                if ok_fill or c is None:
                    res.check(rep, "C04.R2", site(nxt, "refill->heap_replace"), "successful refill is followed by heap_replace",
                              "a refilled head entry is not re-sifted (heap order broken)", nxt.loc(e.node), p.describe(nxt))
                elif c is not None and EQ not in c:
                    res.check(not rep, "C04.R2", site(nxt, "failed-refill"), "exhausted source is not re-sifted as if it held an entry",
                              "exhausted entry pushed back with stale key", nxt.loc(e.node), p.describe(nxt))
                continue
        else:
            # path completed without break
            if p.end == "cut" and state == "Consumed":
                res.bad("C04.R2", site(nxt, "consume-without-refill"),
                        "a head entry was consumed and the loop goes round again without refilling it: the entry would be "
                        "folded/emitted twice", nxt.loc(evs[-1].node), p.describe(nxt))
            # R7: fold decision
            for i, e in enumerate(evs):
                if e.kind == "call" and e.a == "bytes_compare":
                    a = [canon(x) for x in call_args(e.node)]
                    ck = ("cur_key" in a[0] and "cur_key" in a[1] and a[2].endswith("->key") and a[3].endswith("->len_key"))
                    mk = ("cur_key" in a[2] and "cur_key" in a[3] and a[0].endswith("->key") and a[1].endswith("->len_key"))
                    if not (ck or mk):
                        continue
                    c = p.cons.get((APE.vstr(e.c), "#0"))
                    if c is None:
                        continue
                    folded = False
                    for x in evs[i + 1:]:
                        if x.kind == "store" and x.a == "e":
                            break
                        if x.kind == "call" and x.a.startswith("(*") and "merge" in x.a:
                            folded = True
                    if folded:
                        res.check(c == frozenset((EQ,)), "C04.R7", site(nxt, "fold-iff-equal-keys"),
                                  "head folded into the pending entry only when keys are equal",
                                  "a head entry whose key may differ (%s) is folded into the pending entry" % sorted(c - {EQ}),
                                  nxt.loc(e.node), p.describe(nxt))
                    else:
                        res.check(EQ not in c, "C04.R7", site(nxt, "no-fold-iff-different-keys"),
                                  "an entry with the pending key is never left unfolded",
                                  "a head entry with the same key as the pending one is not folded", nxt.loc(e.node), p.describe(nxt))
            if p.end == "exit":
                r = p.ret()
                mcalls = [e for e in evs if e.kind == "call" and e.a.startswith("(*") and "merge" in e.a]
                # R1
                for mc in mcalls:
                    # the out value symbol: env after call: merged_val := (*...).out6#n
                    out = None
                    for i_out, sym in mc.outs.items():
                        v = p.cons.get((APE.vstr(sym), "#0"))
                        if v is not None:
                            out = v
                    if out == frozenset((EQ,)):
                        n_merge_fail += 1
                        after = evs[evs.index(mc) + 1:]
                        extra = [x for x in after if x.kind == "call"]
                        res.check(r == ("c", FAILV) and not extra, "C04.R1", site(nxt, "merge-returned-NULL"),
                                  "failed merge returns failure before any further consumption",
                                  "after the merge function reported failure the call %s" %
                                  ("continues with %s" % [x.a for x in extra] if extra else "returns %s" % APE.vstr(r)),
                                  nxt.loc(mc.node), p.describe(nxt))
                # R8: with a merge function, success is returned only after the heap ran dry or a head with a different key was seen
                if r == ("c", OKV):
                    mv = [v for (a, b), v in p.cons.items() if re.search(r"opt\.merge@\d+$", a) and b == "#0"]
                    nomerge = bool(mv) and all(v == frozenset((EQ,)) for v in mv)
                    if mv and not nomerge and any(v == frozenset((EQ,)) for v in mv):
                        continue    # the merge function does not change during a call: mixed valuations are infeasible
                    dry = any(re.match(r"^heap_peek\(", a) and b == "#0" and v == frozenset((EQ,)) for (a, b), v in p.cons.items())
                    lastcmp = None
                    for e in evs:
                        if e.kind == "call" and e.a == "bytes_compare":
                            a_ = [canon(x) for x in call_args(e.node)]
                            if any("cur_key" in x for x in a_):
                                lastcmp = p.cons.get((APE.vstr(e.c), "#0"))
                    res.check(nomerge or dry or (lastcmp is not None and EQ not in lastcmp), "C04.R8", site(nxt, "leave-loop"),
                              "with a merge function the entry is emitted only after the heap ran dry or the next head has a different key",
                              "an entry is emitted without looking at the next head although a merge function is set: equal keys still waiting in the "
                              "(last) source are returned unmerged", nxt.loc(nxt.body), p.describe(nxt))
                # R2 end state
                if r == ("c", OKV):
                    res.check(state in ("Fresh", "Filled", None) and consumed >= 1, "C04.R2", site(nxt, "return-success"),
                              "success returned with every consumed head refilled and at least one entry consumed",
                              "success returned in state %s after consuming %d entries" % (state, consumed), None, p.describe(nxt))
                    # R5: merge == NULL -> exactly one consumed
                    mvals = [v for (a, b), v in p.cons.items()
                             if re.search(r"opt\.merge@\d+$", a) and b == "#0"]
                    # the merge function does not change during a call: mixed valuations are infeasible paths
                    if mvals and all(v == frozenset((EQ,)) for v in mvals):
                        if True:
                            res.check(consumed == 1 and not mcalls, "C04.R5", site(nxt, "no-merge-function"),
                                      "without a merge function exactly one entry is taken per call",
                                      "without a merge function %d entries are consumed in one call" % consumed, None, p.describe(nxt))
    # R1b: failure is reported by leaving the out pointer NULL, so it must be NULL when the merge function is called
    nchk = 0
    for p in ev.paths:
        cur = {}
        for e in p.events:
            if e.kind == "store" and e.a.isidentifier():
                cur[e.a] = e.b
            elif e.kind == "call":
                if e.a.startswith("(*") and "merge" in e.a:
                    for i, v in enumerate(e.b):
                        vs = APE.vstr(v)
                        if vs.startswith("&") and vs[1:].isidentifier() and i in e.outs and "len" not in vs:
                            nchk += 1
                            res.check(cur.get(vs[1:]) == ("c", 0), "C04.R1", site(nxt, "merge-out-pointer-null"),
                                      "the result pointer handed to the merge function is NULL at every call (a failed merge leaves it untouched)",
                                      "the merge function is called with a result pointer that still holds %s from an earlier fold: a merge failure "
                                      "(pointer left untouched) goes unnoticed and the stale, already freed value is used" % APE.vstr(cur.get(vs[1:])) ,
                                      nxt.loc(e.node), p.describe(nxt))
                for i, sym in e.outs.items():
                    vs = APE.vstr(e.b[i])
                    if vs.startswith("&") and vs[1:].isidentifier():
                        cur[vs[1:]] = sym
    if nchk == 0:
        raise BrokenAnalysis("merger_iter_next: merge call out-pointer not recognised")
    if n_merge_fail == 0 and ev.paths:
        res.bad("C04.R1", site(nxt, "merge-returned-NULL"), "no path tests the merge result for failure", nxt.loc(nxt.body))

    # ---- R4 comparator ------------------------------------------------------------
    res.floor("C04.R4", 8)
    cmpf = prog.need("_mtbl_merger_compare", U)
    res.saw(cmpf)
    evc = APE.run(prog, cg, cmpf, bound=APE.BOUND)
    for p in evc.paths:
        if p.end != "exit":
            continue
        an = bn = None
        cmpc = None
        dup = None
        for (a, b), v in p.cons.items():
            if re.match(r"^a->key(@\d+)?$", a) and b == "#0":
                an = v == frozenset((EQ,))
            elif re.match(r"^b->key(@\d+)?$", a) and b == "#0":
                bn = v == frozenset((EQ,))
            elif a.startswith("bytes_compare(") and b == "#0":
                cmpc = v
            elif "dupsort" in a and "clos" not in a and b == "#0":
                dup = v != frozenset((EQ,))
        r = p.ret()
        bc = p.calls("bytes_compare")
        dc = [e for e in p.calls() if e.a.startswith("(*") and "dupsort" in e.a]
        tag = "a%s,b%s,cmp%s,dup%s" % ("N" if an else "-", "N" if bn else "-", "".join(sorted(cmpc)) if cmpc else "-", dup)
        if an and bn:
            res.check(r == ("c", 0), "C04.R4", site(cmpf, tag), "two exhausted entries compare equal", "returns %s" % APE.vstr(r))
        elif an:
            res.check(r[0] == "c" and r[1] > 0, "C04.R4", site(cmpf, tag), "exhausted entry sorts last (a)", "exhausted a compares %s" % APE.vstr(r))
        elif bn:
            res.check(r[0] == "c" and r[1] < 0, "C04.R4", site(cmpf, tag), "exhausted entry sorts last (b)", "exhausted b compares %s" % APE.vstr(r))
        else:
            if not bc:
                res.bad("C04.R4", site(cmpf, tag), "two live entries are ordered without comparing their keys", cmpf.loc(cmpf.body), p.describe(cmpf))
                continue
            a = [canon(x) for x in call_args(bc[0].node)]
            res.check(a == ["a->key", "a->len_key", "b->key", "b->len_key"], "C04.R4", site(cmpf, "key-operands"),
                      "keys compared as (a.key, b.key)", "key comparison operands are %s" % a, cmpf.loc(bc[0].node))
            if dc:
                da = [canon(x) for x in call_args(dc[0].node)]
                res.check(cmpc == frozenset((EQ,)) and r == dc[0].c and da[3:] == ["a->val", "a->len_val", "b->val", "b->len_val"],
                          "C04.R4", site(cmpf, tag), "dupsort consulted only for equal keys, operands (a.val, b.val), its result returned",
                          "dupsort consulted with key sign %s, operands %s" % (sorted(cmpc) if cmpc else None, da[3:]),
                          cmpf.loc(dc[0].node), p.describe(cmpf))
            else:
                res.check(r == bc[0].c and not (cmpc == frozenset((EQ,)) and dup), "C04.R4", site(cmpf, tag),
                          "key comparison result returned unchanged", "returns %s for key sign %s" % (APE.vstr(r), sorted(cmpc) if cmpc else None),
                          None, p.describe(cmpf))

    # heap sites
    hu = "libmy/heap.c"
    # (the comparison sites of the heap itself - which child is preferred, when sifting stops - are no longer recognised by
    # shape: the heap's algorithms are decided in the order domain by rules/heaprule.py, see R10 below)

    # ---- R6 observation paths ---------------------------------------------------------
    res.floor("C04.R6", 2)
    targets = [(prog.need("mtbl_source_write", "mtbl/source.c"), "mtbl_writer_add")]
    mm = prog.func("merge", "src/mtbl_merge.c")
    if mm is None:
        raise BrokenAnalysis("merge() not found in src/mtbl_merge.c")
    targets.append((mm, "mtbl_writer_add"))
    for f, addname in targets:
        res.saw(f)
        evp = APE.run(prog, ctx.cg_all if f.unit.startswith("src/") else cg, f, bound=APE.BOUND)
        seen = 0
        for p in evp.paths:
            evs = [e for e in p.events if e.kind == "call"]
            for i, e in enumerate(evs):
                if e.a != "mtbl_iter_next":
                    continue
                c = None
                for (a, b), v in p.cons.items():
                    if a == APE.vstr(e.c):
                        c = (b, v)
                nexts = []
                for x in evs[i + 1:]:
                    if x.a == "mtbl_iter_next":
                        break
                    nexts.append(x)
                if c is None:
                    continue
                yielded = (c[0] == "#%d" % OKV and c[1] == frozenset((EQ,))) or (c[0] == "#0" and EQ not in c[1] and FAILV == 0)
                adds = [x for x in nexts if x.a == addname]
                if yielded:
                    seen += 1
                    outs = [APE.vstr(v) for v in adds[0].b[1:5]] if adds else []
                    good = len(adds) == 1 and all(re.match(r"^mtbl_iter_next\.out%d#\d+$" % (k + 1), o) for k, o in enumerate(outs))
                    if not good and p.end == "cut" and not adds:
                        continue
                    res.check(good, "C04.R6", site(f, "yield->add"), "every yielded entry is added once with the iterator's key/value",
                              "a yielded entry is added %d time(s) with %s" % (len(adds), outs), f.loc(e.node), p.describe(f))
                    if adds:
                        ca = None
                        for (a, b), v in p.cons.items():
                            if a == APE.vstr(adds[0].c):
                                ca = (b, v)
                        later = [x for x in evs[evs.index(adds[0]) + 1:] if x.a in ("mtbl_iter_next", addname)]
                        accepted = ca is not None and ((ca[0] == "#%d" % OKV and ca[1] == frozenset((EQ,))) or
                                                       (ca[0] == "#%d" % FAILV and EQ not in ca[1]))
                        if later:
                            res.check(accepted, "C04.R6", site(f, "refused-add-stops"), "the loop continues only after an accepted add",
                                      "after an add that may have been refused the loop goes on", f.loc(adds[0].node), p.describe(f))
                else:
                    res.check(not adds, "C04.R6", site(f, "exhausted"), "nothing added after the iterator is exhausted",
                              "add after exhaustion", f.loc(e.node))
        if seen == 0:
            raise BrokenAnalysis("%s: no yield->add step recognised" % f.name)

    # ---- closure pairing ----------------------------------------------------------------------
    from . import closures
    res.floor("C04.R9", 1)
    closures.check(ctx, res, "C04.R9", ('mtbl_merger_options', 'heap'))

    # ---- the heap is in order when an iterator is handed out (shared with C05) --------------------------------
    from . import c05 as _c05
    _c05.heap_ready(ctx, res, "C04.R12")

    # ---- heap discipline ----------------------------------------------------------------------
    from . import heaprule
    heaprule.check(ctx, res, "C04.R10")

    # ---- properties this one rests on (re-run here, labelled <this>.D.<rule>) ------------------
    depends(ctx, res, 'C02', ('C02.R3',), 'the merge order is the order of the byte comparison')

    # ---- container contract ---------------------------------------------------------------------
    from . import vecrule
    vecrule.check(ctx, res, "C04.R11")
