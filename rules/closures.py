"""Closure pairing (shared rule, used by C04.R9, C06.R7, C07.R9): a user callback registered together with a
closure pointer is always called with that closure.

Pairs are *derived from the code*: a function that stores one function-pointer parameter into field F and one
`void *` parameter into field C of the same object registers the pair (record, F, C).  Every indirect call whose
callee expression is `<obj>.F` / `<obj>->F` must then pass `<obj>.C` (same object expression) among its
arguments.  A call that passes another pointer in its place hands the user's function somebody else's state.
"""
from .common import *


def pairs(prog):
    out = {}
    for g in prog.lib_funcs():
        fn_params = {}
        void_params = {}
        for i, prm in enumerate(g.params):
            t = prm.get("ct") or prm["t"]
            if "(*)" in t:
                fn_params[i] = prm["name"]
            elif t.strip() in ("void *", "const void *"):
                void_params[i] = prm["name"]
        if not fn_params or not void_params:
            continue
        st_f = []
        st_c = []
        for n, lhs in field_stores(g):
            if n["k"] != "BinaryOperator" or n.get("op") != "=":
                continue
            r = strip(n["kids"][1])
            if r["k"] == "DeclRefExpr" and r.get("dk") == "param":
                base = canon(lhs["kids"][0])
                if r["idx"] in fn_params:
                    st_f.append((base, lhs.get("rec"), lhs["field"]))
                elif r["idx"] in void_params:
                    st_c.append((base, lhs.get("rec"), lhs["field"]))
        if len(st_f) == 1 and len(st_c) == 1 and st_f[0][0] == st_c[0][0] and st_f[0][1] == st_c[0][1]:
            out[(st_f[0][1], st_f[0][2])] = (st_c[0][2], g.name)
    return out


def _is_closure(g, a, cfield, base):
    """a is <base>.cfield, or a local whose every definition is <base>.cfield."""
    a = strip(a)
    if a["k"] == "MemberExpr":
        return a["field"] == cfield and canon(a["kids"][0]) == base
    if a["k"] == "DeclRefExpr" and a.get("dk") == "local":
        defs = []
        for n in walk(g.body):
            if n["k"] == "DeclStmt":
                for d in n["decls"]:
                    if d["name"] == a["name"] and d.get("init") is not None:
                        defs.append(d["init"])
            elif MR.is_store(n) and strip(n["kids"][0]).get("k") == "DeclRefExpr" and strip(n["kids"][0]).get("name") == a["name"]:
                defs.append(n["kids"][1] if len(n["kids"]) > 1 else None)
        return bool(defs) and all(d is not None and strip(d)["k"] == "MemberExpr" and strip(d)["field"] == cfield and canon(strip(d)["kids"][0]) == base for d in defs)
    return False


def check(ctx, res, rule, records):
    """records: the option records whose callbacks this property is about."""
    prog = ctx.prog
    P = pairs(prog)
    mine = {k: v for k, v in P.items() if k[0] in records}
    if not mine:
        raise BrokenAnalysis("no (callback, closure) registration found for %s" % sorted(records))
    res.tables.setdefault("closure_pairs", {})[rule] = sorted("%s.%s+%s (registered by %s)" % (k[0], k[1], v[0], v[1]) for k, v in mine.items())
    ncall = 0
    for g in prog.lib_funcs():
        for n in walk(g.body):
            if n["k"] != "CallExpr" or n.get("callee"):
                continue
            ce = strip(n["kids"][0])
            if ce["k"] == "UnaryOperator" and ce.get("op") == "*":
                ce = strip(ce["kids"][0])
            if ce["k"] != "MemberExpr" or (ce.get("rec"), ce["field"]) not in mine:
                continue
            cfield, setter = mine[(ce.get("rec"), ce["field"])]
            base = canon(ce["kids"][0])
            ncall += 1
            good = any(_is_closure(g, a, cfield, base) for a in call_args(n))
            res.check(good, rule, site(g, "call:%s" % ce["field"]),
                      "%s is called with the closure registered with it (%s of the same object)" % (ce["field"], cfield),
                      "user callback %s is called without %s.%s, the closure %s registered with it: the callback receives somebody else's state (%s)"
                      % (ce["field"], base, cfield, setter, ", ".join(canon(a)[:30] for a in call_args(n)[:2])), g.loc(n))
    # forwarding: a registered callback handed to another registration travels with its own closure
    setters = {}
    for (rec, f_), (c_, setter) in P.items():
        g = prog.func(setter)
        if g is None:
            continue
        fi = [i for i, prm in enumerate(g.params) if "(*)" in (prm.get("ct") or prm["t"])]
        ci = [i for i, prm in enumerate(g.params) if (prm.get("ct") or prm["t"]).strip() in ("void *", "const void *")]
        if len(fi) == 1 and len(ci) == 1:
            setters[setter] = (fi[0], ci[0])
    for g in prog.lib_funcs():
        for n in walk(g.body):
            if n["k"] != "CallExpr" or n.get("callee") not in setters:
                continue
            fi, ci = setters[n["callee"]]
            a = call_args(n)
            if max(fi, ci) >= len(a):
                continue
            fa, ca = strip(a[fi]), strip(a[ci])
            if fa["k"] == "MemberExpr" and (fa.get("rec"), fa["field"]) in mine:
                cfield, _ = mine[(fa.get("rec"), fa["field"])]
                ncall += 1
                good = ca["k"] == "MemberExpr" and ca["field"] == cfield and canon(ca["kids"][0]) == canon(fa["kids"][0])
                res.check(good, rule, site(g, "forward:%s" % fa["field"]),
                          "%s is forwarded to %s together with its own closure %s" % (fa["field"], n["callee"], cfield),
                          "%s is forwarded to %s with %s instead of its registered closure %s" % (fa["field"], n["callee"], canon(ca)[:40], cfield), g.loc(n))
    if ncall == 0:
        raise BrokenAnalysis("no call through %s found" % sorted(mine))
    return ncall
