"""Container contract (shared rule): libmy/vector.h - the macro every buffer, restart array, heap array and entry
list of the library is generated from - keeps its promises.

Decided with the allocation-aware interpreter (mtblcheck/memmodel.py) on three generated families (1-byte
elements: ubuf; 8-byte integers: uint64_vec; pointers: ptrvec).  Sizes are concrete per scenario, element values
are symbolic.  After every operation of every scenario:
  I1  _v points to the start of a live allocation of at least _n_alloced * sizeof(type) bytes, 1 <= _n_alloced,
      _n <= _n_alloced, _p == &_v[_n];
  I2  the elements present before the operation (below the new size) are unchanged, new elements are the ones given;
  I3  the operation's own post-condition (size after add/append/advance/clip/reset, room after reserve, ownership
      after detach/destroy);
  I4  no access outside an allocation, no use after free, no double free, no failing assertion.
The rest of the framework models these functions by their contract; this rule is what that trust rests on.
"""
from .common import *
from mtblcheck import bits as B
from mtblcheck import memmodel as M

FAMILIES = [("ubuf", 1, "int", 8), ("uint64_vec", 8, "int", 64), ("ptrvec", 8, "ptr", 64)]


class Scn:
    def __init__(self, ctx, res, rule, fam):
        self.ctx, self.res, self.rule = ctx, res, rule
        self.pfx, self.es, self.kind, self.bits = fam
        self.prog = ctx.prog
        f0 = self.prog.func(self.pfx + "_init")
        if f0 is None:
            raise BrokenAnalysis("vector family %s not found" % self.pfx)
        self.unit = f0.unit
        self.I = M.MemInterp(self.prog, self.unit)
        self.nel = 0
        self.problems = []
        self.nops = 0

    def fn(self, op):
        f = self.prog.func("%s_%s" % (self.pfx, op), self.unit)
        if f is None:
            raise BrokenAnalysis("%s_%s not found" % (self.pfx, op))
        self.res.saw(f)
        return f

    def fresh(self):
        k = self.nel
        self.nel += 1
        if self.kind == "ptr":
            return B.Ptr(("E", k), 0)
        return B.BV([("v", 1000 + k, j) for j in range(self.bits)], False)

    def call(self, st, op, args):
        out = self.I.call(st, self.fn(op), args)
        self.nops += 1
        if len(out) != 1:
            raise BrokenAnalysis("%s_%s forks into %d traces in a concrete scenario" % (self.pfx, op, len(out)))
        return out[0]

    # ---- reading the abstract state ---------------------------------------------------------------
    def fields(self, s, vp):
        h = s.ext["heap"]

        def F(name):
            v = h.fields.get(((vp.base, vp.off), name))
            if v is None and isinstance(vp.base, tuple) and vp.base[0] == "A" and h.allocs.get(vp.base[1], [0, False, False])[2]:
                return B.Ptr(None, 0) if name in ("_v", "_p") else B.const(0, 64, False)    # calloc'ed record
            return v

        def C(v):
            if isinstance(v, B.BV):
                v = s.nbits(v)
                return v.value() if v.is_const() else None
            return None
        return {"v": F("_v"), "p": F("_p"), "n": C(F("_n")), "na": C(F("_n_alloced")), "hint": C(F("_hint"))}

    def element(self, s, A, i):
        h = s.ext["heap"]
        if self.kind == "ptr":
            return h.pcells.get((A, i * 8))
        out = []
        for b in range(self.es):
            x = s.mem.get((A, i * self.es + b))
            if x is None:
                return None
            out += [s.norm(y) for y in x]
        return tuple(out)

    def same(self, a, b):
        if self.kind == "ptr":
            return isinstance(a, B.Ptr) and isinstance(b, B.Ptr) and a.base == b.base and a.off == b.off
        return a is not None and tuple(a) == tuple(b.bits if isinstance(b, B.BV) else b)

    def invariant(self, s, vp, what, expect):
        """expect: list of expected element values (None = do not care)."""
        st = self.fields(s, vp)
        h = s.ext["heap"]
        pr = []
        v = st["v"]
        if not (isinstance(v, B.Ptr) and isinstance(v.base, tuple) and v.base[0] == "A" and v.off == 0):
            pr.append("_v is not the start of an allocation (%r)" % (v,))
        else:
            a = h.allocs.get(v.base[1])
            if a is None or not a[1]:
                pr.append("_v points to freed memory")
            elif st["na"] is None or a[0] < st["na"] * self.es:
                pr.append("_n_alloced = %s elements but the allocation has %d bytes (%d needed)" % (st["na"], a[0], (st["na"] or 0) * self.es))
        if st["n"] is None or st["na"] is None or st["n"] > st["na"] or st["na"] < 1:
            pr.append("_n = %s, _n_alloced = %s" % (st["n"], st["na"]))
        p = st["p"]
        if isinstance(v, B.Ptr) and st["n"] is not None and not (isinstance(p, B.Ptr) and p.base == v.base and p.off == st["n"] * self.es):
            pr.append("_p is %r, not &_v[%s]" % (p, st["n"]))
        if not pr and expect is not None:
            if st["n"] != len(expect):
                pr.append("size is %s, expected %d" % (st["n"], len(expect)))
            else:
                for i, e in enumerate(expect):
                    if e is None:
                        continue
                    got = self.element(s, v.base, i)
                    if not self.same(got, e):
                        pr.append("element %d is not the value that was put there" % i)
                        break
        for x in pr:
            self.problems.append("%s: %s" % (what, x))
        return st

    # ---- scenarios --------------------------------------------------------------------------------------
    def build(self, hint, k):
        s = self.I.new_state()
        s, vp = self.call(s, "init", [hint])
        els = []
        for _ in range(k):
            e = self.fresh()
            s, _r = self.call(s, "add", [vp, e])
            els.append(e)
        return s, vp, els

    def run(self):
        try:
            self._run()
        except M.MemFault as e:
            self.problems.append(str(e))
        self.res.check(not self.problems, self.rule, "%s:contract" % self.pfx,
                       "%d operations over %d scenarios keep I1-I4 (element size %d, %s elements)" % (self.nops, self.nscn, self.es, self.kind),
                       "; ".join(self.problems[:3]))

    def _run(self):
        self.nscn = 0
        # init
        for hint in (0, 1, 3):
            self.nscn += 1
            s = self.I.new_state()
            s, vp = self.call(s, "init", [hint])
            st = self.invariant(s, vp, "init(%d)" % hint, [])
            if st["na"] != max(hint, 1) or st["hint"] != max(hint, 1):
                self.problems.append("init(%d): capacity %s / hint %s, expected %d" % (hint, st["na"], st["hint"], max(hint, 1)))
        # add sequences (growth by doubling from 1 and from 2), accessors
        for hint in (1, 2):
            self.nscn += 1
            s = self.I.new_state()
            s, vp = self.call(s, "init", [hint])
            els = []
            for k in range(1, 7):
                e = self.fresh()
                s, _r = self.call(s, "add", [vp, e])
                els.append(e)
                self.invariant(s, vp, "add #%d from hint %d" % (k, hint), els)
            s, r = self.call(s, "size", [vp])
            if not (isinstance(r, B.BV) and s.nbits(r).is_const() and s.nbits(r).value() == 6):
                self.problems.append("size() after 6 adds is %r" % (r,))
            s, r = self.call(s, "bytes", [vp])
            if not (isinstance(r, B.BV) and s.nbits(r).is_const() and s.nbits(r).value() == 6 * self.es):
                self.problems.append("bytes() after 6 adds is %r" % (r,))
            for i in (0, 5):
                s, r = self.call(s, "value", [vp, i])
                ok = self.same(tuple(s.nbits(r).bits), els[i]) if self.kind == "int" else self.same(r, els[i])
                if not ok:
                    self.problems.append("value(%d) does not return element %d" % (i, i))
            st = self.fields(s, vp)
            s, r = self.call(s, "data", [vp])
            if not (isinstance(r, B.Ptr) and r.base == st["v"].base and r.off == 0):
                self.problems.append("data() is not _v")
            s, r = self.call(s, "ptr", [vp])
            if not (isinstance(r, B.Ptr) and r.base == st["v"].base and r.off == 6 * self.es):
                self.problems.append("ptr() is not &_v[size]")
        # reserve / advance
        for k in (0, 1, 3):
            for m in (0, 1, 2, 3, 7):
                self.nscn += 1
                s, vp, els = self.build(2, k)
                s, _r = self.call(s, "reserve", [vp, m])
                st = self.invariant(s, vp, "reserve(%d) with %d elements" % (m, k), els)
                if st["na"] is not None and st["n"] is not None and st["na"] - st["n"] < m:
                    self.problems.append("reserve(%d) with %d elements leaves room for %d" % (m, k, st["na"] - st["n"]))
                if m:
                    s, _r = self.call(s, "advance", [vp, m])
                    self.invariant(s, vp, "advance(%d) after reserve" % m, els + [None] * m)
        # append / extend (integer families: the source is a caller buffer)
        if self.kind == "int":
            for k in (0, 2):
                for m in (0, 1, 5):
                    self.nscn += 1
                    s, vp, els = self.build(2, k)
                    src = B.Ptr(("p", 9), 0)
                    s, _r = self.call(s, "append", [vp, src, m])
                    exp = list(els)
                    for i in range(m):
                        bits_ = []
                        for b in range(self.es):
                            bits_ += [("d", ("p", 9), i * self.es + b, j) for j in range(8)]
                        exp.append(B.BV(bits_, False))
                    self.invariant(s, vp, "append(%d) to %d elements" % (m, k), exp)
            self.nscn += 1
            s, vp, els = self.build(1, 2)
            s2, vq = self.call(s, "init", [2])
            more = []
            s = s2
            for _ in range(3):
                e = self.fresh()
                s, _r = self.call(s, "add", [vq, e])
                more.append(e)
            s, _r = self.call(s, "extend", [vp, vq])
            self.invariant(s, vp, "extend by 3", els + more)
            self.invariant(s, vq, "extend source", more)
        # clip
        for k, c in ((4, 0), (4, 3), (4, 4), (4, 9)):
            self.nscn += 1
            s, vp, els = self.build(2, k)
            s, _r = self.call(s, "clip", [vp, c])
            self.invariant(s, vp, "clip(%d) of %d" % (c, k), els[:min(c, k)])
        # reset gives the memory back down to the hint
        for k in (0, 1, 5):
            self.nscn += 1
            s, vp, els = self.build(2, k)
            s, _r = self.call(s, "reset", [vp])
            st = self.invariant(s, vp, "reset after %d adds" % k, [])
            if st["na"] != 2:
                self.problems.append("reset after %d adds leaves capacity %s, not the hint" % (k, st["na"]))
            e = self.fresh()
            s, _r = self.call(s, "add", [vp, e])
            self.invariant(s, vp, "add after reset", [e])
        # detach hands the buffer over and starts a fresh one
        self.nscn += 1
        s, vp, els = self.build(2, 3)
        h = s.ext["heap"]
        old = self.fields(s, vp)["v"]
        cell_out = self._cell(s, 8)
        cell_sz = self._cell(s, 8)
        s, _r = self.call(s, "detach", [vp, cell_out, cell_sz])
        h = s.ext["heap"]
        got = h.pcells.get((cell_out.base, 0))
        if not (isinstance(got, B.Ptr) and got.base == old.base and got.off == 0) or not h.allocs[old.base[1]][1]:
            self.problems.append("detach does not hand the old buffer to the caller")
        szb = []
        for b in range(8):
            szb += list(s.mem.get((cell_sz.base, b), (None,) * 8))
        if not (all(x in (0, 1) for x in szb) and B.BV(szb).value() == 3):
            self.problems.append("detach reports a size other than the number of elements")
        st = self.invariant(s, vp, "detach", [])
        if isinstance(st["v"], B.Ptr) and st["v"].base == old.base:
            self.problems.append("detach keeps using the buffer it handed over")
        for i, e in enumerate(els):
            if not self.same(self.element(s, old.base, i), e):
                self.problems.append("detach: handed-over buffer lost element %d" % i)
                break
        # destroy releases both allocations exactly once; destroy of an empty handle is harmless
        self.nscn += 1
        s, vp, els = self.build(2, 3)
        cell = self._cell(s, 8)
        s.ext["heap"].pcells[(cell.base, 0)] = vp
        va = self.fields(s, vp)["v"].base[1]
        s, _r = self.call(s, "destroy", [cell])
        h = s.ext["heap"]
        if h.allocs[va][1] or h.allocs[vp.base[1]][1]:
            self.problems.append("destroy leaves %s allocated" % ("the element array" if h.allocs[va][1] else "the vector record"))
        s = self.I.new_state()
        cell = self._cell(s, 8)
        s.ext["heap"].pcells[(cell.base, 0)] = B.Ptr(None, 0)
        s, _r = self.call(s, "destroy", [cell])

    def _cell(self, s, size):
        h = s.ext["heap"]
        k = h.next
        h.next += 1
        h.allocs[k] = [size, True, True]
        return B.Ptr(("A", k), 0)


def check(ctx, res, rule):
    res.floor(rule, len(FAMILIES))
    tot = 0
    for fam in FAMILIES:
        sc = Scn(ctx, res, rule, fam)
        sc.run()
        tot += sc.nops
    res.tables.setdefault("vector_contract", {})[rule] = {"families": [f[0] for f in FAMILIES], "operations_interpreted": tot}
    res.trusted.append("models of malloc/calloc/realloc/free and memcpy in mtblcheck/memmodel.py")
