"""C07 - fileset view follows the setfile; open iterators pin their snapshot.

R1 no reload under an open iterator: every call of my_fileset_reload is reached only with
   n_iters == 0 established on the path.
R2 iterator counting: n_iters++ only in fileset_iter_init, n_iters-- only in the registered free
   function (once, followed by a reload attempt); all four source functions return through
   fileset_iter_init.
R3 every source operation reloads before it reads the handle's merger.
R4 deferral and the reload decision table (T-cmp 24); reload_needed is cleared only after a reload.
R5 handle generation typestate: a handle declares itself current (stores its fs_last) only in
   state Current (merger rebuilt, or known equal to the shared generation and nothing changed).
R6 filter formula of fs_reinit_merger; merger rebuilt from the handle's options.
R8 the generation stamp stored in fs_last is read from a clock that is not one of the platform's
   coarse clocks (handles compare stamps for equality).
R9 closure pairing (rules/closures.py): the fileset's filters, merge and dupsort functions are called and forwarded with their own closures.
"""
import re
from .common import *

EXPLANATION = ("static typestate and decision-table rules over the abstract paths of mtbl/fileset.c: reload guarded by the open-iterator "
               "count, iterator counting pairs, reload-before-use, the reload decision table, the handle-generation typestate "
               "(declared current => merger rebuilt or known current), and the filter formula; see DESIGN 3 C07")
DESIGN_REF = "DESIGN.md section 3, C07"
U = "mtbl/fileset.c"


def run(ctx, res):
    prog, cg = ctx.prog, ctx.cg
    for g in prog.unit_funcs(U):
        if g.file.endswith("fileset.c"):
            res.saw(g)
    reload_ = prog.need("mtbl_fileset_reload", U)
    now_ = prog.need("mtbl_fileset_reload_now", U)
    paths = {}
    for g in (reload_, now_):
        paths[g.name] = APE.run(prog, cg, g, bound=APE.BOUND).paths

    # ---- R1 -------------------------------------------------------------------
    res.floor("C07.R1", 2)
    callers = set(f.name for f, c in lib_calls(prog, "my_fileset_reload"))
    res.check(callers == {reload_.name, now_.name}, "C07.R1", "my_fileset_reload:callers", "setfile reload is called only from the two reload functions",
              "my_fileset_reload is now also called from %s" % sorted(callers - {reload_.name, now_.name}))
    for g in (reload_, now_):
        bad = None
        n = 0
        for p in paths[g.name]:
            rl = p.calls("my_fileset_reload")
            if not rl:
                continue
            n += 1
            i = p.events.index(rl[0])
            ok = False
            for e in p.events[:i]:
                if e.kind == "branch" and isinstance(e.a, tuple) and re.search(r"->n_iters@\d+$", e.a[0]) and e.a[1] == "#0" and GT not in e.b:
                    ok = True
                if e.kind == "call" and e.a in ("fileset_iter_init", "mtbl_source_iter", "mtbl_source_get", "mtbl_source_get_prefix", "mtbl_source_get_range"):
                    ok = False
            if not ok:
                bad = p
        if n == 0:
            raise BrokenAnalysis("%s: no path reaches my_fileset_reload" % g.name)
        res.check(bad is None, "C07.R1", site(g, "reload-guard"), "the setfile is reloaded only with n_iters == 0 established on the path",
                  "%s can reload the setfile (and unload readers) while iterators are open: their snapshot is freed under them" % g.name,
                  g.loc(g.body), bad.describe(g) if bad else None)

    # ---- R2 --------------------------------------------------------------------
    res.floor("C07.R2", 6)
    inc, dec = [], []
    for g in prog.lib_funcs():
        for n, lhs in field_stores(g, "shared_fileset", "n_iters"):
            (inc if n.get("op") == "++" or (n.get("op") == "+=") else dec if n.get("op") in ("--", "-=") else inc).append((g, n))
    fi = prog.need("fileset_iter_init", U)
    ff = prog.need("fileset_iter_free", U)
    res.check([g.name for g, n in inc] == [fi.name], "C07.R2", "n_iters++:sites", "n_iters++ only in fileset_iter_init",
              "n_iters is incremented in %s" % [g.name for g, n in inc])
    res.check([g.name for g, n in dec] == [ff.name], "C07.R2", "n_iters--:sites", "n_iters-- only in fileset_iter_free",
              "n_iters is decremented in %s" % [g.name for g, n in dec])
    mi = fi.calls("mtbl_iter_init")
    res.check(len(mi) == 1 and canon(call_args(mi[0])[2]) == ff.name, "C07.R2", site(fi, "registers-free"),
              "the counting free function is the one registered with the iterator", "fileset iterators are not registered with fileset_iter_free")
    for p in APE.run(prog, cg, fi, bound=APE.BOUND).paths:
        if p.end == "exit":
            n = [e for e in p.events if e.kind == "store" and e.a.endswith("->n_iters")]
            mk = p.calls("mtbl_iter_init")
            counted = len(mk) == 1 and p.ret() == mk[0].c
            res.check((len(n) == 1 and counted) or (len(n) == 0 and not mk), "C07.R2", site(fi, "once"),
                      "the open-iterator count is incremented exactly when an iterator with the counting free function is handed out",
                      "n_iters is incremented %d time(s) on a path that %s: the count never returns to zero and every later reload is deferred forever"
                      % (len(n), "returns a counted iterator" if counted else "hands out no iterator to undo it"), fi.loc(fi.body), p.describe(fi))
    for p in APE.run(prog, cg, ff, bound=APE.BOUND).paths:
        if p.end != "exit":
            continue
        evs = [e for e in p.events if e.kind != "branch"]
        n = [i for i, e in enumerate(evs) if e.kind == "store" and e.a.endswith("->n_iters")]
        rl = [i for i, e in enumerate(evs) if e.kind == "call" and e.a == "mtbl_fileset_reload"]
        nonnull = any(a == ff.params[0]["name"] or a == "it" for (a, b), v in p.cons.items() if b == "#0" and EQ not in v)
        if not n and not rl:
            continue
        res.check(len(n) == 1 and len(rl) == 1 and n[0] < rl[0], "C07.R2", site(ff, "decrement-then-reload"),
                  "one decrement, then a reload attempt (deferred reloads happen when the last iterator goes)",
                  "freeing an iterator does not decrement once and then retry the reload", ff.loc(ff.body), p.describe(ff))
    srcs = {"fileset_source_iter": "mtbl_source_iter", "fileset_source_get": "mtbl_source_get",
            "fileset_source_get_prefix": "mtbl_source_get_prefix", "fileset_source_get_range": "mtbl_source_get_range"}
    res.floor("C07.R3", 4)
    for fn, inner in srcs.items():
        g = prog.need(fn, U)
        for p in APE.run(prog, cg, g, bound=APE.BOUND).paths:
            if p.end != "exit":
                continue
            evs = [e for e in p.events if e.kind == "call"]
            names = [e.a for e in evs]
            r = p.ret()
            wrap = [e for e in evs if e.a == fi.name]
            res.check(len(wrap) == 1 and r == wrap[0].c, "C07.R2", site(g, "returns-counted-iterator"),
                      "returns through fileset_iter_init", "%s hands out an iterator that is not counted" % fn, g.loc(g.body), p.describe(g))
            # R3: reload precedes the first read of f->merger
            rl = names.index("mtbl_fileset_reload") if "mtbl_fileset_reload" in names else None
            mg = [i for i, e in enumerate(evs) if e.a in ("mtbl_merger_source", inner)]
            res.check(rl is not None and mg and rl < mg[0], "C07.R3", site(g, "reload-first"),
                      "mtbl_fileset_reload(f) precedes the first use of the handle's merger",
                      "%s uses the merger before (or without) giving the fileset a chance to reload" % fn, g.loc(g.body), p.describe(g))
            pn = [x["name"] for x in g.params]
            if wrap and inner in names:
                ie = evs[names.index(inner)]
                want = [("s", n) for n in pn[1:]]
                res.check(list(ie.b[1:]) == want, "C07.R2", site(g, "lookup-args"), "lookup forwards its own key parameters",
                          "%s forwards %s" % (fn, [APE.vstr(x) for x in ie.b[1:]]), g.loc(g.body))

    # ---- R4 -----------------------------------------------------------------------
    res.floor("C07.R4", 6)
    never = None
    for p in paths[reload_.name]:
        if p.end != "exit":
            continue
        evs = p.events
        did = bool(p.calls("my_fileset_reload"))
        needed = iters = diff = nev = None
        for e in evs:
            if e.kind != "branch" or not isinstance(e.a, tuple):
                continue
            a, b = e.a
            if re.search(r"->reload_needed@\d+$", a) and b == "#0":
                needed = EQ not in e.b if needed is None or True else needed
            elif re.search(r"->n_iters@\d+$", a) and b == "#0":
                iters = e.b
            elif re.search(r"->reload_interval@\d+$", a) and b.startswith("#") and b != "#0":
                nev = e.b == frozenset((EQ,))
            elif "tv_sec" in a and re.search(r"reload_interval@\d+$", b):
                diff = e.b
        tag = "needed=%s,never=%s,iters=%s,diff=%s" % (needed, nev, "".join(sorted(iters)) if iters else "-", "".join(sorted(diff)) if diff else "-")
        if did:
            good = iters is not None and GT not in iters and (needed is True or (diff is not None and diff == frozenset((GT,))))
            res.check(good, "C07.R4", site(reload_, "reload[%s]" % tag), "reload only with no open iterator and (pending or interval elapsed)",
                      "reload happens although no reload is pending and the interval has not elapsed (strictly more than the interval)",
                      reload_.loc(reload_.body), p.describe(reload_))
            clr = [e for e in evs if e.kind == "store" and e.a.endswith("->reload_needed")]
            res.check(len(clr) == 1 and clr[0].b == ("c", 0) and evs.index(clr[0]) > evs.index(p.calls("my_fileset_reload")[0]),
                      "C07.R4", site(reload_, "clear-after-reload"), "reload_needed cleared after the reload", "pending flag not cleared after the reload")
        else:
            open_it = iters is not None and EQ not in iters
            short_never = needed is False and nev is True
            not_due = needed is False and diff is not None and GT not in diff
            res.check(open_it or short_never or not_due, "C07.R4", site(reload_, "skip[%s]" % tag),
                      "no reload only when iterators are open, or nothing is pending and (never | interval not elapsed)",
                      "a pending or due reload is skipped", reload_.loc(reload_.body), p.describe(reload_))
            clr = [e for e in evs if e.kind == "store" and e.a.endswith("->reload_needed")]
            res.check(not clr, "C07.R4", site(reload_, "no-clear-without-reload"), "pending flag untouched without a reload", "pending flag cleared without reloading")
    for p in paths[now_.name]:
        if p.end != "exit":
            continue
        did = bool(p.calls("my_fileset_reload"))
        if not did:
            st = [e for e in p.events if e.kind == "store" and e.a.endswith("->reload_needed")]
            res.check(len(st) == 1 and st[0].b == ("c", 1), "C07.R4", site(now_, "defer"), "reload_now under open iterators records the request",
                      "reload_now under open iterators forgets the request", now_.loc(now_.body), p.describe(now_))

    # ---- R5 --------------------------------------------------------------------------
    res.floor("C07.R5", 3)
    res.floor("C07.R7", 3)
    # the change indicators: fields of the shared record that the load / unload callbacks (the functions registered with
    # my_fileset_init) write - two counters today; a flag, one counter, ... just as well
    cbs_ = []
    for i_ in (1, 2):
        cbs_ += [prog.func(n_, U) for n_ in cg.param_funcs.get(("my_fileset_init", i_), ()) if prog.func(n_, U) is not None]
    IND = set()
    for cb_ in cbs_:
        for n_, lhs_ in field_stores(cb_, "shared_fileset"):
            IND.add(lhs_["field"])
    if len(cbs_) < 2 or not IND:
        raise BrokenAnalysis("the load / unload callbacks registered with my_fileset_init do not record changes in the shared fileset (%d callbacks, fields %s)" % (len(cbs_), sorted(IND)))
    res.tables["C07.change_indicators"] = sorted(IND)
    indre = "|".join(re.escape(x) for x in sorted(IND))
    for g in (reload_, now_):
        for p in paths[g.name]:
            if p.end != "exit":
                continue
            sec = nsec = False          # equality of the handle's and the shared generation established
            reinit = False              # merger rebuilt since the last (possible) change
            reloaded = False
            need = set()                # counters still to be shown zero after a setfile reload
            changed = False
            for e in p.events:
                if e.kind == "branch" and isinstance(e.a, tuple):
                    a, b = e.a
                    own = lambda s_: re.search(r"^\w+->fs_last\.tv_(sec|nsec)@", s_)
                    shr = lambda s_: re.search(r"shared_fs->fs_last\.tv_(sec|nsec)@", s_)
                    if (own(a) and shr(b)) or (own(b) and shr(a)):
                        if e.b == frozenset((EQ,)):
                            if "tv_nsec" in a:
                                nsec = True
                            else:
                                sec = True
                    m = re.search(r"->(%s)@\d+$" % indre, a)
                    if m and b == "#0" and reloaded:
                        if GT not in e.b:
                            need.discard(m.group(1))
                        elif EQ not in e.b:
                            changed = True
                            reinit = False
                elif e.kind == "call" and e.a == "fs_reinit_merger":
                    reinit = True
                    changed = False
                    need = set()
                elif e.kind == "call" and e.a == "my_fileset_reload":
                    reloaded = True
                    need = set(IND)
                    reinit_before = reinit
                    # a rebuild before the reload only stays valid if nothing changes (same evidence needed)
                    if reinit:
                        sec = nsec = True
                        reinit = False
                elif e.kind == "store" and re.match(r"^\w+->fs_last$", e.a):
                    current = reinit or (sec and nsec and not changed and not need)
                    res.check(current, "C07.R5", site(g, "declares-current"),
                              "the handle stores its generation only when its merger is known to match the shared file set",
                              "%s marks the handle as up to date (fs_last := ...) although its merger was neither rebuilt nor shown to match the shared "
                              "generation with nothing loaded or unloaded since: a handle whose readers were unloaded (possibly through another handle) "
                              "keeps a merger over freed readers" % g.name, g.loc(e.node), p.describe(g))
                    if current:
                        sec = nsec = True
            if g is reload_:
                res.check(reinit or (sec and nsec and not changed and not need), "C07.R7", site(g, "current-at-exit"),
                          "every return of mtbl_fileset_reload leaves the handle's merger matching the shared file set (rebuilt or shown equal)",
                          "mtbl_fileset_reload can return without having compared the handle's generation with the shared one: a source operation then uses a "
                          "merger over files that another handle has since reloaded or unloaded", g.loc(g.body), p.describe(g))
    # every callback records a change (stores something that is not a reset into an indicator); nobody else does
    for cb_ in cbs_:
        marks = [(lhs_["field"], n_.get("op")) for n_, lhs_ in field_stores(cb_, "shared_fileset") if lhs_["field"] in IND and
                 (n_.get("op") in ("++", "+=", "|=") or (n_.get("op") == "=" and const_val(n_["kids"][1]) not in (0, None)))]
        res.check(len(marks) >= 1, "C07.R5", "%s:counted-once" % cb_.name, "%s records the change it makes in %s" % (cb_.name, sorted(set(m_[0] for m_ in marks))),
                  "%s does not record that it changed the file set: a reload that only (un)loads through it is not followed by a merger rebuild" % cb_.name, cb_.loc(cb_.body))
    others = [(g_.name, lhs_["field"]) for g_ in prog.lib_funcs() if g_.name not in [c_.name for c_ in cbs_]
              for n_, lhs_ in field_stores(g_, "shared_fileset") if lhs_["field"] in IND and
              not (n_.get("op") == "=" and const_val(n_["kids"][1]) == 0)]
    res.check(not others, "C07.R5", "change-indicators:writers", "outside the callbacks the change indicators are only reset",
              "change indicators are also modified by %s" % sorted(set(others)))

    # ---- R6 --------------------------------------------------------------------------
    res.floor("C07.R6", 3)
    ri = prog.need("fs_reinit_merger", U)
    for p in APE.run(prog, cg, ri, bound=APE.BOUND).paths:
        evs = list(p.events)
        for i, e in enumerate(evs):
            if e.kind != "call" or e.a != "my_fileset_get":
                continue
            c = p.cons.get((APE.vstr(e.c), "#0"))
            if c is None or EQ in c:
                continue
            rest = []
            for x in evs[i + 1:]:
                if x.kind == "call" and x.a == "my_fileset_get":
                    break
                rest.append(x)
            added = any(x.kind == "call" and x.a == "mtbl_merger_add_source" for x in rest)
            rdr = e.outs.get(3)
            rnull = p.cons.get((APE.vstr(rdr), "#0")) if rdr else None
            fcalls = [x for x in rest if x.kind == "call" and x.a.startswith("(*") and "filter" in x.a]
            verdicts = {}
            for x in fcalls:
                which = "fname" if "fname_filter" in x.a else "reader"
                cc = p.cons.get((APE.vstr(x.c), "#0"))
                verdicts[which] = None if cc is None else (EQ not in cc)
            nofilter = {}
            for x in rest:
                if x.kind == "branch" and isinstance(x.a, tuple):
                    m = re.search(r"->(fname|reader)_filter@\d+$", x.a[0])
                    if m and x.a[1] == "#0":
                        nofilter[m.group(1)] = x.b == frozenset((EQ,))
            if p.end == "cut" and not added and rnull is None:
                continue
            if added:
                good = rnull is not None and EQ not in rnull and all(
                    nofilter.get(w) is True or verdicts.get(w) is True for w in ("fname", "reader"))
                res.check(good, "C07.R6", site(ri, "add-source"), "a reader is added only if non-NULL and every configured filter accepted it",
                          "a source is added although %s" % ("the reader may be NULL" if not (rnull and EQ not in rnull) else
                                                             "a configured filter did not accept it (filters: %s, unset: %s)" % (verdicts, nofilter)),
                          ri.loc(ri.body), p.describe(ri))
            else:
                if p.end == "cut":
                    continue
                why = (rnull is not None and rnull == frozenset((EQ,))) or any(verdicts.get(w) is False for w in ("fname", "reader"))
                res.check(why, "C07.R6", site(ri, "skip-source"), "a reader is skipped only if NULL or refused by a configured filter",
                          "a file is left out of the view although it opened and no configured filter refused it", ri.loc(ri.body), p.describe(ri))
    mi = ri.calls("mtbl_merger_init")
    res.check(len(mi) == 1 and canon(call_args(mi[0])[0]).endswith("->mopt"), "C07.R6", site(ri, "merger-from-mopt"),
              "the merger is rebuilt from the handle's own options", "merger rebuilt from other options")

    # ---- R8 the generation stamp distinguishes successive reloads ---------------------------------
    # handles compare (tv_sec, tv_nsec) of fs_last for equality to learn that another handle reloaded; a clock
    # whose value stays the same for milliseconds gives two reloads the same stamp.
    res.floor("C07.R8", 2)
    coarse = _coarse_clock_ids(prog)
    for g in (reload_, now_):
        stamps = [n for n, lhs in field_stores(g) if lhs["field"] == "fs_last" and (lhs.get("rec") == "shared_fileset" or "shared_fs" in canon(lhs))]
        gts = g.calls("my_gettime")
        if not stamps:
            continue
        if not gts:
            res.bad("C07.R8", site(g, "stamp-clock"), "the generation stamp is no longer read from my_gettime", g.loc(stamps[0]))
            continue
        for c in gts:
            v = const_val(call_args(c)[0])
            names = [k for k, x in coarse.items() if x == v]
            res.check(v is not None and not names, "C07.R8", site(g, "stamp-clock"),
                      "the generation stamp comes from clock id %s, which is not a coarse clock" % v,
                      "the generation stamp comes from %s: two reloads within one tick (milliseconds) get the same stamp and a second handle "
                      "never notices the first one's reload" % (names[0] if names else "a clock id that is not a constant"), g.loc(c))
    mg = prog.func("my_gettime", U)
    if mg is not None:
        inner = mg.calls("clock_gettime")
        if inner:
            a0 = strip(call_args(inner[0])[0])
            rewrites = [n for n, lhs in stores_in(mg) if lhs["k"] == "DeclRefExpr" and lhs.get("dk") == "param" and lhs.get("idx") == 0]
            res.check(a0["k"] == "DeclRefExpr" and a0.get("dk") == "param" and a0["idx"] == 0 and not rewrites, "C07.R8", site(mg, "forwards-clock"),
                      "my_gettime passes the clock id it is given, unchanged, on to clock_gettime",
                      "my_gettime %s: the caller's choice of a fine-grained clock is not honoured" %
                      ("replaces the clock id it is given before reading the clock" if rewrites else "ignores the clock id it is given"),
                      mg.loc(rewrites[0] if rewrites else inner[0]))
            coarse_here = [c for c in inner if const_val(call_args(c)[0]) in set(coarse.values())]
            for c in coarse_here:
                res.bad("C07.R8", site(mg, "coarse-clock"), "my_gettime reads a coarse clock whatever it is asked for", mg.loc(c))


    # ---- closure pairing ----------------------------------------------------------------------
    from . import closures
    res.floor("C07.R9", 1)
    closures.check(ctx, res, "C07.R9", ('mtbl_fileset_options',))
    # ---- what this property rests on (re-run here, labelled C07.D.<rule>) ---------------------------------------------
    depends(ctx, res, 'C18', ('C18.R7',), 'a file dropped from the setfile leaves the view only if the reload unloads it: an entry must not stay marked as carried over')

_COARSE = {}


def _coarse_clock_ids(prog):
    """Values of the coarse clock ids on the configured platform, from the preprocessor."""
    import subprocess
    if _COARSE:
        return _COARSE
    p = subprocess.run(["clang", "-dM", "-E", "-include", "time.h", "-x", "c", "/dev/null", "-D_GNU_SOURCE"],
                       capture_output=True, text=True)
    for line in p.stdout.splitlines():
        m = re.match(r"#define (CLOCK_\w*COARSE) (\d+)$", line)
        if m:
            _COARSE[m.group(1)] = int(m.group(2))
    if not _COARSE:
        raise BrokenAnalysis("cannot read the coarse clock ids from <time.h>")
    return _COARSE
