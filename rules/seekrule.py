"""In-block search decided in the order domain (C02.R4, C03.R4; replaces the shape rules for T-cmp rows 8-11).

block_iter_seek touches the block's keys only through compare_restart_point (restart key vs. target) and bytes_compare
(current key vs. target).  For a block of m entries with strictly increasing keys, restart interval c, and an iterator
that is fresh, positioned at any entry, or exhausted, the function is interpreted (mtblcheck/order.py) with

    compare_restart_point(bi, i, t)   := order(key[i*c], t)           (faults when i >= number of restarts)
    seek_to_restart_point(bi, i)      := next := i*c, restart_index := i, no current key
    parse_next_key(bi)                := current := next, next += 1, restart_index := current / c; at the end: exhausted
    bytes_compare(current key, t)     := order(key[current], t)

modelled by their contracts (each contract is what C01.R1/C03.R4/C11 decide for the function itself).  The target's
position among the keys is never chosen: every comparison splits the trace three ways, consistent with k0 < k1 < ...
After the call, on every trace: the iterator stands on the first entry whose key is known to be >= the target (its
predecessor known to be below), or is exhausted when the last key is known to be below.  Any index outside the restart
array is a violation.  Shape-independent: galloping, bisection, the continue-from-current shortcut may be written or
split into helpers in any way.
"""
from .common import *
from mtblcheck import bits as B
from mtblcheck import order as O

U = "mtbl/block.c"
T = 1000          # element id of the target


class SeekInterp(O.OrderInterp):
    def __init__(self, prog, m, c):
        super().__init__(prog, U, "ubuf", "__no_cmp__")
        self.m, self.c = m, c
        self.R = (m + c - 1) // c

    def cmp3(self, s, a, b, f, n):
        net = s.ext["net"]
        outs = sorted(net.get(a, b))
        forks = []
        for r in outs:
            s2 = s.copy() if len(outs) > 1 else s
            if s2.ext["net"].refine(a, b, (r,)):
                s2.branches.append("cmp(%s,%s)=%s" % ("t" if a == T else "k%d" % a, "t" if b == T else "k%d" % b, r))
                forks.append((s2, r))
        self.ncmp += 1
        for s2, r in forks:
            yield s2, B.const({O.LT: -1, O.EQ: 0, O.GT: 1}[r] & 0xffffffff, 32, True)

    def ev_call(self, st, n, ti, f, depth):
        name = n.get("callee")
        args = n["kids"][1:]
        if name in ("compare_restart_point", "seek_to_restart_point", "parse_next_key", "bytes_compare", "ubuf_data", "ubuf_size", "ubuf_bytes"):
            for s, vals in self.ev_args(st, args, 0, [], f, depth):
                it = s.ext["iter"]
                if name == "compare_restart_point":
                    i = s.nbits(vals[1])
                    if not i.is_const():
                        raise BrokenAnalysis("block_iter_seek: restart index is not a constant on this trace")
                    if i.value() >= self.R:
                        raise O.OutOfBounds("compare_restart_point is asked for restart point %d of %d (%s)" % (i.value(), self.R, self.where(f, n)))
                    yield from self.cmp3(s, i.value() * self.c, T, f, n)
                elif name == "seek_to_restart_point":
                    i = s.nbits(vals[1])
                    if not i.is_const() or i.value() >= self.R:
                        raise O.OutOfBounds("seek_to_restart_point is given restart point %s of %d (%s)" % (i.value() if i.is_const() else "?", self.R, self.where(f, n)))
                    it.next = i.value() * self.c
                    it.cur = None
                    it.key = None
                    s.ext["fields"].f[((("p", 0), 0), "restart_index")] = B.const(i.value(), 32, False)
                    yield s, None
                elif name == "parse_next_key":
                    if it.next is None:
                        raise O.OutOfBounds("parse_next_key is called on an iterator with no position (%s)" % self.where(f, n))
                    if it.next >= self.m:
                        it.cur = "END"
                        it.next = self.m
                        s.ext["fields"].f[((("p", 0), 0), "restart_index")] = B.const(self.R, 32, False)
                        yield s, B.const(0, 8, False)
                    else:
                        it.cur = it.next
                        it.key = it.cur
                        it.next = it.cur + 1
                        s.ext["fields"].f[((("p", 0), 0), "restart_index")] = B.const(it.cur // self.c, 32, False)
                        yield s, B.const(1, 8, False)
                elif name in ("ubuf_data",):
                    yield s, B.Ptr(("KEY",), 0)
                elif name in ("ubuf_size", "ubuf_bytes"):
                    yield s, B.BV([("v", 77, j) for j in range(64)], False)
                else:   # bytes_compare(current key, target) in either order
                    a_key = isinstance(vals[0], B.Ptr) and vals[0].base == ("KEY",)
                    b_key = isinstance(vals[2], B.Ptr) and vals[2].base == ("KEY",)
                    a_t = isinstance(vals[0], B.Ptr) and vals[0].base == ("p", 1)
                    b_t = isinstance(vals[2], B.Ptr) and vals[2].base == ("p", 1)
                    if not ((a_key and b_t) or (a_t and b_key)):
                        raise BrokenAnalysis("block_iter_seek: bytes_compare on something other than (current key, target) (%s)" % self.where(f, n))
                    if it.key is None:
                        raise O.OutOfBounds("the current key is compared although the iterator has none (%s)" % self.where(f, n))
                    if a_key:
                        yield from self.cmp3(s, it.key, T, f, n)
                    else:
                        yield from self.cmp3(s, T, it.key, f, n)
            return
        yield from super().ev_call(st, n, ti, f, depth)


class ChainNet:
    """Order knowledge for keys k0 < k1 < ... < k(m-1) and one target t: either t == k_e, or k_lo < t < k_hi
    (lo = -1 / hi = m when unbounded).  Same interface as order.Net for the pairs (i, T) and (T, i)."""

    def __init__(self, m):
        self.m, self.lo, self.hi, self.e = m, -1, m, None

    def copy(self):
        n = ChainNet(self.m)
        n.lo, n.hi, n.e = self.lo, self.hi, self.e
        return n

    def get(self, a, b):
        if a == T and b == T:
            return frozenset((O.EQ,))
        if a == T:
            return frozenset(O.INV[x] for x in self.get(b, a))
        if b != T:
            return frozenset((O.LT,)) if a < b else frozenset((O.EQ,)) if a == b else frozenset((O.GT,))
        i = a
        if self.e is not None:
            return frozenset((O.LT,)) if i < self.e else frozenset((O.EQ,)) if i == self.e else frozenset((O.GT,))
        if i <= self.lo:
            return frozenset((O.LT,))
        if i >= self.hi:
            return frozenset((O.GT,))
        return O.ALL

    def refine(self, a, b, rel):
        if a == T:
            return self.refine(b, a, tuple(O.INV[x] for x in rel))
        new = self.get(a, b) & frozenset(rel)
        if not new:
            return False
        if len(new) == 1:
            r = next(iter(new))
            if self.e is None:
                if r == O.LT:
                    self.lo = max(self.lo, a)
                elif r == O.GT:
                    self.hi = min(self.hi, a)
                else:
                    self.e = a
        return True


class IterState:
    def __init__(self):
        self.cur = None     # entry index | "END" | None
        self.next = None
        self.key = None     # entry whose key bi->key holds (possibly stale)

    def copy(self):
        x = IterState()
        x.cur, x.next, x.key = self.cur, self.next, self.key
        return x


def check(ctx, res, rule_search, rule_shortcut):
    prog = ctx.prog
    memo = getattr(ctx, "_seek_memo", None)
    if memo is not None:
        # the verdict does not depend on who asks (C02, C03 and the checks that re-run them): computed once per process
        for ok, site_, how, what, loc in memo:
            res.check(ok, rule_search, site_, how, what, loc)
            if not ok:
                res.bad(rule_shortcut, site_.replace("first-entry-at-or-after-target", "search"), what, loc)
        return
    memo = []
    ctx._seek_memo = memo
    f = prog.need("block_iter_seek", U)
    for nm in ("compare_restart_point", "seek_to_restart_point", "parse_next_key"):
        res.saw(prog.need(nm, U))
    res.saw(f)
    thorough = ctx.tier == "thorough"
    RMAX = 6 if thorough else 5
    res.floor(rule_search, 3)
    ntr = nsc = 0
    for c in (1, 2, 3):
        problems = []
        for R in range(1, RMAX + 1):
            for m in sorted(set([(R - 1) * c + 1, R * c])):
                starts = ["fresh", "exhausted"] + list(range(m))
                for start in starts:
                    nsc += 1
                    I = SeekInterp(prog, m, c)
                    st = B.St()
                    st.ext["net"] = ChainNet(m)
                    st.ext["vecs"] = O.Vecs()
                    st.ext["fields"] = O.Fields()
                    its = IterState()
                    fld = st.ext["fields"].f
                    bi = (("p", 0), 0)
                    fld[(bi, "num_restarts")] = B.const(I.R, 32, False)
                    if start == "fresh":
                        fld[(bi, "restart_index")] = B.const(I.R, 32, False)
                    elif start == "exhausted":
                        fld[(bi, "restart_index")] = B.const(I.R, 32, False)
                        its.cur, its.next, its.key = "END", m, m - 1
                    else:
                        fld[(bi, "restart_index")] = B.const(start // c, 32, False)
                        its.cur, its.next, its.key = start, start + 1, start
                    st.ext["iter"] = its
                    st.frames.append({f.params[0]["name"]: B.Ptr(("p", 0), 0), f.params[1]["name"]: B.Ptr(("p", 1), 0),
                                      f.params[2]["name"]: B.BV([("v", 2, j) for j in range(64)], False)})
                    try:
                        outs = list(I.exec_fn(st, f, 0))
                    except O.OutOfBounds as e:
                        problems.append("%d entries, %d restart point(s), iterator %s: %s" % (m, I.R, start if isinstance(start, str) else "at entry %d" % start, e))
                        continue
                    for s, sig in outs:
                        ntr += 1
                        it = s.ext["iter"]
                        n_ = s.ext["net"]
                        where = "%d entries, interval %d, iterator %s, ordering %s" % (m, c, start if isinstance(start, str) else "at entry %d" % start,
                                                                                       "; ".join(s.branches[-5:]) or "(nothing compared)")
                        if it.cur == "END" or it.cur is None:
                            if it.cur is None:
                                problems.append("%s: the iterator is left without a current entry" % where)
                            elif not (n_.get(m - 1, T) <= frozenset((O.LT,))):
                                problems.append("%s: the iterator ends exhausted although the last key is not known to be below the target" % where)
                        else:
                            j = it.cur
                            if not (n_.get(j, T) <= frozenset((O.EQ, O.GT))):
                                problems.append("%s: stops at entry %d whose key is not known to be >= the target" % (where, j))
                            elif j > 0 and not (n_.get(j - 1, T) <= frozenset((O.LT,))):
                                problems.append("%s: stops at entry %d although entry %d may also be >= the target (not the first one)" % (where, j, j - 1))
                    if len(problems) > 4:
                        break
                if len(problems) > 4:
                    break
            if len(problems) > 4:
                break
        rule = rule_search
        how = "for every block of up to %d restart points, every iterator state and every position of the target: seek stands on the first entry >= target, or is exhausted" % RMAX
        memo.append((not problems, site(f, "first-entry-at-or-after-target:interval=%d" % c), how, problems[0] if problems else "", f.loc(f.body)))
        res.check(not problems, rule, site(f, "first-entry-at-or-after-target:interval=%d" % c), how,
                  problems[0] if problems else "", f.loc(f.body))
        if problems:
            res.bad(rule_shortcut, site(f, "search:interval=%d" % c), problems[-1], f.loc(f.body))
    res.tables.setdefault("seek_rule", {})[rule_search] = {"scenarios": nsc, "traces": ntr}
