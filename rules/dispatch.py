"""Dispatch wiring (shared rule): the two function-pointer tables every table, merger, fileset and sorter is reached
through (struct mtbl_iter, struct mtbl_source) are wired straight.

Tables are *derived*: a function that stores two or more function-pointer parameters and one `void *` parameter into
fields of one object registers a table (record, slots, closure field).  Then
  W1  registration stores every function-pointer parameter into exactly one slot and no slot twice, and a parameter
      named like a slot goes into that slot;
  W2  every function that calls through a slot passes the closure field of the same object, and - when it is the
      public wrapper of a slot (its name ends with the slot's name) - calls *that* slot and forwards its own remaining
      parameters in order;
  W3  at every call of the registering function, a function whose name ends with the short name of another slot of the
      same signature (and not with its own slot's) is cross-wired (get <-> get_prefix, seek <-> ...).
Slots with identical signatures compile in any order: only this agreement keeps them apart.
"""
import re
from .common import *


def tables(prog):
    out = []
    for g in prog.lib_funcs():
        fn_params = [(i, p["name"]) for i, p in enumerate(g.params) if "(*)" in (p.get("ct") or p["t"])]
        void_params = [(i, p["name"]) for i, p in enumerate(g.params) if (p.get("ct") or p["t"]).strip() in ("void *", "const void *")]
        if len(fn_params) < 2 or len(void_params) != 1:
            continue
        slots = {}
        clos = None
        rec = None
        for n, lhs in field_stores(g):
            if n["k"] != "BinaryOperator" or n.get("op") != "=":
                continue
            r = strip(n["kids"][1])
            if r["k"] == "DeclRefExpr" and r.get("dk") == "param":
                if any(r["idx"] == i for i, _ in fn_params):
                    slots.setdefault(lhs["field"], []).append((r["idx"], n))
                    rec = lhs.get("rec")
                elif r["idx"] == void_params[0][0]:
                    clos = lhs["field"]
        if len(slots) >= 2 and clos:
            out.append({"reg": g, "rec": rec, "slots": slots, "clos": clos, "fn_params": fn_params})
    return out


def check(ctx, res, rule):
    prog = ctx.prog
    T = tables(prog)
    if len(T) < 2:
        raise BrokenAnalysis("dispatch tables found: %s (expected mtbl_iter and mtbl_source)" % [t["rec"] for t in T])
    res.floor(rule, 12)
    res.tables.setdefault("dispatch_tables", {})[rule] = {t["rec"]: sorted(t["slots"]) for t in T}
    for t in T:
        g = t["reg"]
        res.saw(g)
        pnames = dict(t["fn_params"])
        # W1
        for slot, sts in sorted(t["slots"].items()):
            idxs = [i for i, _ in sts]
            good = len(sts) == 1
            how = "slot %s receives parameter %s" % (slot, pnames.get(idxs[0]))
            if good and pnames.get(idxs[0]) in t["slots"] and pnames[idxs[0]] != slot:
                good = False
            res.check(good, rule, site(g, "slot:%s" % slot), how,
                      "%s stores parameter %s into slot %s%s" % (g.name, [pnames.get(i) for i in idxs], slot,
                                                                 " (a parameter named after another slot)" if len(sts) == 1 else " more than once"), g.loc(sts[0][1]))
        stored = set(i for sts in t["slots"].values() for i, _ in sts)
        missing = [nm for i, nm in t["fn_params"] if i not in stored]
        res.check(not missing, rule, site(g, "all-parameters-stored"), "every function-pointer parameter is stored", "%s drops parameter(s) %s" % (g.name, missing), g.loc(g.body))
        # short names of the slots: the part after the table's common prefix
        names = sorted(t["slots"])
        pre = os_commonprefix(names)
        pre = pre[:pre.rfind("_") + 1] if "_" in pre else ""
        short = {s: s[len(pre):] for s in names}
        # W2
        for f in prog.lib_funcs():
            for n in walk(f.body):
                if n["k"] != "CallExpr" or n.get("callee"):
                    continue
                ce = strip(n["kids"][0])
                if ce["k"] != "MemberExpr" or ce.get("rec") != t["rec"] or ce["field"] not in t["slots"]:
                    continue
                base = canon(ce["kids"][0])
                a = call_args(n)
                # what the slot's own signature takes first decides: `void *` -> the registered closure, a pointer to the table's
                # record -> the object itself (the my_fileset convention)
                recd = prog.record(t["rec"])
                sl_t = next((x.get("ct") or x.get("t") or "" for x in (recd["fields"] if recd else []) if x["name"] == ce["field"]), "")
                m1 = re.search(r"\(\*\)\(([^,)]*)", sl_t)
                first = (m1.group(1).strip() if m1 else "void *")
                if first in ("void *", "const void *"):
                    okc = bool(a) and strip(a[0])["k"] == "MemberExpr" and strip(a[0])["field"] == t["clos"] and canon(strip(a[0])["kids"][0]) == base
                else:
                    okc = bool(a) and canon(strip(a[0])).strip("()") == base.strip("()")
                res.check(okc, rule, site(f, "closure:%s" % ce["field"]), "%s is called with %s of the same object (or the object itself)" % (ce["field"], t["clos"]),
                          "%s calls slot %s without the closure stored next to it" % (f.name, ce["field"]), f.loc(n))
                mine = [s for s in names if f.name.endswith("_" + s)]
                mine.sort(key=len)
                if mine:
                    want = mine[-1]
                    res.check(ce["field"] == want, rule, site(f, "wrapper-of:%s" % want), "the public wrapper of slot %s dispatches to it" % want,
                              "%s is the wrapper of slot %s but dispatches to slot %s" % (f.name, want, ce["field"]), f.loc(n))
                    fwd = [strip(x) for x in a[1:]]
                    good = len(fwd) == len(f.params) - 1 and all(x["k"] == "DeclRefExpr" and x.get("dk") == "param" and x["idx"] == i + 1 for i, x in enumerate(fwd))
                    res.check(good, rule, site(f, "forwards:%s" % want), "forwards its own parameters in order",
                              "%s does not forward its parameters unchanged and in order (%s)" % (f.name, [canon(x) for x in fwd]), f.loc(n))
        # W3
        sigs = {i: (g.params[i].get("ct") or g.params[i]["t"]) for i, _ in t["fn_params"]}
        slot_of_param = {}
        for slot, sts in t["slots"].items():
            for i, _ in sts:
                slot_of_param[i] = slot
        for f, c in lib_calls(prog, g.name):
            a = call_args(c)
            for i, _nm in t["fn_params"]:
                if i >= len(a):
                    continue
                x = strip(a[i])
                if x["k"] != "DeclRefExpr" or x.get("dk") != "func":
                    continue
                slot = slot_of_param.get(i)
                if slot is None:
                    continue
                own = short[slot]
                others = [short[s] for s in names if s != slot and any(sigs.get(j) == sigs.get(i) for j, _ in t["slots"][s])]
                cross = [o for o in others if x["name"].endswith(o) and not (x["name"].endswith(own) and len(own) >= len(o))]
                res.check(not cross, rule, site(f, "wires:%s:%s" % (g.name, slot)), "%s goes into slot %s" % (x["name"], slot),
                          "%s passes %s for slot %s: by its name it implements %s, which has the same signature - the two operations are swapped for every "
                          "object built here" % (f.name, x["name"], slot, cross[0] if cross else ""), f.loc(c))


def os_commonprefix(names):
    import os
    return os.path.commonprefix(names)
