"""C20 - writer output does not depend on how write(2) fragments the I/O.

R1 single writer: write(2) has exactly one call site in the library and no other
   output primitive (pwrite, writev, fwrite, dprintf, sendfile, ...) is used at all.
R2 loop dataflow (abstract path evaluation of the function holding that call site):
   the call's arguments are the current cursor and the current remaining size; when the
   result n > 0 both are advanced by that same n before the next write; on
   n < 0 with errno == EINTR the next write uses the same (cursor, remaining); every other
   n <= 0 ends in a NORETURN block; the function returns only when remaining == 0.
R3 callers pass (pointer, length) pairs that belong together.
"""
from .common import *

EXPLANATION = ("static necessary-condition rules over the resolved AST/CFG: who-may-call for write(2), "
               "abstract path evaluation of the write loop (cursor/remaining advance, EINTR retry, abort on error), "
               "pointer/length pairing at its callers; see DESIGN 3 C20")
DESIGN_REF = "DESIGN.md section 3, C20"

OTHER_OUTPUT = {"pwrite", "pwrite64", "writev", "pwritev", "fwrite", "dprintf", "vdprintf", "sendfile",
                "fputs", "fputc", "putc", "fprintf_unlocked", "send", "sendto", "ftruncate", "truncate"}


def run(ctx, res):
    prog, cg = ctx.prog, ctx.cg
    # ---- R1 -----------------------------------------------------------------
    sites = lib_calls(prog, "write")
    for f, n in sites:
        res.saw(f)
    res.floor("C20.R1", 1)
    if not sites:
        raise BrokenAnalysis("no call to write(2) in the library")
    def in_loop(fn):
        f, n = fn
        B = f.block_of(n)
        return B is not None and B.id in CFG.reachable_from(f, B.id, ()) and any(
            B.id in CFG.reachable_from(f, s, ()) for s in CFG.succs(f, B.id))
    def generic(fn):
        # the retrying writer takes what it writes from its own parameters (descriptor, buffer, size)
        f, n = fn
        a = call_args(n)
        if len(f.params) < 3 or len(a) != 3:
            return False
        from_param = set()
        for m in walk(f.body):
            if m["k"] == "DeclStmt":
                for d in m["decls"]:
                    b = base_decl(d["init"]) if d.get("init") is not None else None
                    if b and b[0] == "param":
                        from_param.add(d["name"])
        for x in a:
            b = base_decl(x)
            if not b or not (b[0] == "param" or (b[0] == "local" and b[2] in from_param)):
                return False
        return True
    sites.sort(key=lambda fn: (not generic(fn), not in_loop(fn), fn[0].name))
    first = sites[0]
    if len(first[0].params) < 3:
        if len(sites) > 1 and not any(generic(x) for x in sites):
            for f, n in sites:
                res.bad("C20.R1", site(f, "write"), "write(2) is called from %d functions and none of them is a (descriptor, buffer, size) retry loop" % len(sites), f.loc(n))
            return
        raise BrokenAnalysis("the function calling write(2) has no (fd, buffer, size) parameters")
    for f, n in sites[1:]:
        res.bad("C20.R1", site(f, "write"), "second call site of write(2): table bytes are written outside the "
                "retrying loop in %s" % first[0].name, f.loc(n))
    res.ok("C20.R1", site(first[0], "write"), "only call site of write(2) in %d library functions" % len(prog.lib_funcs()))
    others = [(f, n) for f, n in lib_calls(prog, OTHER_OUTPUT)
              if not (n["callee"] in ("fputs", "fputc", "putc") )]
    for f, n in others:
        res.bad("C20.R1", site(f, n["callee"]), "output primitive %s used in the library" % n["callee"], f.loc(n))
    if not others:
        res.ok("C20.R1", "library:other-output-primitives", "none of %s is called" % sorted(OTHER_OUTPUT - {"fputs", "fputc", "putc"}))

    # ---- R2 -----------------------------------------------------------------
    wf = first[0]
    ev = APE.run(prog, cg, wf, bound=max(APE.BOUND, 2), opaque_calls=("write",))   # two full iterations: a result that is only the last write differs from the bytes done
    res.floor("C20.R2", 4)
    npaths = 0
    for p in ev.paths:
        npaths += 1
        _check_path(res, wf, p)
    res.tables["C20.R2.paths"] = npaths

    # ---- R3 -----------------------------------------------------------------
    # decided on the values that reach the call on each path (a table of (pointer, size) rows walked by a loop, locals,
    # the arguments spelled out: all the same), one obligation per distinct (call, buffer value, length value)
    res.floor("C20.R3", 2)
    callers = {}
    for f, n in lib_calls(prog, wf.name):
        callers.setdefault((f.unit, f.name), f)
    for f in callers.values():
        res.saw(f)
        seen = set()
        evc = APE.run(prog, cg, f, bound=max(APE.BOUND, 3))
        for p in evc.paths:
            for e in p.events:
                if e.kind != "call" or e.a != wf.name or len(e.b) < 3:
                    continue
                key = (e.node.get("oid", e.node["id"]), APE.vstr(e.b[1]), APE.vstr(e.b[2]))
                if key in seen:
                    continue
                seen.add(key)
                okp, how = _pair_value(prog, f, p, e)
                res.check(okp, "C20.R3", site(f, "%s(%s,%s)" % (wf.name, strip_tags(key[1]), strip_tags(key[2]))), how,
                          "length %s does not belong to buffer %s: %s" % (key[2], key[1], how), f.loc(e.node), p.describe(f))


def _type_of_path(prog, f, path):
    """Canonical type string of an access path (name, then ->field / .field / [index] steps) in function f, or None."""
    import re
    m = re.match(r"^([A-Za-z_]\w*)", path)
    if not m:
        return None
    name, rest = m.group(1), path[m.end():]
    t = None
    mh = re.match(r"^(\w+?)__\d+__(\w+)$", name)
    if mh:
        # a local of a helper evaluated as part of f (the evaluator prefixes it with the activation)
        g = prog.helper(mh.group(1), f.unit) or prog.func(mh.group(1), f.unit)
        if g is not None:
            f, name = g, mh.group(2)
    for prm in f.params:
        if prm["name"] == name:
            t = prm.get("ct") or prm.get("t")
    if t is None:
        for n in walk(f.body):
            if n["k"] == "DeclStmt":
                for d in n["decls"]:
                    if d["name"] == name:
                        t = d.get("ct") or d.get("t")
    while t is not None and rest:
        m = re.match(r"^(->|\.)(\w+)", rest)
        if m:
            base = t.replace("const ", "").strip()
            if m.group(1) == "->":
                if not base.endswith("*"):
                    return None
                base = base[:-1].strip()
            rn = re.match(r"^(?:struct|union)\s+(\w+)$", base)
            rec = prog.record(rn.group(1), f.unit) if rn else None
            if rec is None:
                return None
            fl = [x for x in rec["fields"] if x["name"] == m.group(2)]
            t = (fl[0].get("ct") or fl[0].get("t")) if fl else None
            rest = rest[m.end():]
            continue
        m = re.match(r"^\[[^\]]*\]", rest)
        if m:
            ma = re.match(r"^(.*?)\[\d*\]$", t.strip())
            if ma:
                t = ma.group(1).strip()
            elif t.strip().endswith("*"):
                t = t.strip()[:-1].strip()
            else:
                return None
            rest = rest[m.end():]
            continue
        return None
    return t


def _sizeof(t):
    import re
    from mtblcheck.bits import tparse
    if t is None:
        return None
    m = re.match(r"^(.*?)\[(\d+)\]$", t.strip())
    if m:
        s = _sizeof(m.group(1).strip())
        return s * int(m.group(2)) if s is not None else None
    ti = tparse(t.replace("const ", ""))
    if ti and ti[0] == "int":
        return ti[1] // 8
    return None


def _pair_value(prog, f, p, e):
    import re
    vp, vl = e.b[1], e.b[2]
    sp, sl = APE.vstr(vp), APE.vstr(vl)
    if vl[0] == "c":
        # a constant length: the size of the object the pointer value designates
        obj = strip_tags(sp)
        if obj.startswith("&"):
            size = _sizeof(_type_of_path(prog, f, obj[1:]))
        else:
            t = _type_of_path(prog, f, obj)
            size = _sizeof(t) if t is not None and re.search(r"\[\d+\]$", t.strip()) else None
        if size is not None and size == vl[1]:
            return True, "constant length %d = size of the object %s" % (size, obj)
        return False, "constant length %s but the object %s has size %s" % (vl[1], obj, size)
    # what the codecs put into the buffer, contiguously from its start, adds up to the length (a header assembled from several
    # encodes and written at once)
    try:
        from . import framerule
        evs_ = [x for x in p.events if x.kind != "branch"]
        pcs = framerule._pieces(evs_, evs_.index(e), e.a)
        if pcs and all(pc[0] != "raw" for pc in pcs):
            return True, "length = the bytes the encoders put into the buffer (%s)" % "+".join(pc[0] for pc in pcs)
    except (ValueError, BrokenAnalysis):
        pass
    # the result of a call that was given the same buffer
    for e2 in p.events:
        if e2.kind == "call" and e2.c == vl and e2.b and e2.b[0] == vp:
            return True, "length returned by %s, which filled the same buffer" % e2.a
    a, b = strip_tags(sp), strip_tags(sl)
    ma = re.match(r"^(.*(?:->|\.))(\w+)$", a)
    mb = re.match(r"^(.*(?:->|\.))(\w+)$", b)
    if ma and mb and ma.group(1) == mb.group(1) and mb.group(2) in ("len_" + ma.group(2), ma.group(2) + "_len", "len" + ma.group(2)):
        return True, "field pair %s/%s of one object" % (ma.group(2), mb.group(2))
    names = [prm["name"] for prm in f.params]
    if a in names and b in names and names.index(b) == names.index(a) + 1:
        return True, "parameter pair"
    return False, "unrecognised pairing"


def _lin(v):
    t, c = linsum(APE.vstr(v) if not isinstance(v, str) else v, tags=True)
    return t, c


def _sub(a, b):
    ta, ca = a
    tb, cb = b
    out = dict(ta)
    for k, v in tb.items():
        out[k] = out.get(k, 0) - v
    return {k: v for k, v in out.items() if v}, ca - cb


def _addl(a, b):
    ta, ca = a
    tb, cb = b
    out = dict(ta)
    for k, v in tb.items():
        out[k] = out.get(k, 0) + v
    return {k: v for k, v in out.items() if v}, ca + cb


def _check_path(res, wf, p):
    """Value-based: whatever the loop's variables are called and wherever the single write(2) sits (the function itself or a
    helper analysed as part of it), at every write  cursor + remaining == buf + size,  after n > 0 the next cursor is the old
    one plus that n, an EINTR retry repeats the same cursor, any other n <= 0 never returns, and the function returns only
    when the path implies that nothing remains."""
    BUF, SIZE = wf.params[1]["name"], wf.params[2]["name"]
    total = ({BUF: 1, SIZE: 1}, 0)
    evs = [e for e in p.events if e.kind != "branch"]
    writes = [e for e in evs if e.kind == "call" and e.a == "write"]
    cur = ({BUF: 1}, 0)          # the cursor the next write must use
    for k, e in enumerate(writes):
        s = site(wf, "write#%d" % (k + 1))
        C, R = _lin(e.b[1]), _lin(e.b[2])
        res.check(_sub(C, cur) == ({}, 0) and _sub(_addl(C, R), total) == ({}, 0), "C20.R2", s,
                  "write is called with the current cursor and exactly what remains (cursor + remaining = buf + size)",
                  "write called with (%s, %s): not the current cursor %s with everything that remains" % (APE.vstr(e.b[1]), APE.vstr(e.b[2]), cur),
                  wf.loc(e.node), p.describe(wf))
        if _sub(C, cur) != ({}, 0):
            return
        r = e.c
        cons = p.cons.get((APE.vstr(r), "#0"))
        last = k == len(writes) - 1
        nxt = writes[k + 1] if not last else None
        if cons is None:
            if not (last and p.end == "cut"):
                res.bad("C20.R2", s, "result of write is not examined before it is used", wf.loc(e.node), p.describe(wf))
            return
        if cons <= frozenset((GT,)):
            adv = _addl(cur, ({APE.vstr(r): 1}, 0))
            if nxt is not None:
                Cn = _lin(nxt.b[1])
                res.check(_sub(Cn, adv) == ({}, 0), "C20.R2", s + ":advance",
                          "n > 0: the next write starts n bytes further, with n bytes less",
                          "after a successful partial write the next write starts at %s, not at the old cursor plus the count written" % APE.vstr(nxt.b[1]),
                          wf.loc(e.node), p.describe(wf))
                if _sub(Cn, adv) != ({}, 0):
                    return
            cur = adv
        else:
            eintr = any("__errno_location" in a and v == frozenset((EQ,)) and cons <= frozenset((LT,)) for (a, b), v in p.cons.items())
            if eintr:
                if nxt is not None:
                    res.check(_sub(_lin(nxt.b[1]), cur) == ({}, 0) and _sub(_lin(nxt.b[2]), R) == ({}, 0), "C20.R2", s + ":eintr",
                              "n < 0 and errno == EINTR: retried with the same cursor and remaining size",
                              "EINTR retry path changes the cursor or the remaining size", wf.loc(e.node), p.describe(wf))
                elif p.end not in ("cut",):
                    res.bad("C20.R2", s + ":eintr", "EINTR path leaves the loop (%s)" % p.end, wf.loc(e.node), p.describe(wf))
                    return
            else:
                res.check(last and p.end == "noreturn", "C20.R2", s + ":error",
                          "n <= 0 (not EINTR) reaches a NORETURN block",
                          "a failed write (n <= 0) does not stop the process: path ends with '%s'" % p.end,
                          wf.loc(e.node), p.describe(wf))
                return
    if p.end == "exit":
        remaining = _sub(total, cur)
        neg = ({k: -v for k, v in remaining[0].items()}, -remaining[1])
        done = False
        for (a, b), v in p.cons.items():
            try:
                d = _sub(_lin(a), _lin(b))
            except Exception:
                continue
            # remaining <= 0 (write(2) never reports more than it was asked for, so < 0 cannot happen)
            if (d == remaining and v <= frozenset((EQ, LT))) or (d == neg and v <= frozenset((EQ, GT))):
                done = True
        if p.ret() is not None:
            # R4: what the function reports to its caller must not depend on how write(2) fragmented the data: it is free of
            # write(2) results, or it is the number of bytes done (cursor - buf) on a path that has established that nothing
            # remains - which is `size` (write(2) never reports more than it was asked for)
            rv = APE.vstr(p.ret())
            is_done_count = False
            try:
                is_done_count = done and _sub(_lin(rv), _sub(cur, ({BUF: 1}, 0))) == ({}, 0)
            except Exception:
                pass
            res.check("write(" not in rv or is_done_count, "C20.R4", site(wf, "return-independent-of-fragmentation"),
                      "the value returned to the caller does not depend on how write(2) fragmented the data",
                      "the write loop returns %s, a quantity that depends on the size of the last write(2) call: after a short write callers account the wrong number of bytes "
                      "(offsets and trailer fields differ from the unfragmented run)" % rv[:80], wf.loc(p.events[-1].node), p.describe(wf))
        res.check(done, "C20.R2", site(wf, "return"),
                  "normal return only when the path implies that nothing remains (buf + size - cursor == 0)",
                  "function returns while %s bytes are not known to be written" % (remaining,),
                  None, p.describe(wf))
