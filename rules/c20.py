"""C20 - writer output does not depend on how write(2) fragments the I/O.

R1 single writer: write(2) has exactly one call site in the library and no other
   output primitive (pwrite, writev, fwrite, dprintf, sendfile, ...) is used at all.
R2 loop dataflow (abstract path evaluation of the function holding that call site):
   the call's arguments are the current cursor and the current remaining size; when the
   result n > 0 both are advanced by that same n before the next write; on
   n < 0 with errno == EINTR the next write uses the same (cursor, remaining); every other
   n <= 0 ends in a NORETURN block; the function returns only when remaining == 0.
R3 callers pass (pointer, length) pairs that belong together.
"""
from .common import *

EXPLANATION = ("static necessary-condition rules over the resolved AST/CFG: who-may-call for write(2), "
               "abstract path evaluation of the write loop (cursor/remaining advance, EINTR retry, abort on error), "
               "pointer/length pairing at its callers; see DESIGN 3 C20")
DESIGN_REF = "DESIGN.md section 3, C20"

OTHER_OUTPUT = {"pwrite", "pwrite64", "writev", "pwritev", "fwrite", "dprintf", "vdprintf", "sendfile",
                "fputs", "fputc", "putc", "fprintf_unlocked", "send", "sendto", "ftruncate", "truncate"}


def run(ctx, res):
    prog, cg = ctx.prog, ctx.cg
    # ---- R1 -----------------------------------------------------------------
    sites = lib_calls(prog, "write")
    for f, n in sites:
        res.saw(f)
    res.floor("C20.R1", 1)
    if not sites:
        raise BrokenAnalysis("no call to write(2) in the library")
    def in_loop(fn):
        f, n = fn
        B = f.block_of(n)
        return B is not None and B.id in CFG.reachable_from(f, B.id, ()) and any(
            B.id in CFG.reachable_from(f, s, ()) for s in CFG.succs(f, B.id))
    def generic(fn):
        # the retrying writer takes what it writes from its own parameters (descriptor, buffer, size)
        f, n = fn
        a = call_args(n)
        if len(f.params) < 3 or len(a) != 3:
            return False
        from_param = set()
        for m in walk(f.body):
            if m["k"] == "DeclStmt":
                for d in m["decls"]:
                    b = base_decl(d["init"]) if d.get("init") is not None else None
                    if b and b[0] == "param":
                        from_param.add(d["name"])
        for x in a:
            b = base_decl(x)
            if not b or not (b[0] == "param" or (b[0] == "local" and b[2] in from_param)):
                return False
        return True
    sites.sort(key=lambda fn: (not generic(fn), not in_loop(fn), fn[0].name))
    first = sites[0]
    if len(first[0].params) < 3:
        if len(sites) > 1 and not any(generic(x) for x in sites):
            for f, n in sites:
                res.bad("C20.R1", site(f, "write"), "write(2) is called from %d functions and none of them is a (descriptor, buffer, size) retry loop" % len(sites), f.loc(n))
            return
        raise BrokenAnalysis("the function calling write(2) has no (fd, buffer, size) parameters")
    for f, n in sites[1:]:
        res.bad("C20.R1", site(f, "write"), "second call site of write(2): table bytes are written outside the "
                "retrying loop in %s" % first[0].name, f.loc(n))
    res.ok("C20.R1", site(first[0], "write"), "only call site of write(2) in %d library functions" % len(prog.lib_funcs()))
    others = [(f, n) for f, n in lib_calls(prog, OTHER_OUTPUT)
              if not (n["callee"] in ("fputs", "fputc", "putc") )]
    for f, n in others:
        res.bad("C20.R1", site(f, n["callee"]), "output primitive %s used in the library" % n["callee"], f.loc(n))
    if not others:
        res.ok("C20.R1", "library:other-output-primitives", "none of %s is called" % sorted(OTHER_OUTPUT - {"fputs", "fputc", "putc"}))

    # ---- R2 -----------------------------------------------------------------
    wf = first[0]
    ev = APE.run(prog, cg, wf, bound=APE.BOUND, opaque_calls=("write",))
    res.floor("C20.R2", 4)
    npaths = 0
    for p in ev.paths:
        npaths += 1
        _check_path(res, wf, p)
    res.tables["C20.R2.paths"] = npaths

    # ---- R3 -----------------------------------------------------------------
    res.floor("C20.R3", 4)
    for f, n in lib_calls(prog, wf.name):
        res.saw(f)
        a = call_args(n)
        ptr, ln = strip(a[1]), strip(a[2])
        okp, how = _pair_ok(f, ptr, ln)
        res.check(okp, "C20.R3", site(f, "%s(%s,%s)" % (wf.name, canon(ptr), canon(ln))), how,
                  "length argument %s does not belong to buffer %s" % (canon(ln), canon(ptr)), f.loc(n))


def _pair_ok(f, ptr, ln):
    # sizeof the object pointed to
    pobj = ptr
    if pobj["k"] == "UnaryOperator" and pobj.get("op") == "&":
        pobj = strip(pobj["kids"][0])
    if ln["k"] == "UnaryExprOrTypeTraitExpr":
        # sizeof(X): X must be the same object
        ks = kids(ln)
        # operand not emitted (unevaluated): compare by size of the object type
        want = ln.get("val")
        t = pobj.get("ct", pobj.get("t", ""))
        import re
        m = re.search(r"\[(\d+)\]", t)
        size = int(m.group(1)) if m else {"uint32_t": 4, "unsigned int": 4, "uint64_t": 8, "unsigned long": 8}.get(t)
        if size is not None and want == size:
            return True, "sizeof of the object written (%d bytes)" % size
        return False, "sizeof mismatch"
    if ptr["k"] == "MemberExpr" and ln["k"] == "MemberExpr":
        if ln["field"] in ("len_" + ptr["field"], ptr["field"] + "_len", "len" + ptr["field"]) and \
                canon(ptr["kids"][0]) == canon(ln["kids"][0]):
            return True, "field pair %s/%s of one object" % (ptr["field"], ln["field"])
        return False, "fields of different objects"
    if ln["k"] == "DeclRefExpr":
        # length local defined by an encoder that wrote into the same buffer
        for n in walk(f.body):
            if n["k"] == "BinaryOperator" and n.get("op") == "=" and canon(n["kids"][0]) == canon(ln) and is_call(n["kids"][1]):
                c = strip(n["kids"][1])
                if call_args(c) and base_decl(call_args(c)[0]) == base_decl(ptr):
                    return True, "length returned by %s which filled the same buffer" % c.get("callee")
        for n in walk(f.body):
            if n["k"] == "DeclStmt":
                for d in n["decls"]:
                    if d["name"] == ln.get("name") and d.get("init") is not None and is_call(d["init"]):
                        c = strip(d["init"])
                        if call_args(c) and base_decl(call_args(c)[0]) == base_decl(ptr):
                            return True, "length returned by %s which filled the same buffer" % c.get("callee")
        # parameter pair (ptr param i, len param i+1)
        if ln.get("dk") == "param" and ptr["k"] == "DeclRefExpr" and ptr.get("dk") == "param" and ln["idx"] == ptr["idx"] + 1:
            return True, "parameter pair"
    return False, "unrecognised pairing"


def _lin(v):
    t, c = linsum(APE.vstr(v) if not isinstance(v, str) else v, tags=True)
    return t, c


def _sub(a, b):
    ta, ca = a
    tb, cb = b
    out = dict(ta)
    for k, v in tb.items():
        out[k] = out.get(k, 0) - v
    return {k: v for k, v in out.items() if v}, ca - cb


def _addl(a, b):
    ta, ca = a
    tb, cb = b
    out = dict(ta)
    for k, v in tb.items():
        out[k] = out.get(k, 0) + v
    return {k: v for k, v in out.items() if v}, ca + cb


def _check_path(res, wf, p):
    """Value-based: whatever the loop's variables are called and wherever the single write(2) sits (the function itself or a
    helper analysed as part of it), at every write  cursor + remaining == buf + size,  after n > 0 the next cursor is the old
    one plus that n, an EINTR retry repeats the same cursor, any other n <= 0 never returns, and the function returns only
    when the path implies that nothing remains."""
    BUF, SIZE = wf.params[1]["name"], wf.params[2]["name"]
    total = ({BUF: 1, SIZE: 1}, 0)
    evs = [e for e in p.events if e.kind != "branch"]
    writes = [e for e in evs if e.kind == "call" and e.a == "write"]
    cur = ({BUF: 1}, 0)          # the cursor the next write must use
    for k, e in enumerate(writes):
        s = site(wf, "write#%d" % (k + 1))
        C, R = _lin(e.b[1]), _lin(e.b[2])
        res.check(_sub(C, cur) == ({}, 0) and _sub(_addl(C, R), total) == ({}, 0), "C20.R2", s,
                  "write is called with the current cursor and exactly what remains (cursor + remaining = buf + size)",
                  "write called with (%s, %s): not the current cursor %s with everything that remains" % (APE.vstr(e.b[1]), APE.vstr(e.b[2]), cur),
                  wf.loc(e.node), p.describe(wf))
        if _sub(C, cur) != ({}, 0):
            return
        r = e.c
        cons = p.cons.get((APE.vstr(r), "#0"))
        last = k == len(writes) - 1
        nxt = writes[k + 1] if not last else None
        if cons is None:
            if not (last and p.end == "cut"):
                res.bad("C20.R2", s, "result of write is not examined before it is used", wf.loc(e.node), p.describe(wf))
            return
        if cons <= frozenset((GT,)):
            adv = _addl(cur, ({APE.vstr(r): 1}, 0))
            if nxt is not None:
                Cn = _lin(nxt.b[1])
                res.check(_sub(Cn, adv) == ({}, 0), "C20.R2", s + ":advance",
                          "n > 0: the next write starts n bytes further, with n bytes less",
                          "after a successful partial write the next write starts at %s, not at the old cursor plus the count written" % APE.vstr(nxt.b[1]),
                          wf.loc(e.node), p.describe(wf))
                if _sub(Cn, adv) != ({}, 0):
                    return
            cur = adv
        else:
            eintr = any("__errno_location" in a and v == frozenset((EQ,)) and cons <= frozenset((LT,)) for (a, b), v in p.cons.items())
            if eintr:
                if nxt is not None:
                    res.check(_sub(_lin(nxt.b[1]), cur) == ({}, 0) and _sub(_lin(nxt.b[2]), R) == ({}, 0), "C20.R2", s + ":eintr",
                              "n < 0 and errno == EINTR: retried with the same cursor and remaining size",
                              "EINTR retry path changes the cursor or the remaining size", wf.loc(e.node), p.describe(wf))
                elif p.end not in ("cut",):
                    res.bad("C20.R2", s + ":eintr", "EINTR path leaves the loop (%s)" % p.end, wf.loc(e.node), p.describe(wf))
                    return
            else:
                res.check(last and p.end == "noreturn", "C20.R2", s + ":error",
                          "n <= 0 (not EINTR) reaches a NORETURN block",
                          "a failed write (n <= 0) does not stop the process: path ends with '%s'" % p.end,
                          wf.loc(e.node), p.describe(wf))
                return
    if p.end == "exit" and p.ret() is not None:
        # R4: what the function reports to its caller must not depend on how write(2) fragmented the data
        rv = APE.vstr(p.ret())
        res.check("write(" not in rv, "C20.R4", site(wf, "return-independent-of-fragmentation"),
                  "the value returned to the caller does not contain a write(2) result",
                  "the write loop returns %s, a quantity that depends on the size of the last write(2) call: after a short write callers account the wrong number of bytes "
                  "(offsets and trailer fields differ from the unfragmented run)" % rv[:80], wf.loc(p.events[-1].node), p.describe(wf))
    if p.end == "exit":
        remaining = _sub(total, cur)
        neg = ({k: -v for k, v in remaining[0].items()}, -remaining[1])
        done = False
        for (a, b), v in p.cons.items():
            if v != frozenset((EQ,)):
                continue
            try:
                d = _sub(_lin(a), _lin(b))
            except Exception:
                continue
            if d == remaining or d == neg:
                done = True
        res.check(done, "C20.R2", site(wf, "return"),
                  "normal return only when the path implies that nothing remains (buf + size - cursor == 0)",
                  "function returns while %s bytes are not known to be written" % (remaining,),
                  None, p.describe(wf))
