"""C20 - writer output does not depend on how write(2) fragments the I/O.

R1 single writer: write(2) has exactly one call site in the library and no other
   output primitive (pwrite, writev, fwrite, dprintf, sendfile, ...) is used at all.
R2 loop dataflow (abstract path evaluation of the function holding that call site):
   the call's arguments are the current cursor and the current remaining size; when the
   result n > 0 both are advanced by that same n before the next write; on
   n < 0 with errno == EINTR the next write uses the same (cursor, remaining); every other
   n <= 0 ends in a NORETURN block; the function returns only when remaining == 0.
R3 callers pass (pointer, length) pairs that belong together.
"""
from .common import *

EXPLANATION = ("static necessary-condition rules over the resolved AST/CFG: who-may-call for write(2), "
               "abstract path evaluation of the write loop (cursor/remaining advance, EINTR retry, abort on error), "
               "pointer/length pairing at its callers; see DESIGN 3 C20")
DESIGN_REF = "DESIGN.md section 3, C20"

OTHER_OUTPUT = {"pwrite", "pwrite64", "writev", "pwritev", "fwrite", "dprintf", "vdprintf", "sendfile",
                "fputs", "fputc", "putc", "fprintf_unlocked", "send", "sendto", "ftruncate", "truncate"}


def run(ctx, res):
    prog, cg = ctx.prog, ctx.cg
    # ---- R1 -----------------------------------------------------------------
    sites = lib_calls(prog, "write")
    for f, n in sites:
        res.saw(f)
    res.floor("C20.R1", 1)
    if not sites:
        raise BrokenAnalysis("no call to write(2) in the library")
    def in_loop(fn):
        f, n = fn
        B = f.block_of(n)
        return B is not None and B.id in CFG.reachable_from(f, B.id, ()) and any(
            B.id in CFG.reachable_from(f, s, ()) for s in CFG.succs(f, B.id))
    def generic(fn):
        # the retrying writer takes what it writes from its own parameters (descriptor, buffer, size)
        f, n = fn
        a = call_args(n)
        if len(f.params) < 3 or len(a) != 3:
            return False
        from_param = set()
        for m in walk(f.body):
            if m["k"] == "DeclStmt":
                for d in m["decls"]:
                    b = base_decl(d["init"]) if d.get("init") is not None else None
                    if b and b[0] == "param":
                        from_param.add(d["name"])
        for x in a:
            b = base_decl(x)
            if not b or not (b[0] == "param" or (b[0] == "local" and b[2] in from_param)):
                return False
        return True
    sites.sort(key=lambda fn: (not generic(fn), not in_loop(fn), fn[0].name))
    first = sites[0]
    if len(first[0].params) < 3:
        if len(sites) > 1 and not any(generic(x) for x in sites):
            for f, n in sites:
                res.bad("C20.R1", site(f, "write"), "write(2) is called from %d functions and none of them is a (descriptor, buffer, size) retry loop" % len(sites), f.loc(n))
            return
        raise BrokenAnalysis("the function calling write(2) has no (fd, buffer, size) parameters")
    for f, n in sites[1:]:
        res.bad("C20.R1", site(f, "write"), "second call site of write(2): table bytes are written outside the "
                "retrying loop in %s" % first[0].name, f.loc(n))
    res.ok("C20.R1", site(first[0], "write"), "only call site of write(2) in %d library functions" % len(prog.lib_funcs()))
    others = [(f, n) for f, n in lib_calls(prog, OTHER_OUTPUT)
              if not (n["callee"] in ("fputs", "fputc", "putc") )]
    for f, n in others:
        res.bad("C20.R1", site(f, n["callee"]), "output primitive %s used in the library" % n["callee"], f.loc(n))
    if not others:
        res.ok("C20.R1", "library:other-output-primitives", "none of %s is called" % sorted(OTHER_OUTPUT - {"fputs", "fputc", "putc"}))

    # ---- R2 -----------------------------------------------------------------
    wf = first[0]
    ev = APE.run(prog, cg, wf, bound=APE.BOUND, opaque_calls=("write",))
    res.floor("C20.R2", 4)
    npaths = 0
    for p in ev.paths:
        npaths += 1
        _check_path(res, wf, p)
    res.tables["C20.R2.paths"] = npaths

    # ---- R3 -----------------------------------------------------------------
    res.floor("C20.R3", 4)
    for f, n in lib_calls(prog, wf.name):
        res.saw(f)
        a = call_args(n)
        ptr, ln = strip(a[1]), strip(a[2])
        okp, how = _pair_ok(f, ptr, ln)
        res.check(okp, "C20.R3", site(f, "%s(%s,%s)" % (wf.name, canon(ptr), canon(ln))), how,
                  "length argument %s does not belong to buffer %s" % (canon(ln), canon(ptr)), f.loc(n))


def _pair_ok(f, ptr, ln):
    # sizeof the object pointed to
    pobj = ptr
    if pobj["k"] == "UnaryOperator" and pobj.get("op") == "&":
        pobj = strip(pobj["kids"][0])
    if ln["k"] == "UnaryExprOrTypeTraitExpr":
        # sizeof(X): X must be the same object
        ks = kids(ln)
        # operand not emitted (unevaluated): compare by size of the object type
        want = ln.get("val")
        t = pobj.get("ct", pobj.get("t", ""))
        import re
        m = re.search(r"\[(\d+)\]", t)
        size = int(m.group(1)) if m else {"uint32_t": 4, "unsigned int": 4, "uint64_t": 8, "unsigned long": 8}.get(t)
        if size is not None and want == size:
            return True, "sizeof of the object written (%d bytes)" % size
        return False, "sizeof mismatch"
    if ptr["k"] == "MemberExpr" and ln["k"] == "MemberExpr":
        if ln["field"] in ("len_" + ptr["field"], ptr["field"] + "_len", "len" + ptr["field"]) and \
                canon(ptr["kids"][0]) == canon(ln["kids"][0]):
            return True, "field pair %s/%s of one object" % (ptr["field"], ln["field"])
        return False, "fields of different objects"
    if ln["k"] == "DeclRefExpr":
        # length local defined by an encoder that wrote into the same buffer
        for n in walk(f.body):
            if n["k"] == "BinaryOperator" and n.get("op") == "=" and canon(n["kids"][0]) == canon(ln) and is_call(n["kids"][1]):
                c = strip(n["kids"][1])
                if call_args(c) and base_decl(call_args(c)[0]) == base_decl(ptr):
                    return True, "length returned by %s which filled the same buffer" % c.get("callee")
        # parameter pair (ptr param i, len param i+1)
        if ln.get("dk") == "param" and ptr["k"] == "DeclRefExpr" and ptr.get("dk") == "param" and ln["idx"] == ptr["idx"] + 1:
            return True, "parameter pair"
    return False, "unrecognised pairing"


def _check_path(res, wf, p):
    cur_b, cur_s = ("s", wf.params[1]["name"]), ("s", wf.params[2]["name"])
    pname_b, pname_s = wf.params[1]["name"], wf.params[2]["name"]
    evs = [e for e in p.events if e.kind != "branch"]
    i = 0
    nwrites = 0
    while i < len(evs):
        e = evs[i]
        if e.kind == "call" and e.a == "write":
            nwrites += 1
            s = site(wf, "write#%d" % nwrites)
            res.check(e.b[1] == cur_b and e.b[2] == cur_s, "C20.R2", s,
                      "write is called with the current cursor and remaining size",
                      "write called with (%s, %s), expected (%s, %s)" % (APE.vstr(e.b[1]), APE.vstr(e.b[2]),
                                                                          APE.vstr(cur_b), APE.vstr(cur_s)),
                      wf.loc(e.node), p.describe(wf))
            r = e.c
            cons = p.cons.get((APE.vstr(r), "#0"))
            # events until the next write / end
            j = i + 1
            seg = []
            while j < len(evs) and not (evs[j].kind == "call" and evs[j].a == "write"):
                seg.append(evs[j])
                j += 1
            last = j >= len(evs)
            sb = [x for x in seg if x.kind == "store" and x.a == pname_b]
            ss = [x for x in seg if x.kind == "store" and x.a == pname_s]
            if cons is None:
                if last and p.end == "cut":
                    pass
                else:
                    res.bad("C20.R2", s, "result of write is not examined before it is used", wf.loc(e.node), p.describe(wf))
            elif cons <= frozenset((GT,)):
                wb = ("s", "(%s+%s)" % (APE.vstr(cur_b), APE.vstr(r)))
                ws = ("s", "(%s-%s)" % (APE.vstr(cur_s), APE.vstr(r)))
                if last and p.end == "cut" and not sb and not ss:
                    pass
                else:
                    okb = len(sb) == 1 and sb[0].b == wb
                    oks = len(ss) == 1 and ss[0].b == ws
                    res.check(okb and oks, "C20.R2", s + ":advance",
                              "n > 0: cursor += n and remaining -= n with the same n, once each",
                              "after a successful partial write the cursor/remaining are not both advanced by the "
                              "written count (cursor stores %s, remaining stores %s)" % ([APE.vstr(x.b) for x in sb], [APE.vstr(x.b) for x in ss]),
                              wf.loc(e.node), p.describe(wf))
                    if okb and oks:
                        cur_b, cur_s = wb, ws
                    else:
                        return
            else:
                # n <= 0 somewhere in the constraint
                eintr = False
                for (a, b), v in p.cons.items():
                    if "__errno_location" in a and v == frozenset((EQ,)) and cons <= frozenset((LT,)):
                        nodes = p.atoms.get((a, b))
                        eintr = True
                if eintr:
                    res.check(not sb and not ss, "C20.R2", s + ":eintr",
                              "n < 0 and errno == EINTR: retried with cursor and remaining untouched",
                              "EINTR retry path modifies cursor or remaining", wf.loc(e.node), p.describe(wf))
                    if last and p.end not in ("cut",):
                        res.bad("C20.R2", s + ":eintr", "EINTR path leaves the loop (%s)" % p.end, wf.loc(e.node), p.describe(wf))
                else:
                    res.check(last and p.end == "noreturn", "C20.R2", s + ":error",
                              "n <= 0 (not EINTR) reaches a NORETURN block",
                              "a failed write (n <= 0) does not stop the process: path ends with '%s'" % p.end,
                              wf.loc(e.node), p.describe(wf))
                    return
            i = j
            continue
        i += 1
    if p.end == "exit" and p.ret() is not None:
        # R4: what the function reports to its caller must not depend on how write(2) fragmented the data
        rv = APE.vstr(p.ret())
        res.check("write(" not in rv, "C20.R4", site(wf, "return-independent-of-fragmentation"),
                  "the value returned to the caller does not contain a write(2) result",
                  "the write loop returns %s, a quantity that depends on the size of the last write(2) call: after a short write callers account the wrong number of bytes "
                  "(offsets and trailer fields differ from the unfragmented run)" % rv[:80], wf.loc(p.events[-1].node), p.describe(wf))
    if p.end == "exit":
        c = p.cons.get((APE.vstr(cur_s), "#0"))
        res.check(c == frozenset((EQ,)), "C20.R2", site(wf, "return"),
                  "normal return only when remaining == 0",
                  "function returns while remaining size is not known to be 0 (constraint %s)" % (sorted(c) if c else None),
                  None, p.describe(wf))
