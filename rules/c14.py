"""C14 - no data races in the concurrent uses the API allows.

R1 immutability (complete for this clause): fields of mtbl_reader, block, mtbl_source,
   mtbl_iter are stored only by their constructors/destructors; nothing reachable from the
   iterator entry points writes through a pointer that is, or is loaded from, the reader;
   the only mutable file-scope state of the library is the CRC dispatch pointer.
R2 role effect sets: caller (before the join), worker and handler never touch the same field
   of a writer/sorter with at least one write (join-before-use for the caller side is
   C13.R3 and is re-run here; worker and handler sets are compared directly).
R3 pool internals: every access to a field of thread/resultq/threadpool satisfies its
   T-lock discipline (lock class in the must-lockset, or a listed exception).
R4 the CRC dispatch pointer is written only by the runtime detection, which carries the
   constructor attribute in the compiled configuration.
"""
import re
from .common import *
from mtblcheck import effects as FX
from . import c13

EXPLANATION = ("static race-freedom argument from the shape of the code: who-may-write rules for the immutable reader-side records "
               "(mod/ref over the whole library), disjointness of the field effect sets of the caller / worker / handler roles "
               "derived from the callback registries, must-lockset discipline for every pool-internal field against T-lock, and the "
               "single pre-main writer of the CRC dispatch pointer; see DESIGN 3 C14")
DESIGN_REF = "DESIGN.md section 3, C14"
COMPLETE = ("C14.R1 reader-side objects are immutable after construction",)
TP = "mtbl/threadpool.c"


def run(ctx, res):
    prog, cg = ctx.prog, ctx.cg
    Tr = ctx.spec("t_roles")
    Tl = ctx.spec("t_lock")
    # ---- R1 -------------------------------------------------------------------------
    res.floor("C14.R1", 6)
    for row in Tr["immutable_after_construction"]:
        rec = row["record"]
        allowed = set(w.split()[0] for w in row["writers"])
        writers = {}
        for f in prog.lib_funcs():
            for n, lhs in field_stores(f, rec):
                writers.setdefault(f.name, []).append((f, n, lhs["field"]))
        if not writers:
            raise BrokenAnalysis("no store to any field of %s found (record vanished?)" % rec)
        for fn, lst in writers.items():
            f, n, fld = lst[0]
            res.check(fn in allowed, "C14.R1", "%s:stores:%s" % (fn, rec),
                      "%s fields are stored only by %s" % (rec, sorted(allowed)),
                      "%s stores field `%s` of %s after construction: concurrent iterators of the same reader race on it" % (fn, fld, rec), f.loc(n))
    # nothing reachable from the iterator entry points writes through the reader
    ru = "mtbl/reader.c"
    entry = ["reader_iter", "reader_get", "reader_get_prefix", "reader_get_range", "reader_iter_seek", "reader_iter_next", "reader_iter_free"]
    keys = [(ru, e) for e in entry]
    for k in keys:
        if k not in cg.funcs:
            raise BrokenAnalysis("iterator entry point %s vanished" % k[1])
    reach = cg.reachable(keys)
    bad_fields = set()
    for k in sorted(reach):
        f = cg.funcs[k]
        for n, chain, mode in FX.accesses(f, "mtbl_reader", cg):
            if mode in ("W", "D"):
                # the index block is only read through iterators (block_iter_init borrows it)
                res.bad("C14.R1", site(f, "mtbl_reader.%s[%s]" % (".".join(chain), mode)),
                        "a function reachable from the iterator entry points modifies reader state `%s`: iterators of different threads share the reader"
                        % ".".join(chain), f.loc(n))
                bad_fields.add(chain)
        for n, chain, mode in FX.accesses(f, "block", cg):
            if mode == "W" and f.name not in ("block_init", "block_destroy"):
                res.bad("C14.R1", site(f, "block.%s" % ".".join(chain)), "block field written outside its constructor", f.loc(n))
    res.ok("C14.R1", "reader-iterators:mod/ref", "%d functions reachable from the iterator entry points; none writes reader state" % len(reach))
    # writes into mapped bytes: r->data is only ever a source
    for k in sorted(reach | cg.reachable([(ru, "mtbl_reader_init_fd")])):
        f = cg.funcs[k]
        for n, lhs in stores_in(f):
            if lhs["k"] in ("UnaryOperator", "ArraySubscriptExpr"):
                b = strip(lhs["kids"][0])
                while b["k"] in ("BinaryOperator",):
                    b = strip(b["kids"][0])
                if b["k"] == "MemberExpr" and b.get("rec") == "mtbl_reader" and b["field"] == "data":
                    res.bad("C14.R1", site(f, "store-into-mapping"), "store through the reader's mapped bytes", f.loc(n))
    # mutable file-scope state
    allowed_globals = set(g["name"] for g in Tr["mutable_globals_allowed"])
    muts = []
    for (u, name), g in prog.globals.items():
        if u in prog.lib_units and g.get("def") and not g.get("const"):
            muts.append((u, name))
    for u, name in muts:
        res.check(name in allowed_globals, "C14.R1", "global:%s" % name, "only listed mutable file-scope state",
                  "new mutable file-scope variable %s in %s: shared by every thread using the library" % (name, u))
    statics = []
    for f in prog.lib_funcs():
        for n in walk(f.body):
            if n["k"] == "DeclStmt":
                for d in n["decls"]:
                    if d.get("static") and "const" not in d["t"]:
                        statics.append((f, n, d["name"]))
    for f, n, nm in statics:
        res.bad("C14.R1", site(f, "static:%s" % nm), "mutable function-static variable %s is shared between threads" % nm, f.loc(n))

    # ---- R2 ---------------------------------------------------------------------------
    res.floor("C14.R2", 4)
    for rec, info in c13.OBJECTS.items():
        unit = info["unit"]
        H = c13.handler_fields(ctx, rec, unit)
        # worker role: functions passed as thread_cb from this unit
        W = {}
        for cb in sorted(cg.param_funcs.get(("threadpool_dispatch", 3), set())):
            k = cg.resolve(unit, cb)
            if k is None or k[0] != unit:
                continue
            for fk in cg.reachable([k]):
                if fk[0] != unit:
                    continue
                for n, chain, mode in FX.accesses(cg.funcs[fk], rec, cg):
                    W.setdefault(chain, set()).add(mode)
        res.tables["roles:" + rec] = {"handler": {".".join(k): "".join(sorted(v)) for k, v in H.items()},
                                      "worker": {".".join(k): "".join(sorted(v)) for k, v in W.items()}}
        for chain in sorted(set(H) | set(W)):
            hm, wm = H.get(chain, set()), W.get(chain, set())
            conflict = bool(hm and wm and ((hm | wm) & {"W", "D"}))
            res.check(not conflict, "C14.R2", "%s.%s:worker-vs-handler" % (rec, ".".join(chain)),
                      "worker and handler effect sets do not conflict on this field",
                      "worker jobs (%s) and the result handler (%s) both touch `%s` with a write and no common lock" %
                      ("".join(sorted(wm)), "".join(sorted(hm)), ".".join(chain)))
        # worker writes nothing on the object at all (it works on the job record)
        ww = sorted(".".join(k) for k, v in W.items() if v & {"W", "D"})
        res.check(not ww, "C14.R2", "%s:worker-writes" % rec, "worker jobs do not modify the object (only the job record)",
                  "worker jobs modify %s of the shared object while the caller keeps using it" % ww)
        # the job record is handed over whole: after dispatch the caller does not touch it
        for f, c in all_calls(prog, "threadpool_dispatch", units=[unit]):
            job = strip(call_args(c)[4])
            if job["k"] != "DeclRefExpr":
                continue
            idx = CFG.block_index(f)
            cb_, cp_ = idx[c["id"]]
            later = []
            reach_after = CFG.reachable_from(f, cb_)
            for n in walk(f.body):
                if n["k"] == "DeclRefExpr" and n.get("name") == job["name"] and n["id"] not in [x["id"] for x in walk(c)]:
                    w = idx.get(n["id"])
                    if w and ((w[0] == cb_ and w[1] > cp_) or (w[0] != cb_ and w[0] in reach_after and w[0] in
                                                                  set().union(*[CFG.reachable_from(f, s) for s in CFG.succs(f, cb_)]) if CFG.succs(f, cb_) else False)):
                        later.append(n)
            res.check(not later, "C14.R2", site(f, "job-handed-over"), "no access through the job pointer after dispatch",
                      "the dispatcher keeps using the job record after handing it to a worker", f.loc(later[0]) if later else None)
    # caller side = join-before-use (shared with C13.R3)
    sub = type(res)(res.prop, res.tier)
    c13.r3_join(ctx, sub)
    for rule, site_, ok, how in sub.obs:
        if ok:
            res.ok("C14.R2", site_, how)
    for v in sub.viol:
        res.bad("C14.R2", v["site"], v["what"], v["loc"], v["detail"])

    # ---- R3 pool internals ----------------------------------------------------------------
    res.floor("C14.R3", 40)
    rows = {}
    for row in Tl["fields"]:
        for fld in row["fields"]:
            rows[(row["record"], fld)] = row
    naccess = 0
    unlocked_stores = {}
    for f in prog.unit_funcs(TP):
        at, _ = FX.must_locksets(f)
        for n in walk(f.body):
            if n["k"] != "MemberExpr" or (n.get("rec"), n["field"]) not in rows:
                continue
            row = rows[(n.get("rec"), n["field"])]
            # address-of is not an access
            pid = f.parent.get(n["id"])
            par = f.nodes[pid] if pid is not None else None
            while par is not None and par["k"] in ("ParenExpr",):
                pid = f.parent.get(par["id"])
                par = f.nodes[pid] if pid is not None else None
            if par is not None and par["k"] == "UnaryOperator" and par.get("op") == "&":
                continue
            naccess += 1
            obj = canon(n["kids"][0])
            held = at.get(n["id"], frozenset())
            hc = set("%s.%s" % h[0] for h in held if h[0])
            sig = site(f, "%s.%s" % (n.get("rec"), n["field"]))
            if "held" in row:
                own = any(("%s.%s" % h[0]) in row["held"] and (h[1] == obj or n.get("rec") == "thread") for h in held if h[0])
                if own:
                    res.ok("C14.R3", sig, "under %s" % sorted(hc & set(row["held"])))
                    continue
                exc = [e for e in row.get("exceptions", []) if e.get("function") == f.name]
                is_assert = "assert" in f.macros(n)
                is_store = par is not None and MR.is_store(par) and strip(par["kids"][0])["id"] == n["id"]
                okx = False
                for e in exc:
                    acc = e.get("access", "")
                    if "assert" in acc:
                        okx = okx or is_assert
                    elif "store" in acc:
                        # each listed unlocked store is one site: count them
                        used = unlocked_stores.setdefault((f.name, n["field"]), 0)
                        budget = sum(1 for x in exc if "store" in x.get("access", ""))
                        if is_store and used < budget:
                            unlocked_stores[(f.name, n["field"])] = used + 1
                            okx = True
                    else:
                        okx = True
                res.check(okx, "C14.R3", sig, "listed exception: %s" % (exc[0]["why"] if exc else ""),
                          "`%s.%s` is accessed in %s without %s held (and no listed exception applies): unsynchronised access to pool state"
                          % (n.get("rec"), n["field"], f.name, " or ".join(row["held"])), f.loc(n))
            elif row.get("discipline") == "owner-exclusive":
                allowed = [a for a in row["allowed"] if f.name in heirs(ctx, a["function"], f.unit) and (not a.get("fields") or n["field"] in a["fields"])]
                res.check(bool(allowed), "C14.R3", sig, "owner-exclusive hand-off: %s" % (allowed[0]["when"] if allowed else ""),
                          "`thread.%s` is touched in %s, which is not one of the hand-off owners (dispatcher / worker / result thread)"
                          % (n["field"], f.name), f.loc(n))
                if allowed and "thread.m held" in allowed[0]["when"] and "assert" not in f.macros(n):
                    res.check("thread.m" in hc, "C14.R3", sig + ":lock", "thread.m held as the hand-off requires",
                              "`thread.%s` handed over without thread.m held" % n["field"], f.loc(n))
            else:
                res.ok("C14.R3", sig, row.get("discipline", "")[:80])
    # fields of the three records not in the table
    for rec in ("thread", "resultq", "threadpool", "result_handler"):
        r = prog.record(rec, TP)
        if r is None:
            raise BrokenAnalysis("record %s vanished" % rec)
        for fld in r["fields"]:
            if (rec, fld["name"]) not in rows and fld["name"] not in ("m", "c"):
                res.bad("C14.R3", "%s.%s:undisciplined" % (rec, fld["name"]), "new pool field %s.%s has no lock discipline in the table" % (rec, fld["name"]))

    # ---- R4 --------------------------------------------------------------------------------
    res.floor("C14.R4", 2)
    cu = "libmy/crc32c.c"
    writers = set()
    for f in prog.lib_funcs():
        for n, lhs in stores_in(f):
            if lhs["k"] == "DeclRefExpr" and lhs.get("dk") == "global" and lhs["name"] == "my_crc32c":
                writers.add(f.name)
    det = prog.need("my_crc32c_runtime_detection", cu)
    res.check(writers == {"my_crc32c_runtime_detection"}, "C14.R4", "my_crc32c:single-writer", "only the runtime detection stores the dispatch pointer",
              "my_crc32c is also written by %s" % sorted(writers - {"my_crc32c_runtime_detection"}))
    res.check("constructor" in det.attrs, "C14.R4", "my_crc32c_runtime_detection:constructor",
              "runs before main (constructor attribute in the compiled configuration)",
              "the CRC runtime detection lost its constructor attribute: the first checksum calls of two threads race on the dispatch pointer",
              det.loc(det.body))
    # stored values are the two implementations only
    vals = cg.global_funcs.get("my_crc32c", set())
    res.check(vals <= {"my_crc32c_sse42", "my_crc32c_slicing", "my_crc32c_first"}, "C14.R4", "my_crc32c:targets",
              "dispatch targets are the two implementations (and the first-call trampoline)", "unexpected dispatch target %s" % sorted(vals))


    # ---- R5 a job handed to the pool holds no pointer into a buffer its dispatcher goes on using ------------------------
    # On the paths of every function that dispatches a job: the record handed over (directly, or copied to the heap first)
    # may hold, in its pointer members, fresh allocations, buffers detached from their builder (out-values of a call),
    # and objects moved out of the dispatcher (the member they were read from is overwritten before the function
    # returns) - but never the interior pointer of a vector (`ubuf_data(X)`, `..._vec_data(X)`, `..._ptr(X)`) that the
    # dispatcher keeps: the caller's next add rewrites (or reallocates) those bytes while the job reads them.
    res.floor("C14.R5", 2)
    ndisp = 0
    for f in prog.lib_funcs():
        if not f.calls("threadpool_dispatch") or f.name == "threadpool_dispatch":
            continue
        res.saw(f)
        for p in APE.run(prog, cg, f, bound=APE.BOUND).paths:
            evs = [e for e in p.events if e.kind != "branch"]
            for i, e in enumerate(evs):
                if e.kind != "call" or e.a != "threadpool_dispatch" or len(e.b) < 5:
                    continue
                ndisp += 1
                arg = e.b[4]
                # the record: the argument itself, or what was copied into it
                srcs = set()
                for x in evs[:i]:
                    if x.kind == "call" and x.a in ("memcpy", "__builtin_memcpy") and x.b and x.b[0] == arg and APE.vstr(x.b[1]).startswith("&"):
                        srcs.add(APE.vstr(x.b[1])[1:])
                objs = srcs | {strip_tags(APE.vstr(arg))}
                bad = []
                for x in evs[:i]:
                    if x.kind != "store" or x.b[0] != "s":
                        continue
                    m_ = re.match(r"^(.*)(?:->|\.)(\w+)$", strip_tags(x.a))
                    if not m_ or m_.group(1) not in objs:
                        continue
                    mv = re.match(r"^(\w+_(?:data|ptr))\((.*?)\)(?:[#@]\d+)?$", APE.vstr(x.b))
                    if not mv:
                        continue
                    owner = strip_tags(mv.group(2))
                    moved = any(y.kind == "store" and strip_tags(y.a) == owner for y in evs[i:]) or any(y.kind == "store" and strip_tags(y.a) == owner for y in evs[:i] if evs.index(y) > evs.index(x))
                    if not moved:
                        bad.append((m_.group(2), APE.vstr(x.b)))
                res.check(not bad, "C14.R5", site(f, "job-owns-its-buffers"), "the job record holds allocations, detached buffers or moved objects only",
                          "the job handed to the pool keeps %s, a pointer into a buffer the dispatching thread goes on modifying: the job reads it while the "
                          "caller's next operation rewrites or reallocates it (data race / use after free)" % ", ".join("%s = %s" % b_ for b_ in bad[:2]),
                          f.loc(e.node), p.describe(f))
    if ndisp == 0:
        raise BrokenAnalysis("no dispatch of a job to the pool found on any path")
