"""CRC-32C decided over GF(2) (C17.R2/R3): both implementations compute, for every buffer content, the standard CRC-32C.

A CRC is an affine map over GF(2).  The bit domain of mtblcheck/bits.py keeps exclusive-or exact (a bit is an XOR of named
input bits and a constant), shifts and masks move such forms, a lookup in one of the eight slicing tables with an index
made of such forms is again such a form *because each table is itself affine* (T[a^b] = T[a]^T[b]^T[0], verified here on
all 256 entries of each table from the constants in the source), and the SSE4.2 instruction `crc32{b,w,l,q}` is, by its
definition, the same shift-and-xor step.  So for a buffer of n bytes whose 8n bits are *symbols*, interpreting an
implementation yields 32 affine forms - and the standard algorithm (initial value 0xFFFFFFFF, reflected polynomial
0x82F63B78, least significant bit first, final complement), run here on the same symbols, yields 32 more.  Equal forms
mean equal checksums for all 256^n contents at once.  Done for every n in 0..N and every alignment of the buffer's first
byte modulo 8 (pointer-to-integer conversions see a concrete address), whatever loops, tail switches, helpers or
temporaries the code uses.
"""
from .common import *
from mtblcheck import bits as B
from mtblcheck import memmodel as M

POLY = 0x82F63B78
BASE = 0x7f0000100000         # an 8-aligned address for the buffer's frame of reference
ASM_WIDTH = {"crc32b": 8, "crc32w": 16, "crc32l": 32, "crc32q": 64}
BUILTINS = {"__builtin_ia32_crc32qi": 8, "__builtin_ia32_crc32hi": 16, "__builtin_ia32_crc32si": 32, "__builtin_ia32_crc32di": 64,
            "_mm_crc32_u8": 8, "_mm_crc32_u16": 16, "_mm_crc32_u32": 32, "_mm_crc32_u64": 64}


def crc_step(crc_bits, data_bits):
    """One CRC-32C update of the 32-bit state by len(data_bits) data bits (least significant first)."""
    crc = list(crc_bits)
    for d in data_bits:
        fb = B.bxor(crc[0], d)
        crc = crc[1:] + [0]
        for j in range(32):
            if (POLY >> j) & 1:
                crc[j] = B.bxor(crc[j], fb)
    return crc


def reference(nbytes, base):
    crc = [1] * 32
    for k in range(nbytes):
        crc = crc_step(crc, [("d", base, k, j) for j in range(8)])
    return [B.bnot(x) for x in crc]


class CrcInterp(M.MemInterp):
    def __init__(self, prog, unit, align, tables, nbytes=None):
        super().__init__(prog, unit)
        self.align = align
        self.nbytes = nbytes
        self.tables = tables      # name -> (dims, ints)
        self.fuel = 4000
        self.steps = 0

    def load_byte(self, s, base, off, f, n):
        if base == ("p", 0) and self.nbytes is not None and not (0 <= off < self.nbytes):
            raise M.MemFault("%s reads byte %d of a buffer of %d byte(s) (%s)" % (f.name, off, self.nbytes, self.where(f, n)))
        return super().load_byte(s, base, off, f, n)

    def asm_width(self, g):
        for n in walk(g.body):
            if n.get("k") == "GCCAsmStmt":
                for k, w in ASM_WIDTH.items():
                    if k in (n.get("asm") or ""):
                        return w
        return None

    def ev_call(self, st, n, ti, f, depth):
        name = n.get("callee")
        w = BUILTINS.get(name)
        if w is None and name:
            g = self.prog.func(name, self.unit) or self.prog.func(name)
            if g is not None and g.body is not None and any(x.get("k") == "GCCAsmStmt" for x in walk(g.body)):
                w = self.asm_width(g)
                if w is None:
                    raise BrokenAnalysis("%s: inline assembly that is not a crc32 instruction (%s)" % (name, self.where(f, n)))
        if w is not None:
            for s, vals in self.ev_args(st, n["kids"][1:], 0, [], f, depth):
                crc, data = s.nbits(vals[0]), s.nbits(vals[1])
                if any(b not in (0,) for b in crc.bits[32:]):
                    hi = [b for b in crc.bits[32:] if b != 0]
                    if hi:
                        raise BrokenAnalysis("%s: crc operand has bits above 32 set (%s)" % (name, self.where(f, n)))
                self.steps += 1
                out = crc_step(list(crc.bits[:32]), list(self.convert(data, ("int", w, False)).bits))
                rw = ti[1] if ti and ti[0] == "int" else 32
                yield s, B.BV(out + [0] * (rw - 32), False)
            return
        yield from super().ev_call(st, n, ti, f, depth)

    def ev_cast(self, st, n, ti, f, depth):
        if n.get("cast") == "PointerToIntegral":
            for s, p in self.ev(st, n["kids"][0], f, depth):
                if not (isinstance(p, B.Ptr) and p.base == ("p", 0)):
                    raise BrokenAnalysis("%s: address of something other than the buffer converted to an integer (%s)" % (f.name, self.where(f, n)))
                yield s, B.const(BASE + self.align + p.off, ti[1] if ti and ti[0] == "int" else 64, False)
            return
        yield from super().ev_cast(st, n, ti, f, depth)

    def ev(self, st, n, f, depth):
        if n["k"] in ("ImplicitCastExpr", "CStyleCastExpr") and n.get("cast") == "LValueToRValue":
            k = B_strip(n["kids"][0])
            if k["k"] == "ArraySubscriptExpr":
                tab = self._table_ref(k)
                if tab is not None:
                    yield from self._lookup(st, tab, f, depth, n)
                    return
        yield from super().ev(st, n, f, depth)

    def _table_ref(self, n):
        """(table name, [index nodes outermost first]) for g_tab[i][j] on a known constant table."""
        idx = []
        cur = n
        while cur["k"] == "ArraySubscriptExpr":
            idx.append(cur["kids"][1])
            cur = B_strip(cur["kids"][0])
        if cur["k"] == "DeclRefExpr" and cur.get("dk") == "global" and cur["name"] in self.tables:
            return cur["name"], list(reversed(idx))
        return None

    def _lookup(self, st, tab, f, depth, n):
        name, idxnodes = tab
        dims, ints, affine = self.tables[name]
        if len(idxnodes) != len(dims):
            raise BrokenAnalysis("%s: partial index into %s" % (f.name, name))

        def rec(s, i, acc):
            if i == len(idxnodes):
                yield s, acc
                return
            for s2, v in self.ev(s, idxnodes[i], f, depth):
                yield from rec(s2, i + 1, acc + [s2.nbits(v)])
        for s, vs in rec(st, 0, []):
            k = vs[0]
            if not k.is_const() or not (0 <= k.value() < dims[0]):
                raise BrokenAnalysis("%s: table number is not a constant in range (%s)" % (f.name, self.where(f, n)))
            row = ints[k.value() * dims[1]:(k.value() + 1) * dims[1]]
            ix = vs[1]
            if any(b != 0 for b in ix.bits[8:]):
                raise M.MemFault("%s indexes table %s[%d] with a value that may exceed 255 (%s)" % (f.name, name, k.value(), self.where(f, n)))
            if ix.is_const():
                yield s, B.const(row[ix.value()], 32, False)
                continue
            if not affine[k.value()]:
                raise BrokenAnalysis("%s: table %s[%d] is not affine over GF(2): a symbolic lookup cannot be expressed" % (f.name, name, k.value()))
            out = [(row[0] >> j) & 1 for j in range(32)]
            for i in range(8):
                d = row[1 << i] ^ row[0]
                for j in range(32):
                    if (d >> j) & 1:
                        out[j] = B.bxor(out[j], ix.bits[i])
            yield s, B.BV(out, False)


def B_strip(n):
    while n is not None and n.get("k") in ("ParenExpr", "ImplicitCastExpr", "CStyleCastExpr", "ConstantExpr") and n.get("kids"):
        if n.get("k") in ("ImplicitCastExpr", "CStyleCastExpr") and n.get("cast") not in ("NoOp", "ArrayToPointerDecay", "LValueToRValue", None):
            break
        n = n["kids"][0]
    return n


def check(ctx, res, rule, impls):
    """impls: [(function name, unit)].  One obligation per implementation and alignment."""
    prog = ctx.prog
    thorough = ctx.tier == "thorough"
    NMAX = 72 if thorough else 26
    ALIGNS = range(8) if thorough else (0, 1, 3, 4, 7)
    tables = {}
    for (u, nm), g in prog.globals.items():
        if "ints" in g and g.get("const") and len(g["ints"]) == 2048:
            ints = g["ints"]
            affine = []
            for k in range(8):
                row = ints[k * 256:(k + 1) * 256]
                ok = True
                for a in range(256):
                    v = row[0]
                    for i in range(8):
                        if (a >> i) & 1:
                            v ^= row[1 << i] ^ row[0]
                    if v != row[a]:
                        ok = False
                        break
                affine.append(ok)
            tables[nm] = ((8, 256), ints, affine)
    res.floor(rule, len(impls) * 3)
    for fn, unit in impls:
        f = prog.func(fn, unit)
        if f is None:
            raise BrokenAnalysis("%s not compiled in this configuration" % fn)
        res.saw(f)
        for a in ALIGNS:
            problems = []
            nsteps = 0
            for n in range(0, NMAX + 1):
                I = CrcInterp(prog, unit, a, tables, n)
                st = I.new_state()
                try:
                    outs = I.call(st, f, [B.Ptr(("p", 0), 0), n])
                except M.MemFault as e:
                    problems.append("length %d: %s" % (n, e))
                    if len(problems) >= 3:
                        break
                    continue
                nsteps += I.steps
                if len(outs) != 1:
                    problems.append("length %d: the result depends on %d data-dependent branches" % (n, len(outs)))
                    continue
                s, r = outs[0]
                rd = sorted(set(o for (b_, o) in s.reads if b_ == ("p", 0)))
                if rd and (rd[0] < 0 or rd[-1] >= n):
                    problems.append("length %d: reads byte %d of the buffer" % (n, rd[-1] if rd[-1] >= n else rd[0]))
                    continue
                if not isinstance(r, B.BV):
                    problems.append("length %d: no value returned" % n)
                    continue
                got = [s.norm(x) for x in s.nbits(r).bits[:32]]
                want = reference(n, ("p", 0))
                bad = [j for j in range(32) if got[j] != want[j]]
                if bad:
                    g0, w0 = B._lin(got[bad[0]]), B._lin(want[bad[0]])
                    detail = ""
                    if g0 is not None and w0 is not None:
                        diff = sorted(g0[0] ^ w0[0], key=str)
                        if diff:
                            d0 = diff[0]
                            detail = ": e.g. result bit %d %s on bit %d of byte %d" % (bad[0], "wrongly depends" if d0 in g0[0] else "fails to depend", d0[3], d0[2])
                        elif g0[1] != w0[1]:
                            detail = ": result bit %d is inverted for every content" % bad[0]
                    problems.append("for buffers of %d byte(s) at an address = %d (mod 8), %d of the 32 result bits are not the CRC-32C of the content%s"
                                    % (n, a, len(bad), detail))
                if len(problems) >= 3:
                    break
            res.check(not problems, rule, site(f, "crc32c:align=%d" % a),
                      "for every content of every length 0..%d at an address = %d (mod 8) the result is the standard CRC-32C (32 affine forms over GF(2) equal the reference's)" % (NMAX, a),
                      "; ".join(problems[:2]), f.loc(f.body))
    res.tables.setdefault("crc_rule", {})[rule] = {"max_length": NMAX, "alignments": list(ALIGNS),
                                                   "affine_tables": {k: v[2] for k, v in tables.items()}}
