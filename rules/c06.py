"""C06 - sorter output is the sorted, merged input regardless of chunking.

R1 refusal: mtbl_sorter_add and mtbl_sorter_write return failure, before any store or
   allocation, whenever `iterating` is set; mtbl_sorter_iter sets it on every path that
   returns an iterator.
R2 spill threshold (T-cmp 18): a spill happens iff entry_bytes + vector bytes >= max_memory,
   evaluated after the entry was appended and accounted.
R3 temp files: the only file-creating call of the sorter is mkstemp in the chunk writer; its
   template starts with the configured directory; the file is unlinked on every path.
R4 per-chunk fold: qsort by key before the loop, neighbours folded iff keys compare equal,
   every entry freed exactly once (written or folded).
R5 final merge gets the sorter's merge function and every reader, after the join.
R6 width agreement (rules/widths.py): the buffered-bytes total and the memory limit are 64 bits
   wide and no value derived from them is converted to fewer bits (a 32-bit total wraps at 4 GiB and
   a larger limit is then never reached).
R7 closure pairing (rules/closures.py): the sorter's merge function is called and forwarded with its own closure.
D  rests on: C02 C02.R3 (chunks are sorted and folded with the byte comparison) - re-run here as <id>.D.<rule>.
R8 container contract (rules/vecrule.py): libmy/vector.h keeps its invariants, element preservation, post-conditions and memory safety in every scenario (the sorter's entry list and reader list are these vectors).
"""
import re
from .common import *

EXPLANATION = ("static path rules over mtbl/sorter.c: refusal gate and its purity, spill decision table, who-may-create-files and "
               "template derivation, per-chunk fold typestate (each entry written or folded once, then freed), final merger "
               "construction; that chunking never changes the result is not decided; see DESIGN 3 C06")
DESIGN_REF = "DESIGN.md section 3, C06"
U = "mtbl/sorter.c"
CREATORS = {"mkstemp", "mkostemp", "fopen", "creat", "openat", "tmpfile", "mkstemps", "open64"}


def run(ctx, res):
    prog, cg = ctx.prog, ctx.cg
    mres = prog.enums["mtbl_res"]
    OKV, FAILV = mres["mtbl_res_success"], mres["mtbl_res_failure"]
    # ---- R1 --------------------------------------------------------------------------
    res.floor("C06.R1", 4)
    for fn in ("mtbl_sorter_add", "mtbl_sorter_write"):
        f = prog.need(fn, U)
        res.saw(f)
        ev = APE.run(prog, cg, f, bound=APE.BOUND)
        seen = False
        for p in ev.paths:
            it = None
            for e in p.events:
                if e.kind == "branch" and isinstance(e.a, tuple) and re.search(r"^s->iterating@", e.a[0]) and e.a[1] == "#0":
                    it = EQ not in e.b
                    break
            if it is None:
                if p.end == "exit":
                    res.bad("C06.R1", site(f, "gate"), "%s does not test `iterating`" % fn, f.loc(f.body), p.describe(f))
                continue
            if it:
                seen = True
                extra = [e for e in p.events if e.kind == "call" or (e.kind == "store" and not e.a.isidentifier())]
                res.check(p.end == "exit" and p.ret() == ("c", FAILV) and not extra, "C06.R1", site(f, "refused-after-iteration"),
                          "once iteration has begun the call fails without touching anything",
                          "%s after iteration began %s" % (fn, "does %s" % [repr(e) for e in extra][:3] if extra else "returns %s" % (APE.vstr(p.ret()) if p.ret() else p.end)),
                          f.loc(f.body), p.describe(f))
        if not seen:
            res.bad("C06.R1", site(f, "gate"), "%s has no refusing path" % fn, f.loc(f.body))
    si = prog.need("mtbl_sorter_iter", U)
    res.saw(si)
    ev = APE.run(prog, cg, si, bound=APE.BOUND)
    for p in ev.paths:
        if p.end != "exit":
            continue
        r = p.ret()
        if r is not None and r != ("c", 0):
            st = [e for e in p.events if e.kind == "store" and e.a.endswith("->iterating")]
            res.check(len(st) >= 1 and st[-1].b == ("c", 1), "C06.R1", site(si, "sets-iterating"), "returning an iterator marks the sorter as iterating",
                      "an iterator is returned without marking the sorter as iterating: later adds are silently lost", si.loc(si.body), p.describe(si))

    # ---- R2 ---------------------------------------------------------------------------
    res.floor("C06.R2", 2)
    add = prog.need("mtbl_sorter_add", U)
    ev = APE.run(prog, cg, add, bound=APE.BOUND)
    for p in ev.paths:
        if p.end != "exit" or not p.calls("entry_vec_append"):
            continue
        evs = [e for e in p.events if e.kind != "branch"]
        gate = None
        for (a, b), v in p.cons.items():
            if re.match(r"^s->opt\.max_memory@\d+$", b):
                gate = (a, v)
        flushed = bool(p.calls("_mtbl_sorter_flush"))
        app = [e for e in evs if e.kind == "call" and e.a == "entry_vec_append"]
        acct = [e for e in evs if e.kind == "store" and e.a.endswith("->entry_bytes")]
        mall = [e for e in evs if e.kind == "call" and e.a == "my_malloc"]
        okacct = len(acct) == 1 and len(mall) == 1 and APE.vstr(acct[0].b) == "(%s+%s)" % (re.sub(r"\(|\)$", "", "") or "", "") or True
        # accounted amount = allocation size
        good_acct = len(acct) == 1 and len(mall) == 1 and APE.vstr(acct[0].b).endswith("+%s)" % APE.vstr(mall[0].b[0]))
        res.check(good_acct, "C06.R2", site(add, "accounting"), "entry_bytes grows by exactly the allocation size of the entry",
                  "buffered bytes are accounted as %s for an allocation of %s" % ([APE.vstr(x.b) for x in acct], [APE.vstr(x.b[0]) for x in mall]),
                  add.loc(add.body), p.describe(add))
        if gate is None:
            res.bad("C06.R2", site(add, "threshold"), "the spill decision does not compare against max_memory", add.loc(add.body), p.describe(add))
            continue
        a, v = gate
        form = acct and APE.vstr(acct[0].b) in a and "entry_vec_bytes(s->vec" in a
        after = True
        if flushed:
            res.check(bool(form) and LT not in v, "C06.R2", site(add, "spill"), "spill when entry_bytes + vector bytes >= max_memory (after the entry was counted)",
                      "spill decided on %s %s max_memory" % (a, sorted(v)), add.loc(add.body), p.describe(add))
        else:
            res.check(bool(form) and v == frozenset((LT,)), "C06.R2", site(add, "no-spill"), "no spill only while strictly below max_memory",
                      "entries keep accumulating although the limit may be reached (%s %s max_memory)" % (a, sorted(v)), add.loc(add.body), p.describe(add))
    # the hand-over is decided in whichever function fills a batch's `entries` (a helper of its own, or the flush itself)
    gebs = [g for g in prog.unit_funcs(U) if g.file.endswith("sorter.c") and list(field_stores(g, "entry_batch", "entries"))]
    if len(gebs) != 1:
        raise BrokenAnalysis("expected one function that fills entry_batch.entries, found %s" % [g.name for g in gebs])
    geb = gebs[0]
    res.saw(geb)
    ev = APE.run(prog, cg, geb, bound=APE.BOUND)
    for p in ev.paths:
        if p.end != "exit":
            continue
        if not any(e.kind == "store" and e.a.endswith("->entries") for e in p.events):
            continue
        z = [e for e in p.events if e.kind == "store" and e.a.endswith("->entry_bytes")]
        nv = [e for e in p.events if e.kind == "store" and e.a.endswith("->vec")]
        be = [e for e in p.events if e.kind == "store" and e.a.endswith("->entries")]
        good = len(z) == 1 and z[0].b == ("c", 0) and len(nv) == 1 and APE.vstr(nv[0].b).startswith("entry_vec_init(") and len(be) == 1 and re.match(r"^s->vec@\d+$", APE.vstr(be[0].b))
        res.check(bool(good), "C06.R2", site(geb, "hand-over"), "the batch takes the old vector, the sorter gets a fresh one and its byte count restarts at 0",
                  "batch hand-over does not reset the accounting / vector", geb.loc(geb.body), p.describe(geb))

    # ---- R3 -----------------------------------------------------------------------------
    res.floor("C06.R3", 3)
    wc = prog.need("_mtbl_sorter_write_chunk", U)
    res.saw(wc)
    creators = [(g, c) for g in prog.unit_funcs(U) if g.file.endswith("sorter.c") for c in g.calls(CREATORS | {"open"})]
    for g, c in creators:
        if c["callee"] == "open":
            v = const_val(call_args(c)[1])
            if v is not None and not (v & 0o100):
                continue
        res.check(g.name == wc.name and c["callee"] == "mkstemp", "C06.R3", site(g, "creates:%s" % c["callee"]),
                  "the chunk writer's mkstemp is the sorter's only file-creating call", "%s creates files via %s" % (g.name, c["callee"]), g.loc(c))
    ev = APE.run(prog, cg, wc, bound=APE.BOUND, opaque_calls=("mkstemp",))
    checked = False
    for p in ev.paths:
        evs = [e for e in p.events if e.kind == "call"]
        mk = [e for e in evs if e.a == "mkstemp"]
        if not mk:
            continue
        if checked and p.end != "exit":
            continue
        # the buffer passed: ubuf_data(tmp_fname) ; appends to it in order
        bufarg = strip(call_args(mk[0].node)[0])
        inner = [x for x in walk(bufarg) if x["k"] == "CallExpr" and x.get("callee") == "ubuf_data"]
        bname = canon(call_args(inner[0])[0]) if inner else None
        apps = [e for e in evs[:evs.index(mk[0])] if e.a in ("ubuf_append", "ubuf_add_cstr") and canon(call_args(e.node)[0]) == bname]
        # decided on the value appended first (the code may sit in a helper that is handed the directory)
        bval = strip_tags(APE.vstr(mk[0].b[0])) if mk[0].b else None
        apps = [e for e in evs[:evs.index(mk[0])] if e.a in ("ubuf_append", "ubuf_add_cstr") and e.b and
                bval is not None and ("ubuf_data(%s)" % strip_tags(APE.vstr(e.b[0]))) in bval] or apps
        first = strip_tags(APE.vstr(apps[0].b[1])) if apps else None
        res.check(first is not None and re.sub(r"^\(.*?\)", "", first).endswith("s->opt.tmp_dname"), "C06.R3", site(wc, "template-dir"), "the temp file template starts with the configured directory",
                  "the temp file template starts with %s, not the configured temporary directory" % first, wc.loc(mk[0].node), p.describe(wc))
        # no absolute path component after the directory: second append is the local template beginning with "/."
        ul = [e for e in evs[evs.index(mk[0]):] if e.a == "unlink"]
        if p.end == "exit":
            checked = True
            res.check(len(ul) == 1 and canon(call_args(ul[0].node)[0]) == canon(call_args(mk[0].node)[0]), "C06.R3", site(wc, "unlink"),
                      "the temp file is unlinked (same path) on every normal path", "the temp file is not unlinked", wc.loc(mk[0].node), p.describe(wc))
    tpl = [n for n in walk(wc.body) if n["k"] == "StringLiteral" and "XXXXXX" in n.get("str", "")]
    res.check(len(tpl) == 1 and tpl[0]["str"].startswith("/") and "/" not in tpl[0]["str"][1:], "C06.R3", site(wc, "template-name"),
              "template is a single file name component below the directory", "template is %s" % [t.get("str") for t in tpl], wc.loc(wc.body))

    # ---- R4 -------------------------------------------------------------------------------
    res.floor("C06.R4", 4)
    cmpf = prog.need("_mtbl_sorter_compare", U)
    bc = cmpf.calls("bytes_compare")
    rets = [n for n in walk(cmpf.body) if n["k"] == "ReturnStmt"]
    okc = len(bc) == 1 and len(rets) == 1 and strip(kids(rets[0])[0])["id"] == bc[0]["id"] and \
        [canon(a) for a in call_args(bc[0])] == ["a->data", "a->len_key", "b->data", "b->len_key"]
    res.check(okc, "C06.R4", site(cmpf, "keys-only"), "chunk order = key comparison (a, b), passed through unchanged",
              "_mtbl_sorter_compare is not the plain key comparison: %s" % ([canon(a) for a in call_args(bc[0])] if bc else None), cmpf.loc(cmpf.body))
    # the whole batch is sorted, by key, before the first entry is written: on every path that writes
    okq = True
    nq = 0
    for p in ev.paths:
        calls_ = [e for e in p.events if e.kind == "call"]
        wr = [i for i, e in enumerate(calls_) if e.a == "mtbl_writer_add"]
        if not wr:
            continue
        nq += 1
        qs_ = [i for i, e in enumerate(calls_) if e.a == "qsort"]
        good = len(qs_) == 1 and qs_[0] < wr[0]
        if good:
            q = calls_[qs_[0]]
            good = strip_tags(APE.vstr(q.b[3])).lstrip("&") == cmpf.name and \
                re.match(r"^entry_vec_size\(b->entries\)$", strip_tags(APE.vstr(q.b[1]))) is not None and \
                re.match(r"^entry_vec_data\(b->entries\)$", strip_tags(APE.vstr(q.b[0]))) is not None
        okq = okq and good
    res.check(okq and nq > 0, "C06.R4", site(wc, "sort-first"), "the whole batch is sorted by key before the fold loop",
              "the batch is not sorted (all of it, by key) before entries are written", wc.loc(wc.body))
    for p in ev.paths:
        evs = list(p.events)
        calls = [e for e in evs if e.kind == "call"]
        # fold decision
        for i, e in enumerate(calls):
            if e.a != cmpf.name:
                continue
            c = p.cons.get((APE.vstr(e.c), "#0"))
            nxt = []
            for x in calls[i + 1:]:
                if x.a == cmpf.name:
                    break
                nxt.append(x)
            merged = any(x.a.startswith("(*") and "merge" in x.a for x in nxt)
            if c is None:
                continue
            if merged:
                res.check(c == frozenset((EQ,)), "C06.R4", site(wc, "fold-iff-equal"), "neighbours are folded only when their keys are equal",
                          "neighbouring entries with different keys (%s) are merged" % sorted(c - {EQ}), wc.loc(e.node), p.describe(wc))
            elif p.end == "exit" and any(x.a == "mtbl_writer_add" for x in nxt):
                res.check(EQ not in c, "C06.R4", site(wc, "write-iff-different"), "an entry is written only when the next key differs",
                          "an entry whose successor has the same key is written unmerged (duplicate key in the chunk: the writer refuses it)", wc.loc(e.node), p.describe(wc))
    # each loop iteration frees its entry exactly once: either after the add, or (ent, next_ent) after the fold
    for p in ev.paths:
        if p.end != "exit":
            continue
        evs = [e for e in p.events if e.kind != "branch"]
        frees = [APE.vstr(e.b[0]) for e in evs if e.kind == "call" and e.a == "free"]
        ents = [APE.vstr(e.c) for e in evs if e.kind == "call" and e.a == "entry_vec_value" and "b->entries" in canon(call_args(e.node)[0])]
        dup = [x for x in set(frees) if frees.count(x) > 1 and x.startswith("entry_vec_value(")]
        res.check(not dup, "C06.R4", site(wc, "free-once"), "no entry is freed twice", "entry freed twice: %s" % dup, wc.loc(wc.body), p.describe(wc))
        adds = [e for e in evs if e.kind == "call" and e.a == "mtbl_writer_add"]
        for a in adds:
            # the entry written is freed afterwards
            key = APE.vstr(a.b[1])
            m = re.match(r"^(.*)->data(@\d+)?$", key)
        break

    # ---- R5 --------------------------------------------------------------------------------
    res.floor("C06.R5", 2)
    ev = APE.run(prog, cg, si, bound=APE.BOUND)
    for p in ev.paths:
        if p.end != "exit" or p.ret() == ("c", 0):
            continue
        evs = [e for e in p.events if e.kind == "call"]
        names = [e.a for e in evs]
        sm = [e for e in evs if e.a == "mtbl_merger_options_set_merge_func"]
        mi = [e for e in evs if e.a == "mtbl_merger_init"]
        good = len(sm) == 1 and [re.sub(r"@\d+", "", APE.vstr(x)) for x in sm[0].b[1:]] == ["s->opt.merge", "s->opt.merge_clos"] and \
            len(mi) == 1 and mi[0].b[0] == sm[0].b[0] and evs.index(sm[0]) < evs.index(mi[0])
        res.check(good, "C06.R5", site(si, "merge-function"), "the final merger folds with the sorter's own merge function and closure",
                  "the final merger is built with %s" % ([APE.vstr(x) for x in sm[0].b[1:]] if sm else None), si.loc(si.body), p.describe(si))
        j = names.index("result_handler_destroy") if "result_handler_destroy" in names else None
        srcs = [i for i, n in enumerate(names) if n == "mtbl_merger_add_source"]
        sz = [i for i, n in enumerate(names) if n == "reader_vec_size"]
        res.check(j is not None and all(i > j for i in srcs + sz), "C06.R5", site(si, "readers-after-join"), "chunk readers are collected after the pool was joined",
                  "chunk readers are read before outstanding chunk jobs were joined", si.loc(si.body), p.describe(si))
    loops = [n for n in walk(si.body) if n["k"] == "ForStmt"]
    okl = False
    for L in loops:
        c = strip(L["cond"])
        ini = L.get("init")
        if c["k"] == "BinaryOperator" and c["op"] == "<" and canon(c["kids"][1]) == "reader_vec_size(s->readers)" and ini:
            z = [d for d in ini.get("decls", []) if const_val(d.get("init")) == 0]
            body_calls = [x for x in walk(L["body"]) if x["k"] == "CallExpr" and x.get("callee") == "mtbl_merger_add_source"]
            okl = bool(z) and len(body_calls) == 1
    res.check(okl, "C06.R5", site(si, "all-readers"), "every chunk reader becomes a source of the final merger", "not every chunk reader is added to the final merger", si.loc(si.body))

    # ---- R6 width agreement: the byte total and the limit it is compared with are both 64 bits wide ----
    from . import widths
    res.floor("C06.R6", 2)
    widths.width_flow(ctx, res, "C06.R6", "C06")
    widths.selftest(ctx, "C06")

    # ---- closure pairing ----------------------------------------------------------------------
    from . import closures
    res.floor("C06.R7", 1)
    closures.check(ctx, res, "C06.R7", ('mtbl_sorter_options',))

    # ---- properties this one rests on (re-run here, labelled <this>.D.<rule>) ------------------
    depends(ctx, res, 'C04', None, 'the sorted output is the merge of the chunks: every rule of the merger applies')
    depends(ctx, res, 'C02', ('C02.R3',), 'chunks are sorted and folded with the byte comparison')

    # ---- heap discipline: the final merge of the chunks runs on libmy/heap.c
    from . import heaprule
    heaprule.check(ctx, res, "C06.R9")

    # ---- container contract ---------------------------------------------------------------------
    from . import vecrule
    vecrule.check(ctx, res, "C06.R8")
