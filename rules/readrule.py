"""The block reader parses exactly the entry row and block trailer of the format (C01.R1 reader side, C11.R4).

Decided on bytes, not on the shape of decode_entry / parse_next_key: blocks are laid out here by an encoder of the
format table that is independent of the library's builder - every legal choice the format leaves open is exercised
(restart points at every entry, at some entries, only at the first; maximal, partial and no prefix sharing; lengths
below and above 127 so both the single-byte and the multi-byte header forms occur; empty keys and values; one-entry
blocks) - with symbolic key and value bytes, and the real block_init / block_iter_init / block_iter_seek_to_first /
block_iter_get / block_iter_next (with the vector macro and the codecs underneath) are interpreted on them with the
allocation-aware interpreter.  For every entry the iterator must report the entry's key - the previous key's first
`shared` bytes followed by the stored suffix - and value, bit for bit, with the right lengths; after the last entry
next and get must fail; no access may leave the block or a live allocation.
"""
from .common import *
from mtblcheck import bits as B
from mtblcheck import memmodel as M

BL = "mtbl/block.c"

# (entries as (shared, key length, value length), indices of the entries that are restart points)
SCENARIOS = [
    ([(0, 3, 2), (2, 4, 1), (0, 1, 0)], [0, 2]),
    ([(0, 0, 0)], [0]),
    ([(0, 2, 1), (0, 2, 1), (1, 3, 0)], [0]),
    ([(0, 1, 1), (0, 2, 1), (0, 2, 2)], [0, 1, 2]),
    ([(0, 130, 1), (129, 131, 3)], [0]),
    ([(0, 1, 200), (1, 2, 0), (0, 5, 5), (5, 6, 1)], [0, 2]),
    ([(0, 4, 0), (3, 4, 0), (2, 3, 130), (0, 2, 1)], [0, 3]),
]
THOROUGH = [
    ([(0, 2, 2), (1, 2, 2), (1, 3, 1), (3, 3, 0), (0, 1, 1), (1, 1, 0)], [0, 4]),
    ([(0, 127, 127), (127, 128, 128)], [0]),
    ([(0, 1, 0)] + [(1, 2, 0), (0, 1, 1)] * 3, [0, 2, 4, 6]),
]


def _varint(v):
    out = []
    while v >= 128:
        out.append((v & 0x7f) | 0x80)
        v >>= 7
    out.append(v)
    return out


def _cbits(byte):
    return tuple((byte >> i) & 1 for i in range(8))


def layout(entries, restarts):
    """Bytes of a block (tuples of 8 bits, least significant first) and the expected (key bits, value bits) per entry."""
    data, offs, expect = [], [], []
    prev = []
    for idx, (sh, lk, lv) in enumerate(entries):
        kb, vb = ("p", 100 + 2 * idx), ("p", 101 + 2 * idx)
        offs.append(len(data))
        for x in _varint(sh) + _varint(lk - sh) + _varint(lv):
            data.append(_cbits(x))
        key = list(prev[:sh])
        for i in range(sh, lk):
            bits = tuple(("d", kb, i, j) for j in range(8))
            data.append(bits)
            key.append(bits)
        val = []
        for i in range(lv):
            bits = tuple(("d", vb, i, j) for j in range(8))
            data.append(bits)
            val.append(bits)
        expect.append((key, val))
        prev = key
    rs = [offs[i] for i in restarts]
    for r in rs + [len(rs)]:
        for k in range(4):
            data.append(_cbits((r >> (8 * k)) & 0xff))
    return data, expect


def _num(s, cell, nbytes=8):
    v = 0
    for i in range(nbytes):
        bb = s.mem.get((cell.base, i))
        if bb is None:
            return None
        for j, x in enumerate(bb):
            x = s.norm(x)
            if x not in (0, 1):
                return None
            v |= x << (8 * i + j)
    return v


def _truth(s, r):
    if isinstance(r, B.BV):
        r = s.nbits(r)
        return r.value() != 0 if r.is_const() else None
    return None


def _bytes_at(s, p, n):
    out = []
    for i in range(n):
        b = s.mem.get((p.base, p.off + i))
        out.append(None if b is None else tuple(s.norm(x) for x in b))
    return out


def read_block(I, prog, st, data_ptr, size, expect, where):
    """Interpret the reader over one block; list of problems."""
    problems = []
    fn = {n: prog.need(n, BL) for n in ("block_init", "block_iter_init", "block_iter_seek_to_first", "block_iter_get", "block_iter_next")}
    traces = 0
    for s, b in I.call(st, fn["block_init"], [data_ptr, size, 0]):
        for s, bi in I.call(s, fn["block_iter_init"], [b]):
            states = [s2 for s2, _ in I.call(s, fn["block_iter_seek_to_first"], [bi])]
            for k in range(len(expect) + 1):
                nxt = []
                for s in states:
                    h = s.ext["heap"]
                    cells = []
                    for _c in range(4):
                        kk = h.next
                        h.allocs[kk] = [8, True, True]
                        h.next = kk + 1
                        cells.append(B.Ptr(("A", kk), 0))
                    for s2, r in I.call(s, fn["block_iter_get"], [bi] + cells):
                        traces += 1
                        got = _truth(s2, r)
                        if k == len(expect):
                            if got is not False:
                                problems.append("%s: the iterator still reports an entry after the last one" % where)
                            continue
                        if got is not True:
                            problems.append("%s: entry %d is not reported (get returns %s)" % (where, k, got))
                            continue
                        key, val = expect[k]
                        lk, lv = _num(s2, cells[1]), _num(s2, cells[3])
                        kp = s2.ext["heap"].pcells.get((cells[0].base, 0))
                        vp = s2.ext["heap"].pcells.get((cells[2].base, 0))
                        if lk != len(key) or lv != len(val):
                            problems.append("%s: entry %d is reported with key length %s and value length %s, encoded were %d and %d" % (where, k, lk, lv, len(key), len(val)))
                            continue
                        if not isinstance(kp, B.Ptr) or (lv and not isinstance(vp, B.Ptr)):
                            problems.append("%s: entry %d: key / value pointer is not set" % (where, k))
                            continue
                        want_k = [tuple(s2.norm(x) for x in bits) for bits in key]
                        want_v = [tuple(s2.norm(x) for x in bits) for bits in val]
                        if _bytes_at(s2, kp, lk) != want_k:
                            bad = [i for i, (a_, b_) in enumerate(zip(_bytes_at(s2, kp, lk), want_k)) if a_ != b_]
                            problems.append("%s: entry %d: key byte %d is not the encoded key's (shared prefix of the previous key + stored suffix)" % (where, k, bad[0] if bad else -1))
                            continue
                        if lv and _bytes_at(s2, vp, lv) != want_v:
                            problems.append("%s: entry %d: the value reported is not the encoded value" % (where, k))
                            continue
                        for s3, r3 in I.call(s2, fn["block_iter_next"], [bi]):
                            ok3 = _truth(s3, r3)
                            if k + 1 < len(expect) and ok3 is not True:
                                problems.append("%s: next fails after entry %d although %d entries follow" % (where, k, len(expect) - k - 1))
                                continue
                            if k + 1 == len(expect) and ok3 is not False:
                                problems.append("%s: next succeeds after the last entry" % where)
                                continue
                            nxt.append(s3)
                states = nxt[:8]
                if problems:
                    return problems, traces
    return problems, traces


def blocks(ctx, res, rule):
    prog = ctx.prog
    res.floor(rule, 5)
    scen = SCENARIOS + (THOROUGH if ctx.tier == "thorough" else [])
    total = 0
    anchor = prog.need("block_iter_next", BL)
    res.saw(anchor)
    for entries, restarts in scen:
        where = "block of entries (shared, key length, value length) %s with restart points at entries %s" % (entries, restarts)
        data, expect = layout(entries, restarts)
        I = M.MemInterp(prog, BL)
        I.max_paths = 20000
        I.fuel = 900
        st = I.new_state()
        h = st.ext["heap"]
        k0 = h.next
        h.allocs[k0] = [len(data), True, False]
        h.next = k0 + 1
        for i, b in enumerate(data):
            st.mem[(("A", k0), i)] = b
        try:
            problems, tr = read_block(I, prog, st, B.Ptr(("A", k0), 0), len(data), expect, where)
        except M.MemFault as e:
            problems, tr = ["%s: %s" % (where, e)], 0
        except BrokenAnalysis as e:
            # every decision the iterator has to take on these blocks depends on header and trailer bytes, which are concrete
            # here; a decision that hinges on the (symbolic) key / value bytes means structure is read from content
            if "bits the domain lost" in str(e) or "not a known constant" in str(e):
                problems, tr = ["%s: the iterator takes a structural decision from entry content bytes (%s)" % (where, e)], 0
            else:
                raise
        total += tr
        res.check(not problems, rule, "block reader:%s/%s" % (",".join("%d.%d.%d" % e for e in entries)[:60], restarts),
                  "the iterator reports every encoded entry (key rebuilt from the shared prefix and the suffix, value, lengths) and nothing after the last",
                  "; ".join(problems[:2]), anchor.loc(anchor.body))
    res.tables.setdefault("block_reader_traces", {})[rule] = total
