"""The block reader parses exactly the entry row and block trailer of the format (C01.R1 reader side, C11.R4).

Decided on bytes, not on the shape of decode_entry / parse_next_key: blocks are laid out here by an encoder of the
format table that is independent of the library's builder - every legal choice the format leaves open is exercised
(restart points at every entry, at some entries, only at the first; maximal, partial and no prefix sharing; lengths
below and above 127 so both the single-byte and the multi-byte header forms occur; empty keys and values; one-entry
blocks) - with symbolic key and value bytes, and the real block_init / block_iter_init / block_iter_seek_to_first /
block_iter_get / block_iter_next (with the vector macro and the codecs underneath) are interpreted on them with the
allocation-aware interpreter.  For every entry the iterator must report the entry's key - the previous key's first
`shared` bytes followed by the stored suffix - and value, bit for bit, with the right lengths; after the last entry
next and get must fail; no access may leave the block or a live allocation.
"""
from .common import *
from mtblcheck import bits as B
from mtblcheck import memmodel as M

BL = "mtbl/block.c"

# (entries as (shared, key length, value length), indices of the entries that are restart points)
SCENARIOS = [
    ([(0, 3, 2), (2, 4, 1), (0, 1, 0)], [0, 2]),
    ([(0, 0, 0)], [0]),
    ([(0, 2, 1), (0, 2, 1), (1, 3, 0)], [0]),
    ([(0, 1, 1), (0, 2, 1), (0, 2, 2)], [0, 1, 2]),
    ([(0, 130, 1), (129, 131, 3)], [0]),
    ([(0, 1, 200), (1, 2, 0), (0, 5, 5), (5, 6, 1)], [0, 2]),
    ([(0, 4, 0), (3, 4, 0), (2, 3, 130), (0, 2, 1)], [0, 3]),
]
# entries regions around and beyond 2^32 - 1 bytes: 32-bit restart words up to exactly that length, 64-bit words above
LARGE = [
    ([(0, 1, (1 << 32) - 9)], [0]),                              # region = 2^32 - 1: still 32-bit restart words
    ([(0, 1, (1 << 32) - 8)], [0]),                              # region = 2^32: 64-bit restart words
    ([(0, 1, 1 << 31), (0, 2, (1 << 31) + 5), (1, 2, 3)], [0, 1]),
]
THOROUGH = [
    ([(0, 2, 2), (1, 2, 2), (1, 3, 1), (3, 3, 0), (0, 1, 1), (1, 1, 0)], [0, 4]),
    ([(0, 127, 127), (127, 128, 128)], [0]),
    ([(0, 1, 0)] + [(1, 2, 0), (0, 1, 1)] * 3, [0, 2, 4, 6]),
]


def _varint(v):
    out = []
    while v >= 128:
        out.append((v & 0x7f) | 0x80)
        v >>= 7
    out.append(v)
    return out


def _cbits(byte):
    return tuple((byte >> i) & 1 for i in range(8))


BIG = 4096      # values longer than this are not materialised (their bytes stay unknown; only their extent matters)


def layout(entries, restarts):
    """A block as a sparse map offset -> byte (tuple of 8 bits, least significant first), its size, the expected
    (key bits, value bits or None, value length) per entry and the restart index each entry belongs to.  Restart offsets are
    32-bit words unless the entries region is longer than 2^32 - 1 bytes (then 64-bit words), as the format says."""
    mem, offs, expect = {}, [], []
    pos = 0
    prev = []
    for idx, (sh, lk, lv) in enumerate(entries):
        kb, vb = ("p", 100 + 2 * idx), ("p", 101 + 2 * idx)
        offs.append(pos)
        for x in _varint(sh) + _varint(lk - sh) + _varint(lv):
            mem[pos] = _cbits(x)
            pos += 1
        key = list(prev[:sh])
        for i in range(sh, lk):
            bits = tuple(("d", kb, i, j) for j in range(8))
            mem[pos] = bits
            pos += 1
            key.append(bits)
        val = None
        if lv <= BIG:
            val = []
            for i in range(lv):
                bits = tuple(("d", vb, i, j) for j in range(8))
                mem[pos] = bits
                pos += 1
                val.append(bits)
        else:
            pos += lv
        expect.append((key, val, lv))
        prev = key
    rs = [offs[i] for i in restarts]
    w = 8 if pos > 0xffffffff else 4
    for r in rs:
        for k in range(w):
            mem[pos] = _cbits((r >> (8 * k)) & 0xff)
            pos += 1
    for k in range(4):
        mem[pos] = _cbits((len(rs) >> (8 * k)) & 0xff)
        pos += 1
    ridx = []
    for i in range(len(entries)):
        ridx.append(max(j for j, e_ in enumerate(restarts) if e_ <= i))
    return mem, pos, expect, ridx


def _num(s, cell, nbytes=8):
    v = 0
    for i in range(nbytes):
        bb = s.mem.get((cell.base, i))
        if bb is None:
            return None
        for j, x in enumerate(bb):
            x = s.norm(x)
            if x not in (0, 1):
                return None
            v |= x << (8 * i + j)
    return v


def _truth(s, r):
    if isinstance(r, B.BV):
        r = s.nbits(r)
        return r.value() != 0 if r.is_const() else None
    return None


def _bytes_at(s, p, n):
    out = []
    for i in range(n):
        b = s.mem.get((p.base, p.off + i))
        out.append(None if b is None else tuple(s.norm(x) for x in b))
    return out


def _cnum_field(s, obj, name):
    v = s.ext["heap"].fields.get(((obj.base, obj.off), name))
    if isinstance(v, B.BV):
        v = s.nbits(v)
        return v.value() if v.is_const() else None
    return None


def read_block(I, prog, st, data_ptr, size, expect, where, ridx=None):
    """Interpret the reader over one block; list of problems."""
    problems = []
    fn = {n: prog.need(n, BL) for n in ("block_init", "block_iter_init", "block_iter_seek_to_first", "block_iter_get", "block_iter_next")}
    traces = 0
    for s, b in I.call(st, fn["block_init"], [data_ptr, size, 0]):
        for s, bi in I.call(s, fn["block_iter_init"], [b]):
            states = [s2 for s2, _ in I.call(s, fn["block_iter_seek_to_first"], [bi])]
            for k in range(len(expect) + 1):
                nxt = []
                for s in states:
                    h = s.ext["heap"]
                    cells = []
                    for _c in range(4):
                        kk = h.next
                        h.allocs[kk] = [8, True, True]
                        h.next = kk + 1
                        cells.append(B.Ptr(("A", kk), 0))
                    for s2, r in I.call(s, fn["block_iter_get"], [bi] + cells):
                        traces += 1
                        got = _truth(s2, r)
                        if k == len(expect):
                            if got is not False:
                                problems.append("%s: the iterator still reports an entry after the last one" % where)
                            continue
                        if got is not True:
                            problems.append("%s: entry %d is not reported (get returns %s)" % (where, k, got))
                            continue
                        key, val, lvx = expect[k]
                        lk, lv = _num(s2, cells[1]), _num(s2, cells[3])
                        kp = s2.ext["heap"].pcells.get((cells[0].base, 0))
                        vp = s2.ext["heap"].pcells.get((cells[2].base, 0))
                        if lk != len(key) or lv != lvx:
                            problems.append("%s: entry %d is reported with key length %s and value length %s, encoded were %d and %d" % (where, k, lk, lv, len(key), lvx))
                            continue
                        if not isinstance(kp, B.Ptr) or (lv and not isinstance(vp, B.Ptr)):
                            problems.append("%s: entry %d: key / value pointer is not set" % (where, k))
                            continue
                        want_k = [tuple(s2.norm(x) for x in bits) for bits in key]
                        want_v = [tuple(s2.norm(x) for x in bits) for bits in val] if val is not None else None
                        if _bytes_at(s2, kp, lk) != want_k:
                            bad = [i for i, (a_, b_) in enumerate(zip(_bytes_at(s2, kp, lk), want_k)) if a_ != b_]
                            problems.append("%s: entry %d: key byte %d is not the encoded key's (shared prefix of the previous key + stored suffix)" % (where, k, bad[0] if bad else -1))
                            continue
                        if lv and want_v is not None and _bytes_at(s2, vp, lv) != want_v:
                            problems.append("%s: entry %d: the value reported is not the encoded value" % (where, k))
                            continue
                        for s3, r3 in I.call(s2, fn["block_iter_next"], [bi]):
                            ok3 = _truth(s3, r3)
                            if k + 1 < len(expect) and ok3 is not True:
                                problems.append("%s: next fails after entry %d although %d entries follow" % (where, k, len(expect) - k - 1))
                                continue
                            if k + 1 == len(expect) and ok3 is not False:
                                problems.append("%s: next succeeds after the last entry" % where)
                                continue
                            nxt.append(s3)
                states = nxt[:8]
                if problems:
                    return problems, traces
    return problems, traces


_memo = {}


class _Rec:
    """Records what a rule function reports, so that the same interpretation serves several rule ids of one run."""

    def __init__(self):
        self.items = []
        self.tables = {}

    def floor(self, rule, n):
        self.items.append(("floor", n))

    def saw(self, f):
        self.items.append(("saw", f))

    def check(self, ok, rule, site_, how, what, loc=None, detail=None):
        self.items.append(("check", ok, site_, how, what, loc, detail))

    def undecided(self, rule, msg):
        self.items.append(("undecided", msg))


def _replay(rec, res, rule):
    for it in rec.items:
        if it[0] == "floor":
            res.floor(rule, it[1])
        elif it[0] == "saw":
            res.saw(it[1])
        elif it[0] == "check":
            res.check(it[1], rule, it[2], it[3], it[4], it[5], it[6])
        elif it[0] == "undecided":
            res.undecided(rule, it[1])
    for k, v in rec.tables.items():
        res.tables.setdefault(k, {})[rule] = v.get("_", None)


def blocks(ctx, res, rule):
    key = ("blocks", id(ctx.prog), ctx.tier)
    if key not in _memo:
        rec = _Rec()
        _blocks(ctx, rec, "_")
        _memo[key] = rec
    _replay(_memo[key], res, rule)


def seeks(ctx, res, rule):
    key = ("seeks", id(ctx.prog), ctx.tier)
    if key not in _memo:
        rec = _Rec()
        _seeks(ctx, rec, "_")
        _memo[key] = rec
    _replay(_memo[key], res, rule)


def _blocks(ctx, res, rule):
    prog = ctx.prog
    res.floor(rule, 5)
    scen = SCENARIOS + LARGE + (THOROUGH if ctx.tier == "thorough" else [])
    total = 0
    anchor = prog.need("block_iter_next", BL)
    res.saw(anchor)
    for entries, restarts in scen:
        where = "block of entries (shared, key length, value length) %s with restart points at entries %s" % (entries, restarts)
        mem, size, expect, ridx = layout(entries, restarts)
        I = M.MemInterp(prog, BL)
        I.max_paths = 20000
        I.fuel = 900
        import time as _time
        I.deadline = _time.time() + 25
        st = I.new_state()
        h = st.ext["heap"]
        k0 = h.next
        h.allocs[k0] = [size, True, False]
        h.next = k0 + 1
        for i, b in mem.items():
            st.mem[(("A", k0), i)] = b
        try:
            problems, tr = read_block(I, prog, st, B.Ptr(("A", k0), 0), size, expect, where, ridx)
        except M.MemFault as e:
            problems, tr = ["%s: %s" % (where, e)], 0
        except BrokenAnalysis as e:
            # the interpretation could not be carried through on this block (for example the iterator takes a decision from
            # bytes that are symbolic here): no verdict from this scenario; other rules still report what they find
            res.undecided(rule, "%s: %s" % (where, e))
            continue
        total += tr
        res.check(not problems, rule, "block reader:%s/%s" % (",".join("%d.%d.%d" % e for e in entries)[:70], restarts),
                  "the iterator reports every encoded entry (key rebuilt from the shared prefix and the suffix, value, lengths) and nothing after the last",
                  "; ".join(problems[:2]), anchor.loc(anchor.body))
    res.tables.setdefault("block_reader_traces", {})[rule] = total


# ---- seeks on blocks with concrete keys ---------------------------------------------------------------------------
SEEK_KEYS = [b"b", b"d", b"dd", b"de", b"f", b"h", b"hh"]
SEEK_TARGETS = [b"", b"a", b"b", b"c", b"d", b"dc", b"dd", b"ddd", b"de", b"e", b"f", b"g", b"h", b"ha", b"hh", b"hi", b"z"]


def concrete_layout(keys, restarts, share, vlens=None):
    """A block of entries with the given (increasing) keys, restart points at the given entries, prefix sharing `share`
    (0 none, 1 maximal) elsewhere; values of the given lengths (default 1) whose bytes are not materialised.  64-bit restart
    words when the entries region is longer than 2^32 - 1."""
    mem, offs = {}, []
    pos = 0
    prev = b""
    for idx, k in enumerate(keys):
        offs.append(pos)
        sh = 0
        if idx not in restarts and share:
            while sh < len(prev) and sh < len(k) and prev[sh] == k[sh]:
                sh += 1
        lv = vlens[idx] if vlens else 1
        for x in _varint(sh) + _varint(len(k) - sh) + _varint(lv):
            mem[pos] = _cbits(x)
            pos += 1
        for c in k[sh:]:
            mem[pos] = _cbits(c)
            pos += 1
        pos += lv
        prev = k
    rs = [offs[i] for i in restarts]
    w = 8 if pos > 0xffffffff else 4
    for r in rs:
        for j in range(w):
            mem[pos] = _cbits((r >> (8 * j)) & 0xff)
            pos += 1
    for j in range(4):
        mem[pos] = _cbits((len(rs) >> (8 * j)) & 0xff)
        pos += 1
    return mem, pos


def _put(st, data):
    h = st.ext["heap"]
    k0 = h.next
    h.allocs[k0] = [max(len(data), 1), True, False]
    h.next = k0 + 1
    for i, c in enumerate(data):
        st.mem[(("A", k0), i)] = _cbits(c)
    return B.Ptr(("A", k0), 0)


def _seeks(ctx, res, rule):
    """block_iter_seek on independently encoded blocks with concrete keys: from a fresh iterator and from every position,
    the entry under the cursor afterwards is the first whose key is >= the target (none if there is none).  This exercises
    the restart array as the search reads it (galloping, bisection, the continue-from-here shortcut) on real bytes."""
    prog = ctx.prog
    fn = {n: prog.need(n, BL) for n in ("block_init", "block_iter_init", "block_iter_seek_to_first", "block_iter_get", "block_iter_next", "block_iter_seek")}
    res.saw(fn["block_iter_seek"])
    layouts = [([0, 2, 4, 6], 1, None), ([0], 1, None), (list(range(len(SEEK_KEYS))), 0, None), ([0, 3], 0, None),
               # entries region beyond 2^32 - 1 bytes: the search reads 64-bit restart words
               ([0, 1, 3, 5], 1, [1 << 31, (1 << 31) + 5, 1, 1, 0, 7, 1])]
    if ctx.tier != "thorough":
        layouts = [layouts[0], layouts[3], layouts[4]]
    total = 0
    for restarts, share, vlens in layouts:
        problems = []
        where = "keys %s, restart points at entries %s, %s sharing%s" % ([k.decode() for k in SEEK_KEYS], restarts, "maximal" if share else "no",
                                                                          ", values of %s bytes" % vlens if vlens else "")
        mem, size = concrete_layout(SEEK_KEYS, restarts, share, vlens)
        positions = [None] + list(range(len(SEEK_KEYS) + 1)) if ctx.tier == "thorough" else [None, 3]
        try:
            for start in positions:
                for tgt in SEEK_TARGETS:
                    if problems:
                        break
                    I = M.MemInterp(prog, BL)
                    I.max_paths = 20000
                    I.fuel = 900
                    import time as _time
                    I.deadline = _time.time() + 10
                    st = I.new_state()
                    h = st.ext["heap"]
                    k0 = h.next
                    h.allocs[k0] = [size, True, False]
                    h.next = k0 + 1
                    for i, b in mem.items():
                        st.mem[(("A", k0), i)] = b
                    (s, blk), = I.call(st, fn["block_init"], [B.Ptr(("A", k0), 0), size, 0])
                    (s, bi), = I.call(s, fn["block_iter_init"], [blk])
                    if start is not None:
                        (s, _r), = I.call(s, fn["block_iter_seek_to_first"], [bi])
                        for _k in range(start):
                            (s, _r), = I.call(s, fn["block_iter_next"], [bi])
                    tp = _put(s, tgt)
                    outs = I.call(s, fn["block_iter_seek"], [bi, tp, len(tgt)])
                    total += 1
                    want = next((i for i, k in enumerate(SEEK_KEYS) if k >= tgt), None)
                    for s2, _r in outs:
                        hh = s2.ext["heap"]
                        cells = []
                        for _c in range(4):
                            kk = hh.next
                            hh.allocs[kk] = [8, True, True]
                            hh.next = kk + 1
                            cells.append(B.Ptr(("A", kk), 0))
                        for s3, r3 in I.call(s2, fn["block_iter_get"], [bi] + cells):
                            got = _truth(s3, r3)
                            desc = "%s: seek(%r) from %s" % (where, tgt.decode(), "a fresh iterator" if start is None else "position %d" % start)
                            if want is None:
                                if got is not False:
                                    problems.append("%s leaves the iterator on an entry although no key is >= the target" % desc)
                                continue
                            if got is not True:
                                problems.append("%s leaves the iterator without an entry, expected %r" % (desc, SEEK_KEYS[want].decode()))
                                continue
                            kp = s3.ext["heap"].pcells.get((cells[0].base, 0))
                            lk = _num(s3, cells[1])
                            kb = _bytes_at(s3, kp, lk) if isinstance(kp, B.Ptr) and lk is not None and lk < 64 else None
                            gotk = None
                            if kb is not None and all(b_ is not None and all(x in (0, 1) for x in b_) for b_ in kb):
                                gotk = bytes(sum(bit << i for i, bit in enumerate(b_)) for b_ in kb)
                            if gotk != SEEK_KEYS[want]:
                                problems.append("%s lands on key %r, the first key >= target is %r" % (desc, gotk.decode(errors="replace") if gotk is not None else None,
                                                                                                      SEEK_KEYS[want].decode()))
        except M.MemFault as e:
            problems.append("%s: %s" % (where, e))
        except BrokenAnalysis as e:
            res.undecided(rule, "%s: %s" % (where, e))
            continue
        res.check(not problems, rule, "block seek:%s/%s%s" % (restarts, "shared" if share else "unshared", "/large" if vlens else ""),
                  "seek ends on the first entry >= target from every state, on real restart arrays",
                  "; ".join(problems[:2]), fn["block_iter_seek"].loc(fn["block_iter_seek"].body))
    res.tables.setdefault("block_seek_runs", {})[rule] = total


# ---- arbitrary bytes handed to the block reader (C19.R2) ----------------------------------------------------------------
def malformed(ctx, res, rule):
    """block_init, block_iter_init, block_iter_seek_to_first and a walk with block_iter_next over byte strings that are not
    blocks: lengths 0..24, filled with zeros, with 0xff or with a counting pattern, and with every interesting value in the
    last four bytes (where a block keeps its restart count).  The code may stop the process through an assertion or walk
    to the end; it must never read or write outside the bytes it was given (or outside a live allocation)."""
    prog = ctx.prog
    fn = {n: prog.need(n, BL) for n in ("block_init", "block_iter_init", "block_iter_seek_to_first", "block_iter_get", "block_iter_next")}
    for g in fn.values():
        res.saw(g)
    res.floor(rule, 3)
    sizes = list(range(0, 13)) + [16, 20, 24]
    counts = [None, 0, 1, 2, 3, 5, 6, 7, 0x3fffffff, 0x40000000, 0x7fffffff, 0x80000000, 0xfffffffe, 0xffffffff]
    fills = {"zero": lambda i: 0, "ones": lambda i: 0xff, "count": lambda i: (i * 37 + 1) & 0xff}
    if ctx.tier != "thorough":
        sizes = [0, 3, 4, 7, 8, 9, 12, 16, 24]
    outcome = {"assert": 0, "clean": 0}
    import time as _time
    for fname, fill in fills.items():
        problems = []
        und = None
        for size in sizes:
            for cnt in counts:
                if cnt is not None and size < 4:
                    continue
                data = [fill(i) for i in range(size)]
                if cnt is not None:
                    for j in range(4):
                        data[size - 4 + j] = (cnt >> (8 * j)) & 0xff
                I = M.MemInterp(prog, BL)
                I.max_paths = 5000
                I.fuel = 300
                I.deadline = _time.time() + 8
                st = I.new_state()
                h = st.ext["heap"]
                k0 = h.next
                h.allocs[k0] = [size, True, False]
                h.next = k0 + 1
                for i, c in enumerate(data):
                    st.mem[(("A", k0), i)] = _cbits(c)
                where = "%d bytes (%s%s)" % (size, fname, ", last four = %#x" % cnt if cnt is not None else "")
                try:
                    for s, blk in I.call(st, fn["block_init"], [B.Ptr(("A", k0), 0), size, 0]):
                        for s, bi in I.call(s, fn["block_iter_init"], [blk]):
                            states = [s2 for s2, _ in I.call(s, fn["block_iter_seek_to_first"], [bi])]
                            steps = 0
                            while states and steps < 12:
                                steps += 1
                                nxt = []
                                for s in states:
                                    for s2, r in I.call(s, fn["block_iter_next"], [bi]):
                                        if _truth(s2, r) is True:
                                            nxt.append(s2)
                                states = nxt[:4]
                    outcome["clean"] += 1
                except M.MemFault as e:
                    if "assertion fails" in str(e):
                        outcome["assert"] += 1
                    else:
                        problems.append("%s: %s" % (where, e))
                except BrokenAnalysis as e:
                    und = "%s: %s" % (where, e)
        if und and not problems:
            res.undecided(rule, und)
            continue
        res.check(not problems, rule, "block reader:arbitrary-bytes:%s" % fname,
                  "byte strings that are not blocks end in an assertion or a clean walk, never in an access outside the bytes given",
                  "; ".join(problems[:2]), fn["block_init"].loc(fn["block_init"].body))
    res.tables.setdefault("arbitrary_bytes_outcomes", {})[rule] = dict(outcome)
