"""C09 - written files are well-formed MTBL v2 as judged by an independent decoder.

R1 emit sequences of block_builder_add / block_builder_finish / _mtbl_writer_write_block /
   the index entry / metadata_write equal their T-format rows; the sizes passed to the
   write loop sum to the value returned as bytes written.
R2 CRC scope: the crc field written is computed over (data, len_data) of the same block after
   their last definition (after compression) and nothing on the way to the file changes them.
R3 restart cadence decision table of block_builder_add and reset.
R4 size gate (T-cmp 19) and agreement of the size estimate with what finish emits.
R5 offsets: index value = offset before the block's bytes were added; pending_offset starts at
   the initial file offset and grows by exactly the bytes written.
D  rests on: C16 (the format's integers are these codecs); C17 (the format's checksum is this function) - re-run here as <id>.D.<rule>.
R7 container contract (rules/vecrule.py): libmy/vector.h keeps its invariants, element preservation, post-conditions and memory safety in every scenario (every emitted byte passes through a ubuf).
R8 block builder under tight buffers (rules/bbrule.py): with the entry buffer tightened to size + d bytes (d = 0..11, 0..23 thorough) before every add and before finish, every write stays inside the allocation and the finished size is entries + 4 per restart + 4.
"""
import re
from .common import *
from . import fmt
from . import c10

EXPLANATION = ("static sibling/table agreement: the writer-side emit sequences (entry, restart array, framing, index entry, trailer) "
               "extracted by abstract path evaluation are compared with the declarative MTBL v2 format table; CRC scope, restart "
               "cadence, size gate and offset bookkeeping are decided as path/decision-table rules; the bytes of real files are not "
               "decided (that needs an independent decoder run on outputs - another family); see DESIGN 3 C09")
DESIGN_REF = "DESIGN.md section 3, C09"
W = "mtbl/writer.c"


def run(ctx, res):
    prog, cg = ctx.prog, ctx.cg
    mres = prog.enums["mtbl_res"]
    OKV = mres["mtbl_res_success"]
    res.floor("C09.R1", 12)
    from . import bbrule as _bb
    _bb.entry_encoding(ctx, res, "C09.R1")      # the entry row and block trailer, decided on the bytes produced (was: a shape recogniser)
    fmt.restart_width_check(ctx, res, "C09.R1")
    # framing: decided on the bytes handed to the write loop on the paths of the block-writing functions (rules/framerule.py)
    from . import framerule
    framerule.frames(ctx, res, "C09.R1")
    # the CRC field is little-endian on the wire: stored through htole32 at both definition sites
    crc_defs = []
    for g in prog.unit_funcs(W):
        for n, lhs in field_stores(g, "data_block", "crc"):
            crc_defs.append((g, n))
    # a checksum kept in a local instead of the record (and written from there as raw bytes): same byte-order obligation
    crc_locals = []
    for g in prog.unit_funcs(W):
        for n in walk(g.body):
            if n["k"] == "DeclStmt":
                for d in n["decls"]:
                    if d.get("init") is not None and any(x["k"] == "CallExpr" and x.get("callee") == "mtbl_crc32c" for x in walk(d["init"])):
                        crc_locals.append((g, d["init"], n))
            elif n["k"] == "BinaryOperator" and n.get("op") == "=" and strip(n["kids"][0])["k"] == "DeclRefExpr" and strip(n["kids"][0]).get("dk") == "local" \
                    and any(x["k"] == "CallExpr" and x.get("callee") == "mtbl_crc32c" for x in walk(n["kids"][1])):
                crc_locals.append((g, n["kids"][1], n))
    for g, rhs_, n_ in crc_locals:
        le_ = "htole32" in g.macros(strip(rhs_)) or any("htole32" in g.macros(x) for x in walk(rhs_))
        modes_ = framerule.crc_mode(ctx)
        res.check((le_ and modes_ == {"raw"}) or (not le_ and modes_ == {"encoded"}), "C09.R2", site(g, "crc-little-endian:local"),
                  "checksum little-endian before it is written as raw bytes (or host order and encoded where it is written)",
                  "checksum is written in host byte order", g.loc(n_))
    res.floor("C09.R2", 4)
    for g, n in crc_defs:
        rhs = strip(n["kids"][1])
        macs = g.macros(rhs)
        inner = [x for x in walk(rhs) if x["k"] == "CallExpr" and x.get("callee") == "mtbl_crc32c"]
        obj = canon(strip(n["kids"][0])["kids"][0])
        good = len(inner) == 1 and [canon(a) for a in call_args(inner[0])] in (["%s->data" % obj, "%s->len_data" % obj], ["%s.data" % obj, "%s.len_data" % obj])
        res.check(good, "C09.R2", site(g, "crc-over-stored-bytes"), "crc := CRC32C(data, len_data) of the same block",
                  "the checksum stored with the block is computed over %s" % ([canon(a) for a in call_args(inner[0])] if inner else canon(rhs)), g.loc(n))
        le_stored = "htole32" in macs or any("htole32" in g.macros(x) for x in walk(rhs))
        modes = framerule.crc_mode(ctx)
        if modes == {"encoded"}:
            # the field's *value* is encoded little-endian when the block is written (rules/framerule.py): it must be the
            # host-order checksum, not an already converted one
            res.check(not le_stored, "C09.R2", site(g, "crc-little-endian"),
                      "checksum kept in host order and encoded little-endian where it is written",
                      "checksum is converted to little-endian when stored and encoded again when written: wrong on big-endian hosts", g.loc(n))
        else:
            res.check(le_stored and modes == {"raw"}, "C09.R2", site(g, "crc-little-endian"),
                      "checksum converted to little-endian before it is written as raw bytes",
                      "checksum is written in host byte order" if modes <= {"raw"} else "checksum reaches the file raw on some paths and encoded on others", g.loc(n))
        # after the last definition of data / len_data on every path
        evp = APE.run(prog, cg, g, bound=APE.BOUND)
        for p in evp.paths:
            if p.end != "exit":
                continue
            evs = [e for e in p.events if e.kind != "branch"]
            ci = [i for i, e in enumerate(evs) if e.kind == "store" and same_node(e.node, n)]
            if not ci:
                continue
            # only the last checksum definition on a path reaches the file
            allcrc = [i for i, e in enumerate(evs) if e.kind == "store" and re.sub(r"@\d+", "", e.a) in ("%s->crc" % obj, "%s.crc" % obj)]
            if allcrc and allcrc[-1] != ci[-1]:
                continue
            late = [e for e in evs[ci[-1] + 1:] if e.kind == "store" and re.sub(r"@\d+", "", e.a) in ("%s->data" % obj, "%s->len_data" % obj, "%s.data" % obj, "%s.len_data" % obj)]
            # out-parameter definitions (block_builder_finish(&index.data, &index.len_data)) must precede as well
            late += [e for e in evs[ci[-1] + 1:] if e.kind == "call" and any(re.sub(r"@\d+", "", APE.vstr(a)) in ("&%s.data" % obj, "&%s.len_data" % obj) for a in e.b)]
            comp = [e for e in evs[ci[-1] + 1:] if e.kind == "call" and e.a in ("mtbl_compress", "mtbl_compress_level")]
            res.check(not late and not comp, "C09.R2", site(g, "crc-after-last-definition"), "nothing redefines the stored bytes after the checksum was taken",
                      "the stored bytes are redefined (%s) after the checksum was computed: every block of the file fails verification, or worse, the checksum covers "
                      "the uncompressed bytes" % [repr(x) for x in late + comp][:2], g.loc(n), p.describe(g))
    # between compression and the file nothing touches the job record
    for fn in ("_write_data_block_wrapper", "_mtbl_writer_write_data_block", "_mtbl_writer_write_block", "_compress_block_wrapper"):
        g = prog.need(fn, W)
        bad = [lhs["field"] for n, lhs in field_stores(g, "data_block") if lhs["field"] in ("data", "len_data", "crc")]
        res.check(not bad, "C09.R2", site(g, "job-record-untouched"), "the path from compression to the file does not modify data/len_data/crc",
                  "%s modifies %s of a finished block" % (fn, bad))

    # every block that reaches the file has had its checksum defined on every path (definite assignment)
    _crc_definitely_assigned(ctx, res)

    # ---- R3 restart cadence ---------------------------------------------------------------
    res.floor("C09.R3", 3)
    add = prog.need("block_builder_add", fmt.BB)
    ev = APE.run(prog, cg, add, bound=APE.BOUND)
    for p in ev.paths:
        if p.end != "exit":
            continue
        c = None
        for (a, b), v in p.cons.items():
            if re.match(r"^b->counter@\d+$", a) and re.match(r"^b->block_restart_interval@\d+$", b):
                c = v
        evs = [e for e in p.events if e.kind != "branch"]
        push = [e for e in evs if e.kind == "call" and e.a == "uint64_vec_add" and canon(call_args(e.node)[0]) == "b->restarts"]
        cnt = [e for e in evs if e.kind == "store" and e.a.endswith("->counter")]
        first_enc = [i for i, e in enumerate(evs) if (e.kind == "call" and e.a in ("mtbl_varint_encode32", "memcpy")) or
                     (e.kind == "store" and re.match(r"^\w+\[#\d+\]$", e.a))]
        sh = [e for e in evs if e.kind == "store" and e.a == "shared"]
        sharedv = sh[-1].b if sh else None
        if c == frozenset((LT,)):
            good = not push and len(cnt) == 1 and cnt[0].b[1].endswith("+#1)")
            res.check(good, "C09.R3", site(add, "share"), "counter < interval: prefix shared, no restart point, counter += 1",
                      "below the interval the builder %s" % ("pushes a restart point" if push else "does not count the entry"), add.loc(add.body), p.describe(add))
        elif c is not None and LT not in c:
            good = len(push) == 1 and APE.vstr(push[0].b[1]).startswith("ubuf_bytes(b->buf") and sharedv == ("c", 0) and cnt and cnt[-1].b == ("c", 1) and \
                evs.index(push[0]) < first_enc[0]
            res.check(good, "C09.R3", site(add, "restart"), "counter == interval: current size pushed as restart point, nothing shared, counter restarts at 1",
                      "at the interval the builder does not start a clean restart run (restart pushed: %d, shared: %s, counter: %s)" %
                      (len(push), APE.vstr(sharedv) if sharedv else None, [APE.vstr(x.b) for x in cnt]), add.loc(add.body), p.describe(add))
        else:
            res.bad("C09.R3", site(add, "cadence"), "prefix sharing does not depend on the restart counter", add.loc(add.body), p.describe(add))
    # what reset (or finish itself) must re-establish: decided by interpretation - a reused builder yields a block holding exactly
    # the next entries (rules/bbrule.py: reuse)
    from . import bbrule as _bbr
    _bbr.reuse(ctx, res, "C09.R3")

    # ---- R4 size gate -----------------------------------------------------------------------
    res.floor("C09.R4", 2)
    wadd = prog.need("mtbl_writer_add", W)
    ev = APE.run(prog, cg, wadd, bound=APE.BOUND)
    for p in ev.paths:
        if p.end != "exit" or p.ret() != ("c", OKV):
            continue
        # the decision atom: (estimate + allowance + len_key + len_val) ? block_size, in any association and on either side
        gate = None
        kname, vname = wadd.params[2]["name"], wadd.params[4]["name"]
        for (a, b), v in p.cons.items():
            if "block_builder_current_size_estimate(" not in a + b or "block_size" not in a + b:
                continue
            terms, const = lindiff(a, b)
            est = [t for t in terms if t.startswith("block_builder_current_size_estimate(")]
            bs = [t for t in terms if t.endswith("opt.block_size")]
            if len(est) != 1 or len(bs) != 1 or terms[est[0]] * terms[bs[0]] >= 0:
                continue
            sign = terms[est[0]]          # +1: estimate side is the left operand
            rest = {t: c * sign for t, c in terms.items() if t not in (est[0], bs[0])}
            vv = v if sign > 0 else APE.mirror(v)
            gate = (vv, rest, const * sign, abs(terms[est[0]]) == 1 and abs(terms[bs[0]]) == 1)
        flushed = bool(p.calls("_mtbl_writer_flush"))
        if gate is None:
            # no size test on a path that has established that the open block is empty: cutting an empty block writes nothing
            # (the flush returns at once), so there is nothing to decide
            empty = [v_ for (a_, b_), v_ in p.cons.items() if a_.startswith("block_builder_empty(") and b_ == "#0"]
            if empty and all(EQ not in v_ for v_ in empty) and not flushed:
                res.ok("C09.R4", site(wadd, "no-cut:empty-block"), "no size test needed while the open block is empty")
                continue
            res.bad("C09.R4", site(wadd, "size-gate"), "no decision compares the size estimate with the configured block size on a path that accepts an entry",
                    wadd.loc(wadd.body), p.describe(wadd))
            continue
        v, rest, k, unit = gate
        okform = unit and k == 15 and rest == {kname: 1, vname: 1}
        if flushed:
            res.check(okform and LT not in v, "C09.R4", site(wadd, "cut"), "block closed first when estimate + 15 + len_key + len_val >= block_size",
                      "block is closed on %s of estimate + %s + %s against block_size" % (sorted(v), k, rest), wadd.loc(wadd.body), p.describe(wadd))
        else:
            res.check(okform and v == frozenset((LT,)), "C09.R4", site(wadd, "no-cut"), "entry joins the open block only while the total stays below block_size",
                      "entry joins the open block on %s of estimate + %s + %s against block_size" % (sorted(v), k, rest), wadd.loc(wadd.body), p.describe(wadd))

    # ---- R5 offsets (rules/framerule.py: value-based, on the paths of the block-writing functions) --------------------
    res.floor("C09.R5", 3)
    framerule.offsets(ctx, res, "C09.R5")

    # ---- R6 separator never drops below the block's last key ----------------------------------------
    res.floor("C09.R6", 8)
    sepf = prog.need("bytes_shortest_separator", W)
    res.saw(sepf)
    evs_ = APE.run(prog, cg, sepf, bound=APE.BOUND)
    sep0 = "ubuf_data(%s)" % sepf.params[0]["name"]

    def sep_addr(v):
        # an address inside the separator's bytes, however it is formed: &data[i] or data + i
        s_ = APE.vstr(v)
        return s_.startswith("&" + sep0) or any(t_.startswith(sep0) for t_ in linsum(s_, tags=True)[0])
    nmod = 0
    for p in evs_.paths:
        if p.end != "exit":
            continue
        locs = {}
        wide = {}     # out-symbol of a multi-byte read of the separator -> (source address, size)
        for e in p.events:
            if e.kind == "store" and e.a.isidentifier():
                locs[e.a] = e.b
            mods = []
            if e.kind == "call" and e.a == "memcpy" and sep_addr(e.b[1]) and 0 in e.outs:
                wide[APE.vstr(e.outs[0])] = (APE.vstr(e.b[1]), APE.vstr(e.b[2]))
            # a value derived from a wider read must be written back whole, at the place it was read from
            if e.kind == "store" and e.a.startswith("ubuf_data(%s)" % sepf.params[0]["name"]):
                for sym, (addr, size) in wide.items():
                    if sym in APE.vstr(e.b):
                        res.bad("C09.R6", site(sepf, "partial-write-back"),
                                "a value computed from a %s-byte read of the separator is stored back into a single byte: the carry into the other byte(s) is lost and "
                                "the index key can sort below the block's last key" % size.lstrip("#"), sepf.loc(e.node), p.describe(sepf))
            if e.kind == "call" and e.a == "memcpy" and sep_addr(e.b[0]):
                src = APE.vstr(e.b[1])
                val = APE.vstr(locs.get(src[1:], ("s", src))) if src.startswith("&") else src
                for sym, (addr, size) in wide.items():
                    if sym in val:
                        res.check(APE.vstr(e.b[0]) == addr and APE.vstr(e.b[2]) == size, "C09.R6", site(sepf, "whole-write-back"),
                                  "the incremented %s-byte value is written back whole at the address it was read from" % size.lstrip("#"),
                                  "the incremented value read from %s (%s bytes) is written back to %s (%s bytes)" % (addr, size, APE.vstr(e.b[0]), APE.vstr(e.b[2])),
                                  sepf.loc(e.node), p.describe(sepf))
            if e.kind == "store" and e.a.startswith("ubuf_data(%s)" % sepf.params[0]["name"]):
                mods.append(APE.vstr(e.b))
            if e.kind == "call" and e.a == "memcpy" and sep_addr(e.b[0]):
                src = APE.vstr(e.b[1])
                if src.startswith("&") and src[1:] in locs:
                    mods.append(APE.vstr(locs[src[1:]]))
                else:
                    mods.append(src)
            for e2 in ([e] if e.kind == "call" and e.outs else []):
                for i, sym in e2.outs.items():
                    vs = APE.vstr(e2.b[i])
                    if vs.startswith("&") and vs[1:].isidentifier():
                        locs[vs[1:]] = sym
            for val in mods:
                nmod += 1
                incs = re.findall(r"\(((?:[^()]|\([^()]*\)|\((?:[^()]|\([^()]*\))*\))+)\+#1\)", val)
                if not incs:
                    res.bad("C09.R6", site(sepf, "modification"), "separator bytes are overwritten with %s (not an increment of the old value)" % val[:80],
                            sepf.loc(e.node), p.describe(sepf))
                    continue
                for X in incs:
                    c8 = p.cons.get((X, "#255"))
                    cw = p.cons.get((X, "(%s+#1)" % X))
                    guarded = (c8 is not None and c8 <= frozenset((LT,))) or (cw is not None and GT not in cw)
                    res.check(guarded, "C09.R6", site(sepf, "increment-guarded"),
                              "an incremented key byte/word is proven not to wrap (byte < 0xFF, or value <= value+1) on the path",
                              "the separator is produced by incrementing %s with no test that it cannot wrap around: at 0xFF the byte becomes 0x00 and the index key sorts "
                              "BELOW the block's last key (lookups of the block's tail keys miss)" % X[:60], sepf.loc(e.node), p.describe(sepf))
    if nmod == 0:
        raise BrokenAnalysis("bytes_shortest_separator: no modification of the separator recognised")
    # the function still ends by asserting separator < limit
    asserts = [n for n in walk(sepf.body) if n["k"] == "CallExpr" and n.get("callee") == "__assert_fail" and "bytes_compare" in canon(call_args(n)[0])]
    res.check(len(asserts) >= 1, "C09.R6", site(sepf, "asserts-below-limit"), "the separator is asserted to sort below the next block's first key",
              "the closing assertion separator < limit is gone", sepf.loc(sepf.body))

    # ---- trailer (shared with C10.R1) -------------------------------------------------------------
    sub = type(res)(res.prop, res.tier)
    c10.run(ctx, sub)
    for rule, site_, ok, how in sub.obs:
        if rule == "C10.R1" and site_.startswith("metadata_write:"):
            if ok:
                res.ok("C09.R1", site_, how)
    for v in sub.viol:
        if v["rule"] == "C10.R1" and v["site"].startswith("metadata_write:"):
            res.bad("C09.R1", v["site"], v["what"], v["loc"], v["detail"])


    # ---- properties this one rests on (re-run here, labelled <this>.D.<rule>) ------------------
    depends(ctx, res, 'C16', None, "the format's integers are these codecs")
    depends(ctx, res, 'C17', None, "the format's checksum is this function")

    # ---- block builder under tight buffers
    from . import bbrule
    bbrule.check(ctx, res, "C09.R8")

    # ---- container contract ---------------------------------------------------------------------
    from . import vecrule
    vecrule.check(ctx, res, "C09.R7")

def _crc_definitely_assigned(ctx, res):
    """C09.R2 (second half): the crc field is read by the block-writing function; on every path by which a block
    record reaches it - inline, or through the pool (work function -> result callback) - the field was stored,
    directly or by a callee that stores it on all of its own paths."""
    prog, cg = ctx.prog, ctx.cg
    W = "mtbl/writer.c"
    REC = "data_block"
    funcs = [g for g in prog.unit_funcs(W) if g.file.endswith("writer.c")]
    paths = {}

    def P(g):
        if g.name not in paths:
            paths[g.name] = [p for p in APE.run(prog, cg, g, bound=1).paths if p.end == "exit"]
        return paths[g.name]

    def is_block_ptr(prm):
        t = (prm.get("ct") or prm["t"])
        return "struct %s *" % REC in t or t.strip() in ("void *",)

    def strip_ver(x):
        return re.sub(r"@\d+", "", x)

    # --- functions that define crc of a parameter on every path (fixpoint)
    must = set()     # (function name, parameter index)
    changed = True
    while changed:
        changed = False
        for g in funcs:
            for k, prm in enumerate(g.params):
                if (g.name, k) in must or not is_block_ptr(prm):
                    continue
                pn = prm["name"]
                ps = P(g)
                if not ps:
                    continue
                allp = True
                some = False
                for p in ps:
                    if any(a == pn and b == "#0" and v <= frozenset((EQ,)) for (a, b), v in p.cons.items()):
                        continue     # the parameter is NULL on this path: no block
                    ok = False
                    for e in p.events:
                        if e.kind == "store" and strip_ver(e.a) == "%s->crc" % pn:
                            ok = True
                        elif e.kind == "store" and e.a.isidentifier() and e.b is not None and APE.vstr(e.b) == pn:
                            pass
                        elif e.kind == "call":
                            for j, v in enumerate(e.b):
                                if APE.vstr(v) == pn and (e.a, j) in must:
                                    ok = True
                    # stores through a local alias of the parameter (struct data_block *b = block)
                    if not ok:
                        aliases = set(e.a for e in p.events if e.kind == "store" and e.a.isidentifier() and e.b is not None and APE.vstr(e.b) == pn)
                        ok = any(e.kind == "store" and strip_ver(e.a) in ("%s->crc" % a for a in aliases) for e in p.events)
                    some = some or ok
                    if not ok:
                        allp = False
                if allp and some:
                    must.add((g.name, k))
                    changed = True
    # --- functions that read crc of a parameter (directly or by passing it on)
    readers = set()
    for g in funcs:
        for k, prm in enumerate(g.params):
            if not is_block_ptr(prm):
                continue
            pn = prm["name"]
            for n in walk(g.body):
                if n["k"] == "MemberExpr" and n.get("field") == "crc" and n.get("rec") == REC:
                    par = g.nodes.get(g.parent.get(n["id"]))
                    store = par is not None and MR.is_store(par) and strip(par["kids"][0]) is n
                    if not store and canon(strip(n["kids"][0])) == pn:
                        readers.add((g.name, k))
    changed = True
    while changed:
        changed = False
        for g in funcs:
            for k, prm in enumerate(g.params):
                if (g.name, k) in readers or not is_block_ptr(prm):
                    continue
                pn = prm["name"]
                for c in [n for n in walk(g.body) if n["k"] == "CallExpr"]:
                    for j, a in enumerate(call_args(c)):
                        b = base_decl(a)
                        if (c.get("callee"), j) in readers and b and b[0] == "param" and b[1] == k:
                            readers.add((g.name, k))
                            changed = True
    if not readers:
        raise BrokenAnalysis("no function reads the crc field of a block record: the writer's framing moved")
    res.tables["crc_must_define"] = sorted("%s#%d" % x for x in must)
    res.tables["crc_readers"] = sorted("%s#%d" % x for x in readers)
    # --- call sites that start a block's journey to a reader
    nsite = 0
    for g in funcs:
        for p in P(g):
            evs = p.events
            for i, e in enumerate(evs):
                if e.kind != "call":
                    continue
                for j, v in enumerate(e.b):
                    if (e.a, j) not in readers:
                        continue
                    vs = APE.vstr(v)
                    if any(vs == prm["name"] and (g.name, k) in readers for k, prm in enumerate(g.params)):
                        continue    # passing its own parameter on: the obligation lies with g's callers
                    nsite += 1
                    obj = vs[1:] if vs.startswith("&") else vs
                    names = ("%s.crc" % obj, "%s->crc" % obj)
                    ok = False
                    for x in evs[:i]:
                        if x.kind == "store" and strip_ver(x.a) in names:
                            ok = True
                        elif x.kind == "call" and any(APE.vstr(a) == vs and (x.a, jj) in must for jj, a in enumerate(x.b)):
                            ok = True
                    res.check(ok, "C09.R2", site(g, "crc-defined-before:%s(%s)" % (e.a, strip_ver(vs))),
                              "the block handed to %s has its checksum stored on this path" % e.a,
                              "a block reaches %s with its crc field never assigned on this path: the four checksum bytes written to the file are "
                              "whatever the record held (stack or heap garbage), so an intact file fails verification" % e.a,
                              g.loc(e.node), p.describe(g))
    # --- pool route: the work function given to the pool must define crc of what it returns
    for g in funcs:
        for c in g.calls("threadpool_dispatch"):
            a = call_args(c)
            fn = strip(a[3]) if len(a) > 3 else None
            name = fn.get("name") if fn is not None and fn["k"] == "DeclRefExpr" else None
            if name is None:
                continue
            nsite += 1
            res.check((name, 0) in must, "C09.R2", site(g, "crc-defined-by-worker:%s" % name),
                      "the pool's work function stores the checksum of every block it returns",
                      "the pool's work function %s returns a block on some path without having stored its checksum: the result callback writes "
                      "garbage checksum bytes for those blocks" % name, g.loc(c))
    if nsite < 2:
        raise BrokenAnalysis("checksum definite-assignment rule found %d block hand-over sites, expected at least 3" % nsite)
