"""C18 - destroying all objects releases every descriptor, mapping, temp file, allocation.

R1 path ownership (T-own): in every library function a value returned by an acquiring call is,
   on every path to every normal exit, released by a releaser, returned, stored into a field /
   out-parameter / container element, or passed to a consuming parameter.  A failed acquisition
   (fd < 0, == NULL, == MAP_FAILED edge) holds nothing.  NORETURN exits are exempt.
R2 release completeness, path-wise: at every free() of a pointer to a record with owning fields
   each owning field has been released or transferred earlier on that path, or was never
   assigned on it (fresh object).
R4 reader: munmap with the mapped length.
R5 a parameter that a function takes over (stores into an object, releases or hands to another
   taking parameter) is taken over on every normal path, unless the path established it is NULL:
   callers treat the hand-over as unconditional.
(R3 teardown order is decided with C13.R3.)
R6 container contract (rules/vecrule.py): libmy/vector.h keeps its invariants, element preservation, post-conditions and memory safety in every scenario (init/detach/destroy of the vectors are the allocation primitives under most owning fields).
R7 transient marks: an entry my_fileset_reload marks as re-used does not itself stay in the fileset with the mark set (else a later reload skips its release).
"""
import re
from .common import *

EXPLANATION = ("static ownership dataflow over the abstract paths of every library function (acquire -> release | transfer on each "
               "path to each normal exit, per T-own) and path-wise release completeness of owning fields at every free of a record; "
               "see DESIGN 3 C18")
DESIGN_REF = "DESIGN.md section 3, C18"


def tables(ctx):
    T = ctx.spec("t_own")
    acquire = {}
    for kind, fns in T["acquire"].items():
        for fn in fns:
            fn = fn.split()[0]
            if fn != "pthread_create":
                acquire[fn] = kind
    release = {}
    by_addr = set()
    for r in T["release"]:
        for fn in r["fn"]:
            release[fn] = r["of"]
            if r.get("by_address"):
                by_addr.add(fn)
    consume = {}
    via_addr = set()
    for r in T["consume"]:
        if "fn" in r:
            for fn in ([r["fn"]] if isinstance(r["fn"], str) else r["fn"]):
                consume.setdefault(fn, set()).add(r["param"] - 1)
                if r.get("via_address"):
                    via_addr.add(fn)
    return acquire, release, by_addr, consume, via_addr


# owning fields that do not receive an acquire result directly (ownership moves in), with the reason
EXTRA_OWNING = {
    ("entry_batch", "entries"): "moved from mtbl_sorter.vec in _mtbl_sorter_get_entry_batch (the sorter gets a fresh vector)",
}
# fields whose release is legitimately not on the freeing path, each verified structurally below
FIELD_EXCEPTIONS = {
    ("result_handler", "rq"): "released by the result thread (result_worker: resultq_destroy(&rh->rq)) which is joined before the free",
    ("mtbl_fileset", "shared_fs"): "reference counted: released iff the count drops to zero",
    ("mtbl_writer", "fd"): "closed-flag path: `closed` is only set by _mtbl_writer_finish, which only mtbl_writer_destroy calls",
    ("mtbl_writer", "rhandler"): "released by _mtbl_writer_finish (result_handler_destroy(&w->rhandler)), same closed-flag argument",
}


def failed_acquire(p, sym, kind):
    c0 = p.cons.get((sym, "#0"))
    if kind == "descriptor":
        return c0 is not None and c0 <= frozenset((LT,))
    if kind == "mapping":
        c = p.cons.get((sym, "#-1"))
        return c == frozenset((EQ,))
    return c0 == frozenset((EQ,))


def run(ctx, res):
    prog, cg = ctx.prog, ctx.cg
    acquire, release, by_addr, consume, via_addr = tables(ctx)
    res.floor("C18.R1", 60)
    res.floor("C18.R2", 15)
    # ---- owning fields ---------------------------------------------------------
    owning = {}
    for f in prog.lib_funcs():
        for n, lhs in field_stores(f):
            if n["k"] == "BinaryOperator" and n.get("op") == "=" and is_call(n["kids"][1], set(acquire)):
                owning.setdefault((lhs.get("rec"), lhs["field"]), acquire[strip(n["kids"][1])["callee"]])
    for k, why in EXTRA_OWNING.items():
        owning.setdefault(k, "vector")
    res.tables["owning_fields"] = sorted("%s.%s" % k for k in owning)

    # parameters a function stores into an object (directly or through another such parameter): it takes ownership
    inferred = {}
    changed = True
    while changed:
        changed = False
        for g in prog.lib_funcs():
            for n in walk(g.body):
                tgt = None
                if n["k"] == "BinaryOperator" and n.get("op") == "=" and MR.through_pointer(n["kids"][0]):
                    r = strip(n["kids"][1])
                    if r["k"] == "DeclRefExpr" and r.get("dk") == "param":
                        tgt = r["idx"]
                elif n["k"] == "CallExpr" and n.get("callee"):
                    for i, a in enumerate(n["kids"][1:]):
                        a = strip(a)
                        if a["k"] == "DeclRefExpr" and a.get("dk") == "param" and \
                                (i in consume.get(n["callee"], ()) or i in inferred.get(n["callee"], ())):
                            tgt = a["idx"]
                if tgt is not None and tgt not in inferred.setdefault(g.name, set()):
                    inferred[g.name].add(tgt)
                    changed = True
    for fn, idxs in inferred.items():
        consume.setdefault(fn, set()).update(idxs)
    res.tables["inferred_consuming_params"] = {k: sorted(v) for k, v in sorted(inferred.items()) if v}

    funcs = prog.lib_funcs()
    nfun = 0
    for f in funcs:
        if not any(n["k"] == "CallExpr" and (n.get("callee") in acquire or n.get("callee") in ("free",)) for n in walk(f.body)):
            continue
        nfun += 1
        res.saw(f)
        ev = None
        for bnd in range(APE.BOUND, 0, -1):
            try:
                ev = APE.run(prog, cg, f, bound=bnd, opaque_calls=set(acquire), max_paths=40000)
                if bnd != APE.BOUND:
                    res.notes.append("%s analysed with loop bound %d (path budget)" % (f.name, bnd))
                break
            except BrokenAnalysis:
                continue
        if ev is None:
            raise BrokenAnalysis("path budget exceeded in %s even with loop bound 1: ownership cannot be decided there" % f.name)
        leaks = {}
        oks = set()
        r2bad = {}
        r2ok = set()
        for p in ev.paths:
            if p.end != "exit":
                continue
            _own_path(f, p, acquire, release, by_addr, consume, via_addr, leaks, oks)
            _r2_path(prog, f, p, owning, acquire, release, by_addr, r2bad, r2ok)
        for key in sorted(oks - set(leaks)):
            res.ok("C18.R1", site(f, key), "released, returned, stored or consumed on every normal path")
        for key, (p, what, node) in leaks.items():
            res.bad("C18.R1", site(f, key), what, f.loc(node), p.describe(f))
        for key in sorted(r2ok - set(r2bad)):
            res.ok("C18.R2", site(f, key), "every owning field released or transferred before the record is freed")
        for key, (p, what, node) in r2bad.items():
            res.bad("C18.R2", site(f, key), what, f.loc(node), p.describe(f))
    res.tables["functions_with_acquires"] = nfun

    # ---- R5 a parameter that is taken over is taken over on every path ------------------
    res.floor("C18.R5", 3)
    byname = {}
    for g in prog.lib_funcs():
        byname.setdefault(g.name, g)
    for fn in sorted(inferred):
        g = byname.get(fn)
        if g is None:
            continue
        for idx in sorted(inferred[fn]):
            if idx >= len(g.params) or (fn, idx) not in HANDOVERS:
                continue   # only parameters through which some caller demonstrably hands over an acquired object
            prm = g.params[idx]
            if not (prm.get("ct") or prm["t"]).rstrip().endswith("*"):
                continue
            pname = prm["name"]
            try:
                evg = APE.run(prog, cg, g, bound=1, max_paths=20000)
            except BrokenAnalysis:
                continue
            dropped = None
            took = 0
            for p in evg.paths:
                if p.end != "exit":
                    continue
                consumed = False
                locs = {}
                holders = []      # values of the objects the parameter was stored into
                for e in p.events:
                    if e.kind == "store" and e.a.isidentifier():
                        locs[e.a] = APE.vstr(e.b) if e.b is not None else None
                    if e.kind == "store" and not e.a.isidentifier() and e.b is not None and \
                            (APE.vstr(e.b) == pname or (e.b[0] == "s" and APE.split_off(e.b)[0] == pname)):
                        m = re.match(r"^\(?\*?([A-Za-z_]\w*)", e.a)
                        base = m.group(1) if m else None
                        holders.append(locs.get(base, base))
                    elif e.kind == "call":
                        for i, v in enumerate(e.b):
                            if APE.vstr(v) == pname and (e.a in release or i in consume.get(e.a, ()) or e.a.startswith("(*")):
                                consumed = True
                            # the object that held the parameter is itself thrown away: that was no hand-over
                            if e.a in ("free",) and APE.vstr(v) in holders:
                                holders = [h for h in holders if h != APE.vstr(v)]
                    elif e.kind == "ret" and e.a is not None and APE.vstr(e.a) == pname:
                        consumed = True
                if holders:
                    consumed = True
                isnull = any(a == pname and b == "#0" and v <= frozenset((EQ,)) for (a, b), v in p.cons.items())
                if consumed:
                    took += 1
                elif not isnull and dropped is None:
                    dropped = p
            if took == 0:
                continue
            res.check(dropped is None, "C18.R5", site(g, "takes:%s" % pname),
                      "parameter %s is stored, released or handed on on every normal path (%d)" % (pname, took),
                      "%s takes over %s on some paths but drops it on another: callers hand it over for good, so the object leaks there" % (fn, pname),
                      g.loc(g.body), dropped.describe(g) if dropped is not None else None)

    # ---- R7 transient marks in the setfile reload ---------------------------------------------------
    # my_fileset_reload marks the old entries it re-uses so that the clean-up pass does not unload them.  The mark is
    # only sound while it cannot survive the call: an entry that stays in the fileset with the mark set is skipped by
    # the clean-up of a later reload that should have released it.
    res.floor("C18.R7", 1)
    mr = prog.need("my_fileset_reload", "libmy/my_fileset.c")
    res.saw(mr)
    marks = [(n, lhs) for n, lhs in field_stores(mr) if lhs.get("rec") == "fileset_entry" and n["k"] == "BinaryOperator" and n.get("op") == "="
             and const_val(n["kids"][1]) not in (None, 0)]
    clears = [(n, lhs) for n, lhs in field_stores(mr) if lhs.get("rec") == "fileset_entry" and n["k"] == "BinaryOperator" and n.get("op") == "="
              and const_val(n["kids"][1]) == 0]
    survivors_vec = set()
    for n, lhs in field_stores(mr, "my_fileset", "entries"):
        r = strip(n["kids"][1])
        if r["k"] == "DeclRefExpr":
            survivors_vec.add(r["name"])
    if not survivors_vec:
        raise BrokenAnalysis("my_fileset_reload no longer installs a new entry vector")
    added = [canon(strip(call_args(c)[1])).strip("()") for c in mr.calls("entry_vec_add")
             if strip(call_args(c)[0])["k"] == "DeclRefExpr" and strip(call_args(c)[0])["name"] in survivors_vec]
    if not marks:
        res.ok("C18.R7", site(mr, "marks"), "the reload sets no mark on entries")
    for n, lhs in marks:
        obj = canon(lhs["kids"][0]).strip("()")
        survives = obj in added
        cleared = any(c_lhs["field"] == lhs["field"] for _c, c_lhs in clears)
        res.check(not survives or cleared, "C18.R7", site(mr, "mark:%s" % lhs["field"]),
                  "the entry marked `%s` does not stay in the fileset (a fresh record replaces it)%s" % (lhs["field"], "" if not survives else ", or the mark is cleared again"),
                  "the entry marked `%s` is itself carried over into the new entry vector and the mark is never cleared: when a later reload drops that "
                  "file, the clean-up pass skips it - its reader, mapping and name are never released" % lhs["field"], mr.loc(n))

    # ---- verified exceptions -----------------------------------------------------
    rw = prog.need("result_worker", "mtbl/threadpool.c")
    okx = any(canon(call_args(c)[0]) == "&rh->rq" for c in rw.calls("resultq_destroy"))
    rhd = prog.need("result_handler_destroy", "mtbl/threadpool.c")
    evp = APE.run(prog, cg, rhd, bound=APE.BOUND)
    for p in evp.paths:
        names = [e.a for e in p.events if e.kind == "call"]
        if "free" in names:
            okx = okx and "pthread_join" in names and names.index("pthread_join") < names.index("free")
    res.check(okx, "C18.R2", "result_handler.rq:released-by-joined-thread", FIELD_EXCEPTIONS[("result_handler", "rq")],
              "the result queue is no longer released by the result thread before the handler is freed")
    fd_ = prog.need("mtbl_fileset_destroy", "mtbl/fileset.c")
    evp = APE.run(prog, cg, fd_, bound=APE.BOUND)
    okr = False
    for p in evp.paths:
        if p.end != "exit":
            continue
        names = [e.a for e in p.events if e.kind == "call"]
        dec = [e for e in p.events if e.kind == "store" and e.a.endswith("->n_fs")]
        zero = [v for (a, b), v in p.cons.items() if "n_fs" in a and b == "#0"]
        if "my_fileset_destroy" in names:
            okr = bool(dec) and bool(zero) and all(GT not in v for v in zero)
            if not okr:
                break
    res.check(okr, "C18.R2", "mtbl_fileset.shared_fs:refcount", FIELD_EXCEPTIONS[("mtbl_fileset", "shared_fs")],
              "shared fileset state is not released exactly when the reference count reaches zero")
    wu = "mtbl/writer.c"
    setters = [g.name for g in prog.unit_funcs(wu) for n, lhs in field_stores(g, "mtbl_writer", "closed")
               if const_val(n["kids"][1]) not in (0, None) or const_val(n["kids"][1]) is None]
    callers = set(g.name for g in prog.unit_funcs(wu) for c in g.calls(set(setters)))
    fin = prog.need("_mtbl_writer_finish", wu)
    rel = any(canon(call_args(c)[0]) == "&w->rhandler" for c in fin.calls("result_handler_destroy"))
    res.check(set(setters) == {"_mtbl_writer_finish"} and callers == {"mtbl_writer_destroy"} and rel, "C18.R2", "mtbl_writer.closed:dead-flag",
              FIELD_EXCEPTIONS[("mtbl_writer", "fd")],
              "`closed` is now set by %s (callers %s): the already-closed path of mtbl_writer_destroy would skip close(fd)" % (setters, sorted(callers)))

    # ---- R4 munmap length -----------------------------------------------------------
    res.floor("C18.R4", 1)
    rd = prog.need("mtbl_reader_destroy", "mtbl/reader.c")
    ri = prog.need("mtbl_reader_init_fd", "mtbl/reader.c")
    mm = ri.calls("mmap")
    mu = rd.calls("munmap")
    good = len(mm) == 1 and len(mu) == 1 and member_chain(call_args(mm[0])[1])[-1:] == member_chain(call_args(mu[0])[1])[-1:] == ["len_data"] \
        and member_chain(call_args(mu[0])[0])[-1:] == ["data"]
    res.check(good, "C18.R4", "mtbl_reader:munmap", "munmap(data, len_data) with the length that was mapped",
              "munmap is not called with the mapped pointer and length", rd.loc(mu[0]) if mu else rd.loc(rd.body))


    # ---- container contract ---------------------------------------------------------------------
    from . import vecrule
    vecrule.check(ctx, res, "C18.R6")

HANDOVERS = set()   # (callee, parameter index) through which an acquired object was handed over on some analysed path


def _own_path(f, p, acquire, release, by_addr, consume, via_addr, leaks, oks):
    evs = [e for e in p.events if e.kind != "branch"]
    owned = {}     # symbol -> (kind, acquire event)
    locs = {}      # local name -> symbol
    for e in evs:
        if e.kind == "call":
            args = call_args(e.node)
            # releases / consumes first (arguments are evaluated before the call returns)
            for i, v in enumerate(e.b):
                vs = APE.vstr(v)
                tgt = None
                if vs in owned:
                    tgt = vs
                elif vs.startswith("&") and vs[1:] in locs and locs[vs[1:]] in owned:
                    tgt = locs[vs[1:]]
                    if not (e.a in by_addr or e.a in via_addr or e.a in release):
                        # address of the owning local handed to some function: assume it may release or keep it
                        if e.a not in ("mtbl_iter_next", "block_iter_get", "my_fileset_get"):
                            owned.pop(tgt, None)
                        continue
                else:
                    # derived pointers (base + offset)
                    b0 = APE.split_off(v)[0] if v[0] == "s" else None
                    if b0 in owned and e.a in release:
                        tgt = b0
                if tgt is None:
                    continue
                if e.a in release:
                    owned.pop(tgt, None)
                elif i in consume.get(e.a, ()):
                    owned.pop(tgt, None)
                    HANDOVERS.add((e.a, i))
                elif e.a.startswith("(*"):
                    # indirect call (registered free function / user callback): ownership passes
                    owned.pop(tgt, None)
            if e.a in acquire:
                sym = APE.vstr(e.c)
                owned[sym] = (acquire[e.a], e)
        elif e.kind == "store":
            vs = APE.vstr(e.b)
            if e.a.isidentifier():
                locs[e.a] = vs
            else:
                # stored into a field, out-parameter or element: the enclosing object owns it now
                base = APE.split_off(e.b)[0] if e.b[0] == "s" else None
                if vs in owned:
                    owned.pop(vs)
                elif base in owned:
                    owned.pop(base)
        elif e.kind == "ret":
            if e.a is not None:
                vs = APE.vstr(e.a)
                owned.pop(vs, None)
                b0 = APE.split_off(e.a)[0] if e.a[0] == "s" else None
                owned.pop(b0, None)
    seen_acq = [e for e in evs if e.kind == "call" and e.a in acquire]
    for e in seen_acq:
        sym = APE.vstr(e.c)
        key = "%s->%s" % (e.a, _holder(evs, e))
        if sym in owned:
            kind = owned[sym][0]
            if failed_acquire(p, sym, kind):
                oks.add(key)
                continue
            if key not in leaks:
                leaks[key] = (p, "%s acquired by %s is neither released, returned, stored nor handed over on a path to a normal exit "
                              "(it leaks once per call)" % (kind, e.a), e.node)
        else:
            oks.add(key)


def _holder(evs, acq):
    i = evs.index(acq)
    for e in evs[i + 1:i + 3]:
        if e.kind == "store" and e.b == acq.c:
            return re.sub(r"@\d+|#\d+", "", e.a)
    return "?"


def _r2_path(prog, f, p, owning, acquire, release, by_addr, bad, oks):
    evs = [e for e in p.events if e.kind != "branch"]
    for i, e in enumerate(evs):
        if e.kind != "call" or e.a != "free":
            continue
        arg = strip(call_args(e.node)[0])
        t = arg.get("t", "")
        m = re.match(r"^(?:const )?struct (\w+) \*$", t)
        if not m:
            continue
        rec = m.group(1)
        flds = [k for k in owning if k[0] == rec]
        if not flds:
            continue
        obj = canon(arg)
        before = evs[:i]
        # every name of the freed object on this path: its spelling at the free, the value freed, and locals holding it
        names = {obj}
        if e.b and e.b[0][0] == "s":
            names.add(strip_tags(APE.vstr(e.b[0])))
        grew = True
        while grew:
            grew = False
            for x in before:
                if x.kind == "store" and x.a.isidentifier() and x.a not in names and x.b[0] == "s" and strip_tags(APE.vstr(x.b)) in names:
                    names.add(x.a)
                    grew = True
        fresh = any(x.kind == "store" and x.a in names and x.a.isidentifier() and APE.vstr(x.b).startswith(("my_calloc(", "calloc(", "my_malloc("))
                    for x in before)
        for (_r, fld) in flds:
            key = "free(%s):%s.%s" % (obj, rec, fld)
            if (rec, fld) in FIELD_EXCEPTIONS:
                continue
            ref = "%s->%s" % (obj, fld)
            refs = set("%s->%s" % (nm, fld) for nm in names)
            arefs = set("&" + r_ for r_ in refs)
            handled = False
            assigned = False
            for x in before:
                if x.kind == "call":
                    spelled = [canon(a) for a in call_args(x.node)] + [strip_tags(APE.vstr(v)) for v in x.b if v[0] == "s"]
                    for ca in spelled:
                        if ca in refs or ca in arefs:
                            if x.a in release or x.a.startswith("(*") or x.a in ("munmap",):
                                handled = True
                elif x.kind == "store":
                    if re.sub(r"@\d+", "", x.a) in refs:
                        vs = APE.vstr(x.b)
                        assigned = True
                        if x.b == ("c", 0) or p.cons.get((vs, "#0")) == frozenset((EQ,)):
                            assigned = False     # NULL stored (a constant, or a result this path has established to be NULL)
                        # failed acquisition stored
                        for kfn, kind in acquire.items():
                            if vs.startswith(kfn + "(") and failed_acquire(p, vs, kind):
                                assigned = False
                    elif APE.vstr(x.b).split("@")[0] in refs and not x.a.isidentifier():
                        handled = True   # moved into another object
                elif x.kind == "ret":
                    pass
            if handled or (fresh and not assigned):
                oks.add(key)
            else:
                bad.setdefault(key, (p, "record %s is freed while its owning field `%s` (%s) has not been released or handed over on this path"
                                     % (rec, fld, owning[(rec, fld)]), e.node))
