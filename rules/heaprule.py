"""Heap discipline (shared rule: C04.R10, C05.R5): the merger's k-way order is whatever libmy/heap.c keeps.

Decided by abstract interpretation in the order domain of mtblcheck/order.py: the heap only ever *compares*
its elements, so for n elements its behaviour is a function of their ordering.  For every n in 0..N and every
ordering the comparison callback can reveal (the trace splits three ways at each call it cannot predict and
keeps a path-consistent constraint network), the operation must leave
  * the same multiset of elements (plus / minus the one added / removed),
  * an array in which every parent is known to be <= its children (the network implies it),
and heap_pop / heap_replace / heap_peek must return an element known to be <= all others (NULL on an empty heap).
heap_heapify starts from an arbitrary array; the others from an array already known to be a heap.
No element value is ever chosen.
"""
from .common import *
from mtblcheck import order as O
from mtblcheck import bits as B

U = "libmy/heap.c"


def _ids(arr):
    out = []
    for a in arr:
        if not (isinstance(a, B.Ptr) and isinstance(a.base, tuple) and a.base and a.base[0] == "E"):
            return None
        out.append(a.base[1])
    return out


def _heap_ok(net, ids):
    for i in range(1, len(ids)):
        if not net.le(ids[(i - 1) // 2], ids[i]):
            return i
    return None


def check(ctx, res, rule):
    prog = ctx.prog
    N = 6 if ctx.tier == "thorough" else 5
    rec = prog.record("heap")
    if rec is None:
        raise BrokenAnalysis("struct heap not found")
    vf = [f for f in rec["fields"] if "__vector" in (f.get("ct") or "") or f["name"] == "vec"]
    cf = [f for f in rec["fields"] if "(*)" in (f.get("ct") or f.get("t") or "")]
    if len(vf) != 1 or len(cf) != 1:
        raise BrokenAnalysis("struct heap no longer has one vector and one comparison pointer")
    import re
    m = re.match(r"^struct (\w+?)__vector \*$", vf[0].get("ct") or "")
    vp = m.group(1) if m else "ptrvec"
    cmpf = cf[0]["name"]
    vfield = vf[0]["name"]
    ops = [("heap_heapify", False, 0, None), ("heap_push", True, +1, None), ("heap_pop", True, -1, "min"),
           ("heap_replace", True, 0, "min"), ("heap_peek", True, 0, "min")]
    res.floor(rule, 5 * (N + 1) - 4)
    total_traces = 0
    total_cmps = 0
    for name, pre, delta, retkind in ops:
        f = prog.need(name, U)
        res.saw(f)
        for n in range(0, N + 1):
            I = O.OrderInterp(prog, U, vp, cmpf)
            extra = ()
            new_id = None
            if len(f.params) == 2:
                new_id = n
                extra = (O.elem(n),)
            try:
                out, vb = I.run_heap_named(f, n, pre, extra, vfield) if hasattr(I, "run_heap_named") else I.run_heap(f, n, pre, extra)
            except BrokenAnalysis:
                raise
            total_traces += len(out)
            total_cmps += I.ncmp
            problems = []
            witness = None
            for s, ret, err in out:
                if err:
                    problems.append(err)
                    continue
                arr = s.ext["vecs"].v[vb]
                ids = _ids(arr)
                net = s.ext["net"]
                if ids is None:
                    problems.append("the array holds something that is not one of the elements")
                    continue
                before = list(range(n))
                want = sorted(before + ([new_id] if new_id is not None and (name == "heap_push" or (name == "heap_replace" and n > 0)) else []))
                rid = None
                if retkind == "min":
                    if n == 0:
                        if not (isinstance(ret, B.Ptr) and ret.base is None) and not (isinstance(ret, B.BV) and ret.is_const() and ret.value() == 0):
                            problems.append("returns %r on an empty heap, not NULL" % (ret,))
                    else:
                        r = _ids([ret]) if isinstance(ret, B.Ptr) else None
                        if not r:
                            problems.append("returns %r, not an element" % (ret,))
                        else:
                            rid = r[0]
                            notmin = [x for x in before if not net.le(rid, x)]
                            if notmin:
                                problems.append("returns E%d although E%d may be smaller (%s)" % (rid, notmin[0], "; ".join(s.branches[-5:])))
                                witness = witness or s
                    if name in ("heap_pop", "heap_replace") and rid is not None:
                        want = sorted(set(want) - {rid}) if want.count(rid) == 1 else want
                if sorted(ids) != want:
                    problems.append("array holds elements %s, expected %s" % (sorted(ids), want))
                    continue
                v = _heap_ok(net, ids)
                if v is not None:
                    problems.append("after the call element at index %d (E%d) is not known to be >= its parent E%d for the ordering %s"
                                    % (v, ids[v], ids[(v - 1) // 2], "; ".join(s.branches[-6:]) or "(none compared)"))
            res.check(not problems, rule, site(f, "n=%d" % n),
                      "%d trace(s): same elements, every parent <= its children%s" % (len(out), ", returns a minimum" if retkind else ""),
                      "%s on %d element(s): %s" % (name, n, problems[0] if problems else ""), f.loc(f.body))
    res.tables.setdefault("heap_rule", {})[rule] = {"max_elements": N, "traces": total_traces, "comparison_sites_evaluated": total_cmps}
