"""C10 - trailer statistics equal the truth about the file.

R1 field order agreement (complete for this clause): metadata_write emit sequence =
   metadata_read parse sequence = accessors = mtbl_info labels = T-meta.
R2 counter sites: each counter is updated exactly once per accepted entry / written block
   with the right operand, never on a refusal path; offsets/sizes of the index block stored
   after the join; option-derived fields stored at init; no other function stores to the
   writer's trailer fields.
R3 width agreement (rules/widths.py): the nine trailer fields and the writer's offset cursor are
   declared 64 bits wide, and no value derived from them - through locals, parameters and function
   results, across the library and the tools - is converted to fewer than 64 bits.
"""
import re
from .common import *

EXPLANATION = ("static sibling-agreement and effect rules: the trailer field order extracted by abstract path "
               "evaluation from metadata_write and metadata_read, the accessor bodies and mtbl_info's printf sites are "
               "compared with the T-meta table; every store to a trailer counter is located (who-may-write) and its "
               "operand and multiplicity per path checked; see DESIGN 3 C10")
DESIGN_REF = "DESIGN.md section 3, C10"
COMPLETE = ("C10.R1 field order agreement across writer, reader, accessors and mtbl_info",)


def meta_fields(prog):
    r = prog.record("mtbl_metadata")
    if r is None:
        raise BrokenAnalysis("struct mtbl_metadata not found")
    return [f["name"] for f in r["fields"]]


def run(ctx, res):
    prog, cg = ctx.prog, ctx.cg
    T = ctx.spec("t_meta")
    rows = T["fields"]
    res.tables["T-meta"] = [(r["offset"], r["field"]) for r in rows]
    fields = meta_fields(prog)
    for r in rows:
        if r["field"] not in fields:
            raise BrokenAnalysis("trailer field %s vanished from struct mtbl_metadata" % r["field"])
    extra = [x for x in fields if x not in [r["field"] for r in rows] and x != T["not_in_trailer"]["field"]]
    for x in extra:
        res.bad("C10.R1", "mtbl_metadata:%s" % x, "struct mtbl_metadata has field %s that the format table does not know" % x)
    res.floor("C10.R1", 9 * 4)

    # ---- R1a writer -------------------------------------------------------
    mw = prog.need("metadata_write", "mtbl/metadata.c")
    res.saw(mw)
    ev = APE.run(prog, cg, mw, bound=APE.BOUND)
    paths = [p for p in ev.paths if p.end == "exit"]
    if len(paths) != 1:
        raise BrokenAnalysis("metadata_write: expected one straight path, got %d" % len(paths))
    p = paths[0]
    bufname = mw.params[1]["name"]
    got = {}
    zero = set()
    magic = None
    # the final image of the buffer: events in order, a later store replaces what an earlier one left at the same offsets
    def claim(off, n):
        for o in range(off, off + n):
            zero.discard(o)
        for o2 in [o2 for o2 in got if off <= o2 < off + n or o2 <= off < o2 + 8]:
            if o2 != off:
                del got[o2]
    for e in p.events:
        if e.kind == "call" and e.a == "mtbl_fixed_encode64":
            base, off = APE.split_off(e.b[0])
            # the field whose *value* is encoded (read directly, through a local, or out of a table of the fields)
            mv = re.match(r"^%s->(\w+)$" % re.escape(mw.params[0]["name"]), strip_tags(APE.vstr(e.b[1])))
            fld = mv.group(1) if mv and mv.group(1) in fields else strip_tags(APE.vstr(e.b[1]))
            if base != bufname:
                res.bad("C10.R1", site(mw, "encode64(%s)" % fld), "trailer field written relative to %s, not the output buffer" % base, mw.loc(e.node))
                continue
            if off in got:
                res.bad("C10.R1", site(mw, "encode64(%s)" % fld), "offset %d written twice (%s and %s)" % (off, got[off], fld), mw.loc(e.node))
            claim(off, 8)
            got[off] = fld
        elif e.kind == "call" and e.a == "mtbl_fixed_encode32":
            base, off = APE.split_off(e.b[0])
            magic = (base, off, e.b[1], e.node)
            if base == bufname:
                claim(off, 4)
        elif e.kind == "store" and e.a.startswith("*"):
            base, off = APE.split_off(("s", e.a[1:]))
            if base == bufname and e.b == ("c", 0):
                claim(off, 1)
                zero.add(off)
        elif e.kind == "call" and e.a in ("memset", "__builtin_memset") and len(e.b) == 3:
            base, off = APE.split_off(e.b[0])
            if base == bufname and e.b[1] == ("c", 0) and e.b[2][0] == "c":
                claim(off, e.b[2][1])
                if magic is not None and magic[0] == bufname and off <= magic[1] < off + e.b[2][1]:
                    magic = None     # zeroed after it was written
                zero.update(range(off, off + e.b[2][1]))
    for r in rows:
        res.check(got.get(r["offset"]) == r["field"], "C10.R1", site(mw, "offset%d" % r["offset"]),
                  "metadata_write puts %s at offset %d" % (r["field"], r["offset"]),
                  "metadata_write puts %s at offset %d, the format has %s there" % (got.get(r["offset"]), r["offset"], r["field"]),
                  mw.loc(mw.body))
    for off, fld in got.items():
        if off not in [r["offset"] for r in rows]:
            res.bad("C10.R1", site(mw, "offset%d" % off), "metadata_write emits %s at offset %d outside the format table" % (fld, off))
    end = 8 * len(rows)
    want_zero = set(range(end, T["magic"]["offset"]))
    res.check(zero == want_zero, "C10.R1", site(mw, "padding"), "zero padding covers exactly [%d,%d)" % (end, T["magic"]["offset"]),
              "zero padding covers %d bytes %s, expected [%d,%d)" % (len(zero), (min(zero), max(zero)) if zero else "-", end, T["magic"]["offset"]))
    res.check(magic is not None and magic[0] == bufname and magic[1] == T["magic"]["offset"] and
              magic[2] == ("c", int(T["magic"]["v2"], 16)), "C10.R1", site(mw, "magic"),
              "u32 magic %s at offset %d" % (T["magic"]["v2"], T["magic"]["offset"]),
              "magic written as %s" % (magic[:3] if magic else None,))

    # ---- R1b reader -----------------------------------------------------------
    mr = prog.need("metadata_read", "mtbl/metadata.c")
    res.saw(mr)
    ev = APE.run(prog, cg, mr, bound=APE.BOUND)
    fv = prog.enums.get("mtbl_file_version", {})
    ok_paths = 0
    versions = {}
    for p in ev.paths:
        if p.end != "exit":
            continue
        r = p.ret()
        stores = [e for e in p.events if e.kind == "store" and "->" in e.a]
        if r == ("c", 0):
            res.check(not [s for s in stores if s.a.split("->")[-1] in fields and s.a.split("->")[-1] != "file_version"],
                      "C10.R1", site(mr, "reject-path"), "rejecting path decodes nothing")
            continue
        ok_paths += 1
        bname = mr.params[0]["name"]
        seen = {}
        for s in stores:
            fld = s.a.split("->")[-1]
            m = re.match(r"^mtbl_fixed_decode64\((.*)\)(@\d+)?$", APE.vstr(s.b))
            if fld == "file_version":
                # which magic selects which version
                for (a, b), v in p.cons.items():
                    if v == frozenset((EQ,)) and b.startswith("#"):
                        versions[int(b[1:])] = s.b
                    elif b == "switch" and len(v) == 1 and re.match(r"^#?-?\d+$", str(list(v)[0])):
                        versions[int(str(list(v)[0]).lstrip("#"))] = s.b
                continue
            if not m:
                res.bad("C10.R1", site(mr, fld), "field %s is not filled from a 64-bit little-endian decode (%s)" % (fld, APE.vstr(s.b)), mr.loc(s.node))
                continue
            base, off = APE.split_off(("s", m.group(1)))
            if base != bname:
                res.bad("C10.R1", site(mr, fld), "field %s decoded relative to %s" % (fld, base), mr.loc(s.node))
            seen[fld] = off
        for row in rows:
            res.check(seen.get(row["field"]) == row["offset"], "C10.R1", site(mr, row["field"]),
                      "metadata_read takes %s from offset %d" % (row["field"], row["offset"]),
                      "metadata_read takes %s from offset %s, the format has it at %d" % (row["field"], seen.get(row["field"]), row["offset"]),
                      mr.loc(mr.body))
    if ok_paths == 0:
        raise BrokenAnalysis("metadata_read has no accepting path")
    want = {int(T["magic"]["v1"], 16): ("c", fv.get("MTBL_FORMAT_V1")), int(T["magic"]["v2"], 16): ("c", fv.get("MTBL_FORMAT_V2"))}
    res.check(versions == want, "C10.R1", site(mr, "magic->version"), "v1 magic -> FORMAT_V1, v2 magic -> FORMAT_V2, anything else refused",
              "magic/version mapping is %s, expected %s" % (versions, want))

    # ---- R1c accessors ------------------------------------------------------------
    for row in rows + [T["not_in_trailer"]]:
        a = prog.func(row["accessor"], "mtbl/metadata.c")
        if a is None:
            raise BrokenAnalysis("accessor %s vanished" % row["accessor"])
        res.saw(a)
        rets = [n for n in walk(a.body) if n["k"] == "ReturnStmt"]
        good = len(rets) == 1 and kids(rets[0]) and strip(kids(rets[0])[0])["k"] == "MemberExpr" and \
            strip(kids(rets[0])[0])["field"] == row["field"] and base_decl(kids(rets[0])[0]) == ("param", 0, a.params[0]["name"])
        res.check(good, "C10.R1", site(a, "return"), "%s returns field %s" % (row["accessor"], row["field"]),
                  "%s returns %s" % (row["accessor"], canon(kids(rets[0])[0]) if rets and kids(rets[0]) else "?"), a.loc(a.body))

    # ---- R1d mtbl_info labels -----------------------------------------------------
    pi = prog.func("print_info", "src/mtbl_info.c")
    if pi is None:
        raise BrokenAnalysis("print_info not found in src/mtbl_info.c")
    res.saw(pi)
    var_src = {}
    for n in walk(pi.body):
        if n["k"] == "DeclStmt":
            for d in n["decls"]:
                if d.get("init") is not None and is_call(d["init"]):
                    var_src[d["name"]] = strip(d["init"]).get("callee")
    by_words = {frozenset(r["info_label_words"]): r for r in rows}
    labelled = set()
    for c in pi.calls("printf"):
        a = call_args(c)
        fmt = strip(a[0])
        if fmt["k"] != "StringLiteral" or len(a) < 2:
            continue
        label = fmt.get("str", "").split("%")[0]
        words = frozenset(w for w in re.split(r"[^a-z]+", label.lower()) if w)
        row = by_words.get(words)
        if row is None:
            continue
        v = strip(a[1])
        src = var_src.get(v.get("name")) if v["k"] == "DeclRefExpr" else (v.get("callee") if v["k"] == "CallExpr" else None)
        labelled.add(row["field"])
        res.check(src == row["accessor"], "C10.R1", site(pi, "label:" + " ".join(row["info_label_words"])),
                  "label '%s' prints the value read through %s" % (label.strip(), row["accessor"]),
                  "label '%s' prints a value obtained from %s, expected %s" % (label.strip(), src, row["accessor"]), pi.loc(c))
    # compression algorithm is printed through to_str(compression_algorithm)
    for c in pi.calls("mtbl_compression_type_to_str"):
        v = strip(call_args(c)[0])
        src = var_src.get(v.get("name"))
        labelled.add("compression_algorithm")
        res.check(src == "mtbl_metadata_compression_algorithm", "C10.R1", site(pi, "label:compression algorithm"),
                  "algorithm name derived from mtbl_metadata_compression_algorithm", "algorithm name derived from %s" % src, pi.loc(c))
    missing = [r["field"] for r in rows if r["field"] not in labelled]
    res.check(not missing, "C10.R1", site(pi, "labels"), "every trailer field is printed under its label",
              "mtbl_info no longer prints %s under a recognisable label" % missing)

    # ---- R2 counter sites ----------------------------------------------------------
    res.floor("C10.R2", 12)
    wu = "mtbl/writer.c"
    add = prog.need("mtbl_writer_add", wu)
    wdb = prog.need("_mtbl_writer_write_data_block", wu)
    fin = prog.need("_mtbl_writer_finish", wu)
    ini = prog.need("mtbl_writer_init_fd", wu)
    for g in (add, wdb, fin, ini):
        res.saw(g)
    mres = prog.enums["mtbl_res"]

    def stores_of(p, fld):
        return [e for e in p.events if e.kind == "store" and e.a.endswith("m." + fld)]

    def incr_ok(e, operand):
        # value must be (old + operand)
        s = APE.vstr(e.b)
        m = re.match(r"^\((.*m\.%s@\d+)\+(.*)\)$" % re.escape(e.a.split("m.")[-1]), s)
        return bool(m) and m.group(2) == operand

    ev = APE.run(prog, cg, add, bound=APE.BOUND)
    for p in ev.paths:
        if p.end != "exit":
            continue
        success = p.ret() == ("c", mres["mtbl_res_success"])
        tag = "success" if success else "refusal"
        for fld, operand in (("count_entries", "#1"), ("bytes_keys", add.params[2]["name"]), ("bytes_values", add.params[4]["name"])):
            st = stores_of(p, fld)
            if success:
                good = len(st) == 1 and incr_ok(st[0], operand)
                res.check(good, "C10.R2", site(add, "%s:%s" % (tag, fld)), "%s += %s exactly once per accepted entry" % (fld, operand),
                          "on an accepted add %s is updated %d time(s) with %s" % (fld, len(st), [APE.vstr(x.b) for x in st]),
                          add.loc(st[0].node) if st else add.loc(add.body), p.describe(add))
            else:
                res.check(not st, "C10.R2", site(add, "%s:%s" % (tag, fld)), "refused add leaves %s alone" % fld,
                          "refused add updates %s" % fld, add.loc(st[0].node) if st else None, p.describe(add))

    # per-block statistics, index block offset / size and the order of the finishing steps: decided on the bytes and stores
    # along the paths of the block-writing functions with their helpers evaluated in line (rules/framerule.py)
    from . import framerule
    framerule.counters(ctx, res, "C10.R2")

    ev = APE.run(prog, cg, ini, bound=APE.BOUND)
    want = {"data_block_size": r"opt\.block_size", "compression_algorithm": r"opt\.compression_type", "file_version": None}
    for p in ev.paths:
        if p.end != "exit":
            continue
        for fld, pat in want.items():
            st = stores_of(p, fld)
            if fld == "file_version":
                good = len(st) == 1 and st[0].b == ("c", prog.enums["mtbl_file_version"]["MTBL_FORMAT_V2"])
            else:
                # value identity: what is stored is what the writer's own option field holds at that point of the path -
                # the value last stored there on this path, or (options copied wholesale) a read of that field
                good = False
                if len(st) == 1:
                    evs_ = [e for e in p.events if e.kind == "store"]
                    i_ = evs_.index(st[0])
                    prev = [e for e in evs_[:i_] if re.search(r"(->|\.)%s$" % pat, strip_tags(e.a))]
                    own = st[0].a[:st[0].a.rindex("m." + fld)]          # "w->" : the object whose trailer is initialised
                    if prev:
                        good = st[0].b == prev[-1].b and strip_tags(prev[-1].a).startswith(own)
                    else:
                        good = strip_tags(APE.vstr(st[0].b)) == own + pat.replace("\\", "")
            res.check(good, "C10.R2", site(ini, fld), "%s stored once at init from the effective options" % fld,
                      "%s stored %d time(s) at init as %s" % (fld, len(st), [APE.vstr(x.b) for x in st]), ini.loc(ini.body))

    # who may write the writer's trailer fields
    allowed = {"count_entries": {add.name}, "bytes_keys": {add.name}, "bytes_values": {add.name},
               "count_data_blocks": {wdb.name}, "bytes_data_blocks": {wdb.name},
               "index_block_offset": {fin.name}, "bytes_index_block": {fin.name},
               "data_block_size": {ini.name}, "compression_algorithm": {ini.name}, "file_version": {ini.name}}
    for g in prog.unit_funcs(wu):
        for n, lhs in field_stores(g, "mtbl_metadata"):
            fld = lhs["field"]
            res.check(g.name in allowed.get(fld, ()), "C10.R2", "%s:stores:%s" % (g.name, fld),
                      "trailer field %s is stored only by %s" % (fld, sorted(allowed.get(fld, ()))),
                      "%s also updates trailer field %s" % (g.name, fld), g.loc(n))
    # nobody outside the writer (and the reader's metadata_read) stores trailer fields
    for g in prog.lib_funcs():
        if g.unit in (wu,) or g.name == "metadata_read":
            continue
        for n, lhs in field_stores(g, "mtbl_metadata"):
            res.bad("C10.R2", "%s:stores:%s" % (g.name, lhs["field"]), "%s stores trailer field %s" % (g.name, lhs["field"]), g.loc(n))

    # ---- R3 width agreement -------------------------------------------------------------------
    from . import widths
    res.floor("C10.R3", 12)
    widths.width_flow(ctx, res, "C10.R3", "C10")
    widths.selftest(ctx, "C10")
