"""C19 - opening arbitrary bytes as a table never reads outside the file.

R1 tainted extents need a dominating size guard: on every path of mtbl_reader_init_fd, each
   read of the mapping whose offset or length contains a quantity decoded from the file
   (trailer fields, fixed/varint decodes of mapped bytes) is preceded by a branch that compares
   an expression containing that quantity with an expression derived from the file size and
   continues on the in-bounds side.  The encoded length returned by the varint decoder is
   bounded by a constant, which is re-derived from the decoder's loop.
R2 block_init maps every inconsistent restart count to size 0; block_iter_init refuses
   size < 8 through a NORETURN edge.
R3 width agreement (rules/widths.py): the file length, the index block offset/length and the
   cached data block offset are 64 bits wide and are never converted to fewer bits on the way
   to a comparison or a pointer computation.
D  rests on: C17 C17.R2 (the checksum routine is handed (pointer, length) inside the mapping and must consume exactly that extent) - re-run here as <id>.D.<rule>.
"""
import re
from .common import *

EXPLANATION = ("static taint + dominating-guard rule over the abstract paths of the reader's open function: sources are values decoded "
               "from mapped bytes, sinks are the (pointer,length) pairs handed to readers of the mapping (T-extent), the obligation is a "
               "preceding comparison against a file-size-derived expression; plus decision tables of block_init/block_iter_init; "
               "presence and dominance of guards are decided, not the algebra of the inequality; see DESIGN 3 C19")
DESIGN_REF = "DESIGN.md section 3, C19"
U = "mtbl/reader.c"

READERS = {"metadata_read": None, "mtbl_fixed_decode32": None, "mtbl_fixed_decode64": None,
           "mtbl_varint_decode64": None, "mtbl_varint_decode32": None,
           "mtbl_crc32c": 1, "block_init": 1, "posix_madvise": 1, "madvise": 1}


def varint_bound(prog):
    """Maximum number of bytes each varint decoder touches, for every input: the largest offset any trace of the
    bit-provenance interpretation (mtblcheck/bits.py, as in C16.R3) reads from the input buffer, plus one.  Independent of how
    the decoder's loop is written."""
    from mtblcheck import bits as B
    out = {}
    for nm in ("mtbl_varint_decode64", "mtbl_varint_decode32"):
        g = prog.need(nm, "mtbl/varint.c")
        I = B.Interp(prog, g.unit)
        try:
            traces = I.run(g)
        except BrokenAnalysis as e:
            if "is undefined" in str(e):
                # some input drives the decoder into undefined behaviour (a shift by the width or more): it keeps consuming
                # bytes beyond what the value can hold
                out[nm] = -1
                out[nm + ":why"] = str(e)
                continue
            raise
        if not traces:
            raise BrokenAnalysis("%s: no trace" % nm)
        mx = 0
        for r in traces:
            for (base, off) in r.st.reads:
                if base == ("p", 0):
                    mx = max(mx, off + 1)
        out[nm] = mx
    return out


def run(ctx, res):
    prog, cg = ctx.prog, ctx.cg
    T = ctx.spec("t_extent")
    # ---- R3 width agreement: a truncated offset passes the size guard and addresses something else
    from . import widths
    res.floor("C19.R3", 4)
    widths.width_flow(ctx, res, "C19.R3", "C19")
    widths.selftest(ctx, "C19")
    vb = varint_bound(prog)
    want = {r["what"].split()[-1]: r["bound"] for r in T["bounded_not_tainted"]}
    res.check(vb.get("mtbl_varint_decode64") == 10 and vb.get("mtbl_varint_decode32") == 5, "C19.R1", "_varint_decode:bound",
              "encoded length bounded by %s bytes (largest offset read on any trace of the bit-provenance interpretation)" % vb,
              ("varint decoder may touch %s bytes, the extent table assumes 10 / 5" % {k: v for k, v in vb.items() if not k.endswith(":why")}) +
              ("".join("; %s" % v for k, v in vb.items() if k.endswith(":why"))))
    f = prog.need("mtbl_reader_init_fd", U)
    res.saw(f)
    ev = APE.run(prog, cg, f, bound=APE.BOUND)
    res.floor("C19.R1", 6)
    res.tables["C19.paths"] = len(ev.paths)
    madv = prog.func("reader_init_madvise", U)
    for p in ev.paths:
        evs = p.events
        S = M = None
        rname = None
        for e in evs:
            if e.kind == "store" and e.a.endswith("->len_data"):
                S = APE.vstr(e.b)
            if e.kind == "store" and e.a.endswith("->data") and APE.vstr(e.b).startswith("mmap("):
                M = APE.vstr(e.b)
                rname = e.a.split("->")[0]
        if M is None:
            continue
        taints = set()
        for e in evs:
            if e.kind == "call" and e.a in ("mtbl_fixed_decode32", "mtbl_fixed_decode64") and M in APE.vstr(e.b[0]):
                taints.add(APE.vstr(e.c))
            if e.kind == "call" and e.a in ("mtbl_varint_decode64", "mtbl_varint_decode32") and M in APE.vstr(e.b[0]):
                for sym in e.outs.values():
                    taints.add(APE.vstr(sym))
        guards = []   # (position, a, b, cons)
        for i, e in enumerate(evs):
            if e.kind == "branch" and isinstance(e.a, tuple) and e.a[1] != "switch":
                guards.append((i, e.a[0], e.a[1], e.b))
        for i, e in enumerate(evs):
            if e.kind != "call":
                continue
            uses = []
            if e.a in READERS and any(M in APE.vstr(x) for x in e.b):
                ptr = [APE.vstr(x) for x in e.b if M in APE.vstr(x)][0]
                ln = APE.vstr(e.b[READERS[e.a]]) if READERS[e.a] is not None else ""
                uses.append((e.a, ptr, ln))
            elif madv is not None and e.a == madv.name:
                for c in madv.calls(("posix_madvise", "madvise")):
                    a = call_args(c)
                    if canon(a[0]).endswith("->data"):
                        # length expression evaluated in the caller's state: r->m.FIELD
                        fld = canon(a[1]).split("->", 1)[-1]
                        cur = [x for x in [APE.vstr(v) for v in [p2.b for p2 in evs[:i] if p2.kind == "store"]] if False]
                        sym = None
                        for (ga, gb, *_r) in [(g[1], g[2]) for g in guards]:
                            pass
                        # value of r->FIELD at this point: find its latest symbolic name among guard atoms / stores
                        m = None
                        for g in guards:
                            mm = re.search(r"\b%s->%s@\d+" % (re.escape(rname), re.escape(fld)), g[1] + " " + g[2])
                            if mm:
                                m = mm.group(0)
                        uses.append((c["callee"] + "@" + madv.name, M, m or ("%s->%s@?" % (rname, fld))))
            elif any(M in APE.vstr(x) for x in e.b) and e.a not in ("munmap",):
                res.bad("C19.R1", site(f, "unknown-consumer:%s" % e.a), "a pointer into the mapping is handed to %s, whose extent is not in the table" % e.a,
                        f.loc(e.node))
            for callee, ptr, ln in uses:
                text = ptr + " " + ln
                comps = set(t for t in taints if t in text)
                comps |= set(re.findall(r"\b%s->m\.\w+@[\d?]+" % re.escape(rname), text))
                sig = site(f, "%s(%s)" % (callee, _short(ptr, ln, M, S)))
                missing = []
                wraps = []
                underflow = []
                for t in sorted(comps):
                    ok = False
                    wrapcand = False
                    wide = not t.startswith("mtbl_fixed_decode32(")
                    for gi, a, b, c in guards:
                        if gi > i:
                            break
                        side = None
                        if t in a and S is not None and S in b and GT not in c:
                            side = a
                        if t in b and S is not None and S in a and LT not in c:
                            side = b
                        if side is None:
                            continue
                        # the size side may be the file size minus constants: that subtraction must not wrap below zero,
                        # i.e. file size >= the subtracted constant has to be established as well
                        other = b if side == a else a
                        base_, off_ = None, 0
                        mm_ = re.match(r"^\(+%s((?:-#\d+\)?)+)(.*)$" % re.escape(S), other) if S else None
                        sub_ = sum(int(x) for x in re.findall(r"-#(\d+)", other)) if (S and other.startswith("(") and S in other) else 0
                        if sub_ > 0:
                            have_ = 0
                            for gj, ga, gb, gc in guards:
                                if gj > i:
                                    break
                                if ga == S and re.match(r"^#\d+$", gb) and LT not in gc:
                                    have_ = max(have_, int(gb[1:]))
                                if gb == S and GT not in gc:
                                    have_ = max(have_, sum(int(x) for x in re.findall(r"\+#(\d+)", ga)))
                            if have_ < sub_:
                                underflow.append("file size >= %d (only >= %d is established before %s is formed)" % (sub_, have_, _short(other, "", M, S)))
                                continue
                        if wide and side != t and "+" in side:
                            # a 64-bit file-derived quantity inside a sum: the sum may wrap; need sum >= one of its terms established too
                            wrap_ok = any(gj <= i and ((ga == side and gb in side and gb != side and LT not in gc) or
                                                       (gb == side and ga in side and ga != side and GT not in gc))
                                          for gj, ga, gb, gc in guards)
                            if not wrap_ok:
                                wrapcand = True
                                continue
                        ok = True
                    if not ok:
                        missing.append(_short(t, "", M, S))
                        if wrapcand:
                            wraps.append(_short(t, "", M, S))
                # the file size itself used as an offset (trailer): needs size >= constant
                if S is not None and S in ptr.replace(M, ""):
                    m = re.search(r"\(%s-#(\d+)\)" % re.escape(S), ptr)
                    if m:
                        k = "#" + m.group(1)
                        ok = any(gi < i and a == S and b == k and LT not in c for gi, a, b, c in guards)
                        if not ok:
                            missing.append("file size >= %s" % m.group(1))
                if underflow and missing:
                    res.bad("C19.R1", sig + ":underflow", "%s: the bound its extent is compared with subtracts from the file size without %s: for a shorter file the "
                            "subtraction wraps around and every value passes" % (callee, "; ".join(sorted(set(underflow)))), f.loc(e.node), p.describe(f))
                if wraps and missing:
                    res.bad("C19.R1", sig + ":wrap", "%s: the only comparison that relates %s to the file size adds it to other terms first; a 64-bit value read from "
                            "the file can make that sum wrap around and pass the test (no `sum >= term` check accompanies it)" % (callee, ", ".join(sorted(set(wraps)))),
                            f.loc(e.node), p.describe(f))
                    missing = [m_ for m_ in missing if m_ not in wraps]
                res.check(not missing, "C19.R1", sig,
                          "every file-derived component of the extent is compared with the file size before the read",
                          "%s reads the mapping at an extent that depends on %s, which no preceding comparison relates to the file size: "
                          "a damaged header makes the read run past the mapping" % (callee, ", ".join(missing)), f.loc(e.node), p.describe(f))

    # ---- R2 --------------------------------------------------------------------------
    # decided on bytes (rules/readrule.py): the real block reader is interpreted on byte strings that are not blocks
    from . import readrule
    readrule.malformed(ctx, res, "C19.R2")


    # ---- properties this one rests on (re-run here, labelled <this>.D.<rule>) ------------------
    depends(ctx, res, 'C17', ('C17.R2',), 'the checksum routine is handed (pointer, length) inside the mapping and must consume exactly that extent')

def _short(a, b, M, S):
    s = (a + ("," + b if b else ""))
    if M:
        s = s.replace(M, "MAP")
    if S:
        s = s.replace(S, "SIZE")
    s = re.sub(r"mtbl_varint_decode64\(\(MAP\+[^)]*\),&tmp\)#\d+", "HDRLEN", s)
    s = re.sub(r"[@#]\d+", "", s) if False else s
    return re.sub(r"@\d+|(?<=[\w)])#\d+", "", s)[:120]
