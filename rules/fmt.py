"""Emit / parse sequences of the block entry codec and block framing, shared by C01, C09, C11."""
import re
from .common import *

BB = "mtbl/block_builder.c"
BL = "mtbl/block.c"


def entry_emit_check(ctx, res, rule):
    """block_builder_add emits, on every path, exactly the entry row of T-format."""
    prog, cg = ctx.prog, ctx.cg
    f = prog.need("block_builder_add", BB)
    res.saw(f)
    inits = decl_inits(f)
    pn = [p["name"] for p in f.params]     # b, key, len_key, val, len_val
    # role of locals by definition
    nonshared = [n for n, v in inits.items() if canon(v) in ("(%s-shared)" % pn[2],)]
    # `shared` is the variable advanced by the common-prefix loop
    loops = [n for n in walk(f.body) if n["k"] == "WhileStmt"]
    okshare = False
    for L in loops:
        c = canon(L["cond"])
        if re.search(r"\(shared<\w+\)", c) and ("ubuf_value(b->last_key,shared)==%s[shared]" % pn[1]) in c.replace(" ", ""):
            body = [x for x in walk(L["body"]) if x["k"] == "UnaryOperator" and x.get("op") == "++" and canon(x["kids"][0]) == "shared"]
            okshare = len(body) == 1
    minlen = inits.get("min_length")
    okmin = minlen is not None and strip(minlen)["k"] == "ConditionalOperator"
    if okmin:
        c, t, e = [canon(x) for x in strip(minlen)["kids"]]
        okmin = {t, e} == {pn[2], "ubuf_size(b->last_key)"} and (
            (c == "(ubuf_size(b->last_key)>%s)" % pn[2] and t == pn[2]) or (c == "(ubuf_size(b->last_key)<%s)" % pn[2] and e == pn[2]) or
            (c == "(%s>ubuf_size(b->last_key))" % pn[2] and e == pn[2]) or (c == "(%s<ubuf_size(b->last_key))" % pn[2] and t == pn[2]))
    res.check(okshare and okmin and len(nonshared) == 1, rule, site(f, "shared-prefix"),
              "shared = length of the common prefix with the previous key (bounded by both lengths), non_shared = len_key - shared",
              "the shared-prefix computation is not the common prefix of previous key and key (loop ok: %s, bound ok: %s, non_shared: %s)" % (okshare, okmin, nonshared),
              f.loc(f.body))
    ns = nonshared[0] if nonshared else "non_shared"
    ev = APE.run(prog, cg, f, bound=APE.BOUND)
    n = 0
    for p in ev.paths:
        if p.end != "exit":
            continue
        n += 1
        seq = []
        evs = [e for e in p.events if e.kind == "call"]
        # single-byte header writes through a pointer taken from the write cursor: `hdr = ubuf_ptr(b->buf); hdr[i] = v`
        # are varint32 emits of v provided the path proves v < 128
        allv = [e for e in p.events if e.kind != "branch"]
        ptrs = {}
        bytes_ = []
        for e in allv:
            if e.kind == "store" and e.a.isidentifier() and APE.vstr(e.b).startswith("ubuf_ptr(b->buf"):
                ptrs[e.a] = True
            m_ = re.match(r"^(\w+)\[#(\d+)\]$", e.a) if e.kind == "store" else None
            if m_ and m_.group(1) in ptrs and e.node["k"] == "BinaryOperator":
                rhs = strip(e.node["kids"][1])
                rname = canon(rhs)
                # a literal below 128 is fine; a variable must be named in a `< 128` test on this path
                # (concrete values of loop counters are artefacts of bounded unrolling and prove nothing)
                small = rhs["k"] == "IntegerLiteral" and 0 <= rhs.get("val", 999) < 128
                if not small:
                    for key_, c_ in p.cons.items():
                        if key_[1] == "#128" and c_ <= frozenset((LT,)) and key_ in p.atoms:
                            lhsn = p.atoms[key_][0]
                            ops = [o for o in re.split(r"[|()*]+", canon(lhsn)) if o]
                            if rname in ops:
                                small = True
                bytes_.append((int(m_.group(2)), canon(e.node["kids"][1]), small, e))
        if bytes_:
            offs = [b_[0] for b_ in bytes_]
            adv3 = [e for e in evs if e.a == "ubuf_advance" and canon(call_args(e.node)[0]) == "b->buf" and e.b[1] == ("c", len(bytes_))]
            notsmall = [b_[1] for b_ in bytes_ if not b_[2]]
            res.check(not notsmall and offs == list(range(len(bytes_))) and len(adv3) >= 1, rule, site(f, "single-byte-header"),
                      "a header value written as one raw byte is proven < 128 on that path (a varint below 128 is its own byte)",
                      "header value(s) %s are written as a single raw byte although the path does not establish them to be < 128: larger values are truncated "
                      "and the entry decodes to a different key" % notsmall, f.loc(bytes_[0][3].node), p.describe(f))
            for o_, c_, sm_, e_ in bytes_:
                seq.append(("varint32", c_, None, "ubuf_ptr(b->buf)", True))
        for i, e in enumerate(evs):
            if e.a in ("mtbl_varint_encode32", "mtbl_varint_encode64", "mtbl_fixed_encode32", "mtbl_fixed_encode64", "memcpy"):
                a = call_args(e.node)
                dst = canon(a[0])
                adv = evs[i + 1] if i + 1 < len(evs) else None
                okadv = adv is not None and adv.a == "ubuf_advance" and canon(call_args(adv.node)[0]) == "b->buf" and \
                    (adv.b[1] == e.c or (e.a == "memcpy" and adv.b[1] == e.b[2]))
                if e.a == "memcpy":
                    seq.append(("bytes", canon(a[1]), canon(a[2]), dst, okadv))
                else:
                    seq.append((e.a.replace("mtbl_", "").replace("_encode", ""), canon(a[1]), None, dst, okadv))
        want = [("varint32", "shared"), ("varint32", ns), ("varint32", pn[4]), ("bytes", "(%s+shared)" % pn[1], ns), ("bytes", pn[3], pn[4])]
        got = [(s[0], s[1]) if s[0] != "bytes" else (s[0], s[1], s[2]) for s in seq]
        good = got == want and all(s[3] == "ubuf_ptr(b->buf)" and s[4] for s in seq)
        res.check(good, rule, site(f, "emit-sequence"),
                  "entry = varint32 shared, varint32 non_shared, varint32 value_len, key suffix from key+shared, value; cursor advanced by each written amount",
                  "entry is emitted as %s (each at the write cursor and advanced: %s); the format is %s" % (got, [s[4] for s in seq], want),
                  f.loc(f.body), p.describe(f))
        # reserve covers the header budget
        rs = [e for e in evs if e.a == "ubuf_reserve" and canon(call_args(e.node)[0]) == "b->buf"]
        okr = rs and re.match(r"^\(\(%s\+#(\d+)\)\+%s\)$|^\(\(#(\d+)\+%s\)\+%s\)$" % (ns, pn[4], ns, pn[4]), canon(call_args(rs[0].node)[1]).replace(" ", "")) is not None
        budget = None
        if rs:
            m = re.search(r"#(\d+)", canon(call_args(rs[0].node)[1]))
            budget = int(m.group(1)) if m else None
        first_emit = min([i for i, e in enumerate(evs) if e.a.startswith("mtbl_varint_encode") or e.a == "memcpy"] or [len(evs)])
        res.check(bool(rs) and budget is not None and budget >= 15 and evs.index(rs[0]) < first_emit,
                  rule, site(f, "reserve"), "space for 15 header bytes + suffix + value reserved before writing",
                  "buffer space reserved before the entry is written is %s" % (canon(call_args(rs[0].node)[1]) if rs else None), f.loc(f.body))
    if n == 0:
        raise BrokenAnalysis("block_builder_add: no normal path")


def entry_parse_check(ctx, res, rule):
    """The block iterator parses exactly the entry row of T-format (interpretation on independently encoded blocks)."""
    prog, cg = ctx.prog, ctx.cg
    # decided on bytes: blocks laid out by an independent encoder of the format, read by the real iterator (rules/readrule.py)
    from . import readrule
    readrule.blocks(ctx, res, rule)
    readrule.seeks(ctx, res, rule)
    # the reader takes `shared` from the file: nobody outside the builder reads its restart interval
    readers = set(g.name for g in prog.lib_funcs() for x in walk(g.body)
                  if x["k"] == "MemberExpr" and x.get("rec") == "block_builder" and x["field"] == "block_restart_interval")
    res.check(readers <= {"block_builder_init", "block_builder_add"}, rule, "block_builder.block_restart_interval:readers",
              "only the builder knows the restart interval; the reader assumes nothing about restart spacing",
              "%s read the writer's restart interval" % sorted(readers - {"block_builder_init", "block_builder_add"}))


def _vecbytes(v):
    """uint64_vec_bytes(X) is 8 * uint64_vec_size(X); (E/#2) of an even sum is halved."""
    v = strip_tags(v)
    v = re.sub(r"uint64_vec_bytes\(([^()]*)\)", r"(uint64_vec_size(\1)*#8)", v)
    m = re.search(r"\(\(uint64_vec_size\(([^()]*)\)\*#8\)/#2\)", v)
    while m:
        v = v[:m.start()] + "(uint64_vec_size(%s)*#4)" % m.group(1) + v[m.end():]
        m = re.search(r"\(\(uint64_vec_size\(([^()]*)\)\*#8\)/#2\)", v)
    return v


def restart_width_check(ctx, res, rule):
    """Writer and reader choose 64-bit restart offsets under the same threshold."""
    prog, cg = ctx.prog, ctx.cg
    U32 = 4294967295
    fin = prog.need("block_builder_finish", BB)
    est = prog.need("block_builder_current_size_estimate", BB)
    bi = prog.need("block_init", BL)
    grp = prog.need("get_restart_point", BL)
    for g in (fin, est, bi, grp):
        res.saw(g)
    # (the threshold itself is read off the paths below: each path that emits restart offsets carries its comparison)
    # emission widths per branch
    ev = APE.run(prog, cg, fin, bound=APE.BOUND)
    for p in ev.paths:
        large = None
        for (a, b), v in p.cons.items():
            if a.startswith("ubuf_bytes(") and b == "#%d" % U32:
                large = v == frozenset((GT,))
        evs = [e for e in p.events if e.kind == "call"]
        for i, e in enumerate(evs):
            if e.a in ("mtbl_fixed_encode32", "mtbl_fixed_encode64") and "uint64_vec_value" in APE.vstr(e.b[1]):
                w = 8 if e.a.endswith("64") else 4
                adv = evs[i + 1] if i + 1 < len(evs) else None
                good = (large is True and w == 8) or (large is False and w == 4)
                good = good and adv is not None and adv.a == "ubuf_advance" and adv.b[1] == ("c", w)
                res.check(good, rule, site(fin, "restart-elem:%s" % ("large" if large else "small")),
                          "restart offsets are u%dle when the region is %s, cursor advanced by the same width" % (w * 8, "large" if large else "small"),
                          "restart offset emitted with width %d for a %s block" % (w, "large" if large else "small"), fin.loc(e.node), p.describe(fin))
        if p.end == "exit":
            cnt = [e for e in evs if e.a == "mtbl_fixed_encode32" and "uint64_vec_size" in APE.vstr(e.b[1])]
            last_enc = [e for e in evs if e.a.startswith("mtbl_fixed_encode")]
            det = [e for e in evs if e.a == "ubuf_detach"]
            res.check(len(cnt) == 1 and last_enc and last_enc[-1] is cnt[0] and det and evs.index(det[0]) > evs.index(cnt[0]), rule,
                      site(fin, "restart-count"), "u32le number of restarts is the last thing written before the buffer is handed out",
                      "block does not end with the u32le restart count", fin.loc(fin.body), p.describe(fin))
    # size estimate agrees with what finish emits: per path, entries + width * restarts + 4 under the same threshold
    eve = APE.run(prog, cg, est, bound=APE.BOUND)
    nest = 0
    for p in eve.paths:
        if p.end != "exit" or p.ret() is None:
            continue
        large = None
        for (a, b), v in p.cons.items():
            if a.startswith("ubuf_bytes(") and b == "#%d" % U32:
                large = v == frozenset((GT,))
        if large is None:
            res.bad(rule, site(est, "estimate"), "the size estimate does not depend on the 32/64-bit threshold of the entries region", est.loc(est.body), p.describe(est))
            continue
        nest += 1
        t, c = linsum(_vecbytes(APE.vstr(p.ret())))
        w = 8 if large else 4
        want = {"ubuf_bytes(b->buf)": 1, "uint64_vec_size(b->restarts)": w}
        res.check(t == want and c == 4, rule, site(est, "estimate:%s" % ("large" if large else "small")),
                  "estimate = entries + %d per restart + 4 when the region is %s (same threshold as finish)" % (w, "large" if large else "small"),
                  "size estimate for a %s block is %s + %d" % ("large" if large else "small", t, c), est.loc(est.body), p.describe(est))
    if nest < 2:
        res.bad(rule, site(est, "estimate"), "size estimate has %d case(s), expected one per restart width" % nest, est.loc(est.body))
    # reader side: how block_init finds the restart array (32-bit words up to an entries region of 2^32 - 1 bytes, 64-bit words
    # above), how restart points and their count are read: decided on bytes by rules/readrule.py - blocks laid out by an
    # independent encoder, including sparse blocks beyond 4 GiB, iterated and searched by the real code
    from . import readrule
    readrule.blocks(ctx, res, rule)
    readrule.seeks(ctx, res, rule)


def frame_sites(ctx):
    """For each reader-side decode site of a framed block: per version the (len offset, crc offset, payload offset) strings."""
    prog = ctx.prog
    out = []
    for fn, unit, cg in (("mtbl_reader_init_fd", "mtbl/reader.c", ctx.cg), ("get_block", "mtbl/reader.c", ctx.cg),
                         ("verify_data_blocks", "src/mtbl_verify.c", ctx.cg_all)):
        f = prog.need(fn, unit)
        out.append((f, cg))
    return out
